import Cbor.Lemmas.Own
/-!
# `cbor_copy` builds an exclusively owned, equal tree — or releases everything
-/
namespace Heap
open Spec (Item)

mutual
/-- fuel `copy` needs for a tree -/
def need : Item → Nat
  | .array ts | .arrayI ts => 1 + needL ts
  | .map ps | .mapI ps => 1 + needP ps
  | .bytesI cs | .textI cs => cs.length + 2
  | .tag _ t => 1 + need t
  | _ => 1
def needL : List Item → Nat
  | [] => 1
  | t :: ts => 1 + max (need t) (needL ts)
def needP : List (Item × Item) → Nat
  | [] => 1
  | (k, v) :: ps => 1 + max (max (need k) (need v)) (needP ps)
end

/-- what a copy started in heap `h` must establish: no fault; the heap only grew; every cell that existed is unchanged;
on success the result is an exclusively owned tree for `t` occupying exactly the new cells; on failure every new cell is released again -/
def CopyPost (t : Item) (h : H) (r : Option Ref × H) : Prop :=
  r.2.fault = h.fault ∧ h.cells.length ≤ r.2.cells.length ∧ (∀ x, x < h.cells.length → r.2.get x = h.get x) ∧
  match r.1 with
  | some y => Own t r.2 y h.cells.length r.2.cells.length
  | none => ∀ x, h.cells.length ≤ x → r.2.get x = none

/-! ### every cell of an owned tree is live with count one -/

theorem ownChunks_all_one (t : Bool) : ∀ (cs : List (List UInt8)) (h : H) (rs : List Ref) (lo hi : Nat), OwnChunks t cs h rs lo hi →
    ∀ r, lo ≤ r → r < hi → ∃ c, h.get r = some c ∧ c.rc = 1
  | [], _, [], lo, hi, ho, r, h1, h2 => by simp only [OwnChunks] at ho; omega
  | [], _, _ :: _, _, _, ho, _, _, _ => by simp [OwnChunks] at ho
  | _ :: _, _, [], _, _, ho, _, _, _ => by simp [OwnChunks] at ho
  | b :: bs, h, c :: cs, lo, hi, ho, r, h1, h2 => by
    simp only [OwnChunks] at ho
    obtain ⟨e, hg, h3⟩ := ho
    by_cases hr : r = lo
    · subst hr; subst e; exact ⟨_, hg, rfl⟩
    · exact ownChunks_all_one t bs h cs (lo + 1) hi h3 r (by omega) h2

mutual
/-- every cell created by a successful copy is live with reference count one -/
theorem own_all_one : ∀ (t : Item) (h : H) (y lo hi : Nat), Own t h y lo hi → ∀ r, lo ≤ r → r < hi → ∃ c, h.get r = some c ∧ c.rc = 1
  | .uint _ _, h, y, lo, hi, ho, r, h1, h2 | .negint _ _, h, y, lo, hi, ho, r, h1, h2 | .bytes _, h, y, lo, hi, ho, r, h1, h2
  | .text _, h, y, lo, hi, ho, r, h1, h2 | .simple _, h, y, lo, hi, ho, r, h1, h2 | .half _, h, y, lo, hi, ho, r, h1, h2
  | .single _, h, y, lo, hi, ho, r, h1, h2 | .double _, h, y, lo, hi, ho, r, h1, h2 => by
    simp only [Own] at ho
    obtain ⟨e1, e2, hg⟩ := ho
    have : r = y := by omega
    subst this; exact ⟨_, hg, rfl⟩
  | .bytesI cs, h, y, lo, hi, ho, r, h1, h2 | .textI cs, h, y, lo, hi, ho, r, h1, h2 => by
    simp only [Own] at ho
    obtain ⟨rs, cap, lo', hi', hg, ha, hc⟩ := ho
    by_cases e : r = y
    · subst e; exact ⟨_, hg, rfl⟩
    · exact ownChunks_all_one _ cs h rs lo' hi' hc r (by unfold Around at ha; omega) (by unfold Around at ha; omega)
  | .array ts, h, y, lo, hi, ho, r, h1, h2 | .arrayI ts, h, y, lo, hi, ho, r, h1, h2 => by
    simp only [Own] at ho
    obtain ⟨xs, al, lo', hi', hg, ha, hc⟩ := ho
    by_cases e : r = y
    · subst e; exact ⟨_, hg, rfl⟩
    · exact ownList_all_one ts h xs lo' hi' hc r (by unfold Around at ha; omega) (by unfold Around at ha; omega)
  | .map ps, h, y, lo, hi, ho, r, h1, h2 | .mapI ps, h, y, lo, hi, ho, r, h1, h2 => by
    simp only [Own] at ho
    obtain ⟨rs, al, lo', hi', hg, ha, hc⟩ := ho
    by_cases e : r = y
    · subst e; exact ⟨_, hg, rfl⟩
    · exact ownPairs_all_one ps h rs lo' hi' hc r (by unfold Around at ha; omega) (by unfold Around at ha; omega)
  | .tag n t, h, y, lo, hi, ho, r, h1, h2 => by
    simp only [Own] at ho
    obtain ⟨x, lo', hi', hg, ha, hc⟩ := ho
    by_cases e : r = y
    · subst e; exact ⟨_, hg, rfl⟩
    · exact own_all_one t h x lo' hi' hc r (by unfold Around at ha; omega) (by unfold Around at ha; omega)
theorem ownList_all_one : ∀ (ts : List Item) (h : H) (xs : List Ref) (lo hi : Nat), OwnList ts h xs lo hi →
    ∀ r, lo ≤ r → r < hi → ∃ c, h.get r = some c ∧ c.rc = 1
  | [], _, [], lo, hi, ho, r, h1, h2 => by simp only [OwnList] at ho; omega
  | [], _, _ :: _, _, _, ho, _, _, _ => by simp [OwnList] at ho
  | _ :: _, _, [], _, _, ho, _, _, _ => by simp [OwnList] at ho
  | t :: ts, h, x :: xs, lo, hi, ho, r, h1, h2 => by
    simp only [OwnList] at ho
    obtain ⟨mid, o1, o2⟩ := ho
    by_cases hm : r < mid
    · exact own_all_one t h x lo mid o1 r h1 hm
    · exact ownList_all_one ts h xs mid hi o2 r (by omega) h2
theorem ownPairs_all_one : ∀ (ps : List (Item × Item)) (h : H) (rs : List (Ref × Ref)) (lo hi : Nat), OwnPairs ps h rs lo hi →
    ∀ r, lo ≤ r → r < hi → ∃ c, h.get r = some c ∧ c.rc = 1
  | [], _, [], lo, hi, ho, r, h1, h2 => by simp only [OwnPairs] at ho; omega
  | [], _, _ :: _, _, _, ho, _, _, _ => by simp [OwnPairs] at ho
  | _ :: _, _, [], _, _, ho, _, _, _ => by simp [OwnPairs] at ho
  | (k, v) :: ps, h, (a, b) :: rs, lo, hi, ho, r, h1, h2 => by
    simp only [OwnPairs] at ho
    obtain ⟨m1, m2, o1, o2, o3⟩ := ho
    by_cases hm : r < m1
    · exact own_all_one k h a lo m1 o1 r h1 hm
    · by_cases hm2 : r < m2
      · exact own_all_one v h b m1 m2 o2 r (by omega) hm2
      · exact ownPairs_all_one ps h rs m2 hi o3 r (by omega) h2
end

/-- the root of an owned tree has count one -/
theorem own_root {t : Item} {h : H} {y lo hi : Nat} (ho : Own t h y lo hi) : ∃ n, h.get y = some ⟨n, 1⟩ := by
  have hb := own_lt t y lo hi ho
  obtain ⟨c, hg, hrc⟩ := own_all_one t h y lo hi ho y hb.2.1 hb.2.2
  obtain ⟨n, rc⟩ := c
  simp only at hrc; subst hrc
  exact ⟨n, hg⟩

/-! ### allocation -/

theorem get_snoc_same {h h' : H} {c : Cell} (e : h'.cells = h.cells ++ [some c]) : h'.get h.cells.length = some c := by
  simp [H.get, e]

theorem get_snoc_other {h h' : H} {c : Cell} (e : h'.cells = h.cells ++ [some c]) (x : Nat) (hx : x ≠ h.cells.length) : h'.get x = h.get x := by
  simp only [H.get, e]
  by_cases hl : x < h.cells.length
  · rw [List.getElem?_append_left hl]
  · rw [List.getElem?_eq_none (by simp only [List.length_append, List.length_cons, List.length_nil]; omega), List.getElem?_eq_none (by omega)]

/-- outcome of allocating a childless node: one new cell with count one at the end, or nothing changed -/
def NewPost (n : Node) (h : H) (r : Option Ref × H) : Prop :=
  r.2.fault = h.fault ∧
  match r.1 with
  | some y => y = h.cells.length ∧ r.2.cells = h.cells ++ [some ⟨n, 1⟩]
  | none => r.2.cells = h.cells

theorem new1_post (ω : Oracle) (h : H) (n : Node) : NewPost n h (new1 ω h n) := by
  unfold new1; simp only [H.req]
  by_cases h1 : ω h.reqs = true
  · simp only [h1, if_true]; exact ⟨rfl, rfl, rfl⟩
  · simp only [h1]; exact ⟨rfl, rfl⟩

theorem new2_post (ω : Oracle) (h : H) (n : Node) : NewPost n h (new2 ω h n) := by
  unfold new2; simp only [H.req]
  by_cases h1 : ω h.reqs = true <;> by_cases h2 : ω (h.reqs + 1) = true <;>
    simp only [h1, h2, Bool.not_true, Bool.false_eq_true, if_false, if_true, Bool.not_false]
  all_goals first | exact ⟨rfl, rfl, rfl⟩ | exact ⟨rfl, rfl⟩

theorem newMulti_post (ω : Oracle) (h : H) (a b : Nat) (n : Node) : NewPost n h (newMulti ω h a b n) := by
  unfold newMulti; simp only [H.req]
  by_cases h1 : ω h.reqs = true <;> by_cases h3 : mulOk a b = true <;> by_cases h2 : ω (h.reqs + 1) = true <;>
    simp only [h1, h2, h3, Bool.not_true, Bool.false_eq_true, if_false, if_true, Bool.not_false]
  all_goals first | exact ⟨rfl, rfl, rfl⟩ | exact ⟨rfl, rfl⟩

/-! ### single-cell updates -/

/-- `h'` is `h` with the live cell `a` replaced by `c` -/
def Upd (h h' : H) (a : Nat) (c : Cell) : Prop :=
  h'.fault = h.fault ∧ h'.cells.length = h.cells.length ∧ h'.get a = some c ∧ ∀ r : Nat, r ≠ a → h'.get r = h.get r

theorem upd_put {h : H} {a : Nat} (c : Cell) (ha : a < h.cells.length) : Upd h (h.put a (some c)) a c :=
  ⟨rfl, by simp, get_put_same h a _ ha, fun r hr => get_put_ne h a r _ hr⟩

theorem upd_incref {h : H} {e : Nat} {n : Node} {rc : Nat} (he : h.get e = some ⟨n, rc⟩) : Upd h (h.incref e) e ⟨n, rc + 1⟩ := by
  have hl := get_lt he
  refine ⟨incref_fault h e _ he, ?_, incref_get_same h e _ he, fun r hr => incref_get_other h e r hr⟩
  simp [H.incref, he]

theorem upd_decref2 {h : H} {e : Nat} {n : Node} (he : h.get e = some ⟨n, 2⟩) : Upd h (h.decref e) e ⟨n, 1⟩ := by
  have hl := get_lt he
  have : h.decref e = h.put e (some ⟨n, 1⟩) := by
    unfold H.decref H.fuel decref; rw [he]; simp
  rw [this]; exact upd_put _ hl

/-- store a new version of the container cell, take a reference to the member for it, drop the caller's reference -/
theorem link_release {h hg : H} {res e : Nat} {n : Node} (c' : Cell) (hc : hg.cells = h.cells) (hf : hg.fault = h.fault)
    (hres : res < h.cells.length) (he : h.get e = some ⟨n, 1⟩) (hne : res ≠ e) :
    Upd h (((hg.put res (some c')).incref e).decref e) res c' := by
  have hl : res < hg.cells.length := by rw [hc]; exact hres
  have u1 := upd_put (h := hg) c' hl
  have g1 : (hg.put res (some c')).get e = some ⟨n, 1⟩ := by rw [u1.2.2.2 e (Ne.symm hne), get_congr hc]; exact he
  have u2 := upd_incref g1
  have u3 := upd_decref2 u2.2.2.1
  refine ⟨?_, ?_, ?_, ?_⟩
  · rw [u3.1, u2.1, u1.1, hf]
  · rw [u3.2.1, u2.2.1, u1.2.1, hc]
  · rw [u3.2.2.2 res hne, u2.2.2.2 res hne]; exact u1.2.2.1
  · intro r hr
    by_cases hre : r = e
    · subst hre; rw [u3.2.2.1, he]
    · rw [u3.2.2.2 r hre, u2.2.2.2 r hre, u1.2.2.2 r hr, get_congr hc]

theorem arrPush_release (ω : Oracle) {h : H} {res e : Nat} {d : Bool} {items : List Ref} {al : Nat} {n : Node}
    (hr : h.get res = some ⟨.arr d items al, 1⟩) (he : h.get e = some ⟨n, 1⟩) (hne : res ≠ e) (hd : d = true → items.length < al) :
    ((arrPush ω h res e).1 = false ∧ (arrPush ω h res e).2.cells = h.cells ∧ (arrPush ω h res e).2.fault = h.fault) ∨
    ((arrPush ω h res e).1 = true ∧ ∃ al', (d = true → al' = al) ∧ Upd h ((arrPush ω h res e).2.decref e) res ⟨.arr d (items ++ [e]) al', 1⟩) := by
  have hres := get_lt hr
  unfold arrPush; rw [hr]
  cases d with
  | true =>
    have := hd rfl
    simp only [ge_iff_le, Nat.not_le.mpr this, if_false]
    exact Or.inr ⟨by trivial, al, fun _ => rfl, link_release _ rfl rfl hres he hne⟩
  | false =>
    simp only
    split
    · have hs := grow_same ω h 8 al
      cases hgr : grow ω h 8 al with
      | mk o h1 =>
        rw [hgr] at hs
        cases o with
        | none => exact Or.inl ⟨rfl, hs.1, hs.2⟩
        | some na => exact Or.inr ⟨rfl, na, fun hh => (by cases hh), link_release _ hs.1 hs.2 hres he hne⟩
    · exact Or.inr ⟨by trivial, al, fun _ => rfl, link_release _ rfl rfl hres he hne⟩

theorem addChunk_release (ω : Oracle) {h : H} {res e : Nat} {t : Bool} {chunks : List Ref} {cap : Nat} {b : List UInt8}
    (hr : h.get res = some ⟨.strI t chunks cap, 1⟩) (he : h.get e = some ⟨.str t b, 1⟩) (hne : res ≠ e) :
    ((addChunk ω h res e).1 = false ∧ (addChunk ω h res e).2.cells = h.cells ∧ (addChunk ω h res e).2.fault = h.fault) ∨
    ((addChunk ω h res e).1 = true ∧ ∃ cap', Upd h ((addChunk ω h res e).2.decref e) res ⟨.strI t (chunks ++ [e]) cap', 1⟩) := by
  have hres := get_lt hr
  unfold addChunk; rw [hr, he]
  simp only [ne_eq, not_true_eq_false, if_false]
  split
  · have hs := grow_same ω h 8 cap
    cases hgr : grow ω h 8 cap with
    | mk o h1 =>
      rw [hgr] at hs
      cases o with
      | none => exact Or.inl ⟨rfl, hs.1, hs.2⟩
      | some na => exact Or.inr ⟨rfl, na, link_release _ hs.1 hs.2 hres he hne⟩
  · exact Or.inr ⟨rfl, cap, link_release _ rfl rfl hres he hne⟩

theorem link2_release {h hg : H} {m k v : Nat} {nk nv : Node} (c' : Cell) (hc : hg.cells = h.cells) (hf : hg.fault = h.fault)
    (hm : m < h.cells.length) (hk : h.get k = some ⟨nk, 1⟩) (hv : h.get v = some ⟨nv, 1⟩) (hmk : m ≠ k) (hmv : m ≠ v) (hkv : k ≠ v) :
    Upd h (((((hg.put m (some c')).incref k).incref v).decref k).decref v) m c' := by
  have hl : m < hg.cells.length := by rw [hc]; exact hm
  have u1 := upd_put (h := hg) c' hl
  have g1 : (hg.put m (some c')).get k = some ⟨nk, 1⟩ := by rw [u1.2.2.2 k (Ne.symm hmk), get_congr hc]; exact hk
  have u2 := upd_incref g1
  have g2 : ((hg.put m (some c')).incref k).get v = some ⟨nv, 1⟩ := by
    rw [u2.2.2.2 v (Ne.symm hkv), u1.2.2.2 v (Ne.symm hmv), get_congr hc]; exact hv
  have u3 := upd_incref g2
  have g3 : (((hg.put m (some c')).incref k).incref v).get k = some ⟨nk, 2⟩ := by
    rw [u3.2.2.2 k hkv]; exact u2.2.2.1
  have u4 := upd_decref2 g3
  have g4 : ((((hg.put m (some c')).incref k).incref v).decref k).get v = some ⟨nv, 2⟩ := by
    rw [u4.2.2.2 v (Ne.symm hkv)]; exact u3.2.2.1
  have u5 := upd_decref2 g4
  refine ⟨?_, ?_, ?_, ?_⟩
  · rw [u5.1, u4.1, u3.1, u2.1, u1.1, hf]
  · rw [u5.2.1, u4.2.1, u3.2.1, u2.2.1, u1.2.1, hc]
  · rw [u5.2.2.2 m hmv, u4.2.2.2 m hmk, u3.2.2.2 m hmv, u2.2.2.2 m hmk]; exact u1.2.2.1
  · intro r hr
    by_cases hrv : r = v
    · subst hrv; rw [u5.2.2.1, hv]
    · by_cases hrk : r = k
      · subst hrk; rw [u5.2.2.2 r hrv, u4.2.2.1, hk]
      · rw [u5.2.2.2 r hrv, u4.2.2.2 r hrk, u3.2.2.2 r hrv, u2.2.2.2 r hrk, u1.2.2.2 r hr, get_congr hc]

theorem mapAdd_release (ω : Oracle) {h : H} {m k v : Nat} {d : Bool} {ps : List (Ref × Ref)} {al : Nat} {nk nv : Node}
    (hr : h.get m = some ⟨.map d ps al, 1⟩) (hk : h.get k = some ⟨nk, 1⟩) (hv : h.get v = some ⟨nv, 1⟩)
    (hmk : m ≠ k) (hmv : m ≠ v) (hkv : k ≠ v) (hd : d = true → ps.length < al) :
    ((mapAdd ω h m k v).1 = false ∧ (mapAdd ω h m k v).2.cells = h.cells ∧ (mapAdd ω h m k v).2.fault = h.fault) ∨
    ((mapAdd ω h m k v).1 = true ∧ ∃ al', (d = true → al' = al) ∧
      Upd h (((mapAdd ω h m k v).2.decref k).decref v) m ⟨.map d (ps ++ [(k, v)]) al', 1⟩) := by
  have hres := get_lt hr
  unfold mapAdd; rw [hr]
  cases d with
  | true =>
    have := hd rfl
    simp only [ge_iff_le, Nat.not_le.mpr this, if_false]
    exact Or.inr ⟨by trivial, al, fun _ => rfl, link2_release _ rfl rfl hres hk hv hmk hmv hkv⟩
  | false =>
    simp only
    split
    · have hs := grow_same ω h 16 al
      cases hgr : grow ω h 16 al with
      | mk o h1 =>
        rw [hgr] at hs
        cases o with
        | none => exact Or.inl ⟨rfl, hs.1, hs.2⟩
        | some na => exact Or.inr ⟨rfl, na, fun hh => (by cases hh), link2_release _ hs.1 hs.2 hres hk hv hmk hmv hkv⟩
    · exact Or.inr ⟨rfl, al, fun _ => rfl, link2_release _ rfl rfl hres hk hv hmk hmv hkv⟩

theorem buildTag_release (ω : Oracle) {h : H} {xc : Nat} (n : Nat) {nd : Node} (he : h.get xc = some ⟨nd, 1⟩) :
    ((buildTag ω h n xc).1 = none ∧ (buildTag ω h n xc).2.cells = h.cells ∧ (buildTag ω h n xc).2.fault = h.fault) ∨
    ((buildTag ω h n xc).1 = some h.cells.length ∧ ((buildTag ω h n xc).2.decref xc).fault = h.fault ∧
      ((buildTag ω h n xc).2.decref xc).cells.length = h.cells.length + 1 ∧
      ((buildTag ω h n xc).2.decref xc).get h.cells.length = some ⟨.tag n (some xc), 1⟩ ∧
      ∀ r : Nat, r ≠ h.cells.length → ((buildTag ω h n xc).2.decref xc).get r = h.get r) := by
  have hxl : xc < h.cells.length := get_lt he
  have hn := new1_post ω h (.tag n none)
  unfold buildTag
  cases hnn : new1 ω h (.tag n none) with
  | mk o h2 =>
    rw [hnn] at hn
    cases o with
    | none => exact Or.inl ⟨rfl, hn.2, hn.1⟩
    | some tg =>
      obtain ⟨hf, htg, hcells⟩ := hn
      simp only at hf htg hcells
      subst htg
      have hgt : h2.get h.cells.length = some ⟨.tag n none, 1⟩ := get_snoc_same hcells
      have hne : h.cells.length ≠ xc := by omega
      have hgx : h2.get xc = some ⟨nd, 1⟩ := by rw [get_snoc_other hcells xc (Ne.symm hne)]; exact he
      have hl2 : h2.cells.length = h.cells.length + 1 := by rw [hcells]; simp
      have u := link_release (h := h2) (hg := h2) (res := h.cells.length) ⟨.tag n (some xc), 1⟩ rfl rfl (by omega) hgx hne
      refine Or.inr ⟨rfl, ?_, ?_, ?_, ?_⟩
      · simp only [tagSet, hgt]; rw [u.1, hf]
      · simp only [tagSet, hgt]; rw [u.2.1, hl2]
      · simp only [tagSet, hgt]; exact u.2.2.1
      · intro r hr
        simp only [tagSet, hgt]; rw [u.2.2.2 r hr, get_snoc_other hcells r hr]

/-! ### chains of releases -/

theorem freed_of_none {h : H} {lo hi : Nat} (hn : ∀ r, lo ≤ r → r < hi → h.get r = none) : Freed h h lo hi :=
  ⟨rfl, rfl, rfl, hn, fun _ _ => rfl⟩

theorem Freed.append' {h h1 h2 : H} {lo mid hi : Nat} (a : Freed h h1 mid hi) (b : Freed h1 h2 lo mid) (h1' : lo ≤ mid) (h2' : mid ≤ hi) :
    Freed h h2 lo hi := by
  obtain ⟨a1, a2, a3, a4, a5⟩ := a
  obtain ⟨b1, b2, b3, b4, b5⟩ := b
  refine ⟨b1.trans a1, b2.trans a2, b3.trans a3, fun r hr1 hr2 => ?_, fun r hr => ?_⟩
  · by_cases hm : r < mid
    · exact b4 r hr1 hm
    · rw [b5 r (Or.inr (by omega))]; exact a4 r (by omega) hr2
  · rw [b5 r (by omega)]; exact a5 r (by omega)

/-- after releasing `a … b-1`, release a tree that was owned in `b … c-1` -/
theorem Freed.then_release {hA hB : H} {T : Item} {y a b c : Nat} (hf : Freed hA hB a b) (ho : Own T hA y b c) (hc : c ≤ hA.cells.length)
    (hab : a ≤ b) : Freed hA (hB.decref y) a c := by
  have hb := own_lt T y b c ho
  have ho' : Own T hB y b c := own_congr T y b c (fun r h1 _ => hf.2.2.2.2 r (Or.inr h1)) ho
  exact hf.append (hdecref_own ho' (by rw [hf.2.2.1]; exact hc)) hab (by omega)

/-- after releasing `b … c-1`, release a tree that was owned in `a … b-1` -/
theorem Freed.then_release_before {hA hB : H} {T : Item} {y a b c : Nat} (hf : Freed hA hB b c) (ho : Own T hA y a b) (hb' : b ≤ hA.cells.length)
    (hbc : b ≤ c) : Freed hA (hB.decref y) a c := by
  have hb := own_lt T y a b ho
  have ho' : Own T hB y a b := own_congr T y a b (fun r _ h2 => hf.2.2.2.2 r (Or.inl h2)) ho
  exact hf.append' (hdecref_own ho' (by rw [hf.2.2.1]; exact hb')) (by omega) hbc

/-- the rest of the heap was empty already -/
theorem Freed.then_tail {hA hB : H} {a b : Nat} (hf : Freed hA hB a b) (hn : ∀ x, b ≤ x → hA.get x = none) (hab : a ≤ b)
    (hb : b ≤ hA.cells.length) : Freed hA hB a hA.cells.length :=
  hf.append (freed_of_none (fun r h1 _ => by rw [hf.2.2.2.2 r (Or.inr h1)]; exact hn r h1)) hab hb

/-- everything from `lo` on has been released: the failure clause of the specifications -/
theorem freed_post {h h2 hb : H} {lo : Nat} (hf : Freed h2 hb lo h2.cells.length) (hfault : h2.fault = h.fault)
    (hlen : h.cells.length ≤ h2.cells.length) (hold : ∀ x, x < lo → h2.get x = h.get x) :
    hb.fault = h.fault ∧ h.cells.length ≤ hb.cells.length ∧ (∀ x, x < lo → hb.get x = h.get x) ∧ ∀ x, lo ≤ x → hb.get x = none := by
  refine ⟨hf.1.trans hfault, by rw [hf.2.2.1]; exact hlen, fun x hx => ?_, fun x hx => ?_⟩
  · rw [hf.2.2.2.2 x (Or.inl hx)]; exact hold x hx
  · by_cases hl : x < h2.cells.length
    · exact hf.2.2.2.1 x hx hl
    · rw [hf.2.2.2.2 x (Or.inr (by omega))]; exact get_none_of_ge h2 x (by omega)

/-- `h` extends `h0`: every live cell of `h0` is still as it was -/
def Ext (h0 h : H) : Prop := ∀ r c, h0.get r = some c → h.get r = some c

/-! ### the partially built container -/

/-- what filling the container `res` (started in heap `h`) must establish: no fault; the heap only grew; every cell below the
container is unchanged; on success the result is `res` and it satisfies `S`; on failure everything from `res` on is released -/
def ContPost (S : H → Prop) (res : Nat) (h : H) (r : Option Ref × H) : Prop :=
  r.2.fault = h.fault ∧ h.cells.length ≤ r.2.cells.length ∧ (∀ x, x < res → r.2.get x = h.get x) ∧
  match r.1 with
  | some y => y = res ∧ S r.2
  | none => ∀ x, res ≤ x → r.2.get x = none

theorem ContPost.fail {S : H → Prop} {h h2 hb : H} {res : Nat} (hf : Freed h2 hb res h2.cells.length) (hfault : h2.fault = h.fault)
    (hlen : h.cells.length ≤ h2.cells.length) (hold : ∀ x, x < res → h2.get x = h.get x) : ContPost S res h (none, hb) :=
  freed_post hf hfault hlen hold

theorem ContPost.rebase {S : H → Prop} {h h3 : H} {res : Nat} {r : Option Ref × H} (hp : ContPost S res h3 r) (hf : h3.fault = h.fault)
    (hl : h.cells.length ≤ h3.cells.length) (hold : ∀ x, x < res → h3.get x = h.get x) : ContPost S res h r :=
  ⟨hp.1.trans hf, Nat.le_trans hl hp.2.1, fun x hx => (hp.2.2.1 x hx).trans (hold x hx), hp.2.2.2⟩

theorem CopyPost.fail {t : Item} {h h2 hb : H} (hf : Freed h2 hb h.cells.length h2.cells.length) (hfault : h2.fault = h.fault)
    (hlen : h.cells.length ≤ h2.cells.length) (hold : ∀ x, x < h.cells.length → h2.get x = h.get x) : CopyPost t h (none, hb) :=
  freed_post hf hfault hlen hold

/-- the indefinite string `res` holds the chunks `cs`, laid out in the cells after it up to the end of the heap -/
def StrI (t : Bool) (cs : List (List UInt8)) (res : Nat) (h' : H) : Prop :=
  ∃ rs cap, h'.get res = some ⟨.strI t rs cap, 1⟩ ∧ OwnChunks t cs h' rs (res + 1) h'.cells.length
def Arr (d : Bool) (ts : List Item) (res : Nat) (h' : H) : Prop :=
  ∃ xs al, h'.get res = some ⟨.arr d xs al, 1⟩ ∧ OwnList ts h' xs (res + 1) h'.cells.length
def MapC (d : Bool) (ps : List (Item × Item)) (res : Nat) (h' : H) : Prop :=
  ∃ rs al, h'.get res = some ⟨.map d rs al, 1⟩ ∧ OwnPairs ps h' rs (res + 1) h'.cells.length

theorem own_of_str {h : H} {t : Bool} {b : List UInt8} {e : Nat} (hg : h.get e = some ⟨.str t b, 1⟩) : ∃ T, Own T h e e (e + 1) := by
  cases t
  · exact ⟨.bytes b, by simp only [Own]; exact ⟨trivial, trivial, hg⟩⟩
  · exact ⟨.text b, by simp only [Own]; exact ⟨trivial, trivial, hg⟩⟩

theorem own_of_strI {h : H} {t : Bool} {rs : List Ref} {cap : Nat} {cs : List (List UInt8)} {res hi : Nat}
    (hg : h.get res = some ⟨.strI t rs cap, 1⟩) (ho : OwnChunks t cs h rs (res + 1) hi) : ∃ T, Own T h res res hi := by
  cases t
  · exact ⟨.bytesI cs, by simp only [Own]; exact ⟨rs, cap, res + 1, hi, hg, Or.inl ⟨rfl, rfl, rfl⟩, ho⟩⟩
  · exact ⟨.textI cs, by simp only [Own]; exact ⟨rs, cap, res + 1, hi, hg, Or.inl ⟨rfl, rfl, rfl⟩, ho⟩⟩

theorem own_of_arr {h : H} {d : Bool} {xs : List Ref} {al : Nat} {ts : List Item} {res hi : Nat}
    (hg : h.get res = some ⟨.arr d xs al, 1⟩) (ho : OwnList ts h xs (res + 1) hi) : ∃ T, Own T h res res hi := by
  cases d
  · exact ⟨.arrayI ts, by simp only [Own]; exact ⟨xs, al, res + 1, hi, hg, Or.inl ⟨rfl, rfl, rfl⟩, ho⟩⟩
  · exact ⟨.array ts, by simp only [Own]; exact ⟨xs, al, res + 1, hi, hg, Or.inl ⟨rfl, rfl, rfl⟩, ho⟩⟩

theorem own_of_map {h : H} {d : Bool} {rs : List (Ref × Ref)} {al : Nat} {ps : List (Item × Item)} {res hi : Nat}
    (hg : h.get res = some ⟨.map d rs al, 1⟩) (ho : OwnPairs ps h rs (res + 1) hi) : ∃ T, Own T h res res hi := by
  cases d
  · exact ⟨.mapI ps, by simp only [Own]; exact ⟨rs, al, res + 1, hi, hg, Or.inl ⟨rfl, rfl, rfl⟩, ho⟩⟩
  · exact ⟨.map ps, by simp only [Own]; exact ⟨rs, al, res + 1, hi, hg, Or.inl ⟨rfl, rfl, rfl⟩, ho⟩⟩

theorem ownChunks_snoc (t : Bool) {h : H} : ∀ (cs : List (List UInt8)) (rs : List Ref) (lo hi : Nat) (b : List UInt8),
    OwnChunks t cs h rs lo hi → h.get hi = some ⟨.str t b, 1⟩ → OwnChunks t (cs ++ [b]) h (rs ++ [hi]) lo (hi + 1)
  | [], [], lo, hi, b, ho, hg => by
    simp only [OwnChunks] at ho; subst ho
    simp only [List.nil_append, OwnChunks]; exact ⟨trivial, hg, trivial⟩
  | [], _ :: _, _, _, _, ho, _ => by simp [OwnChunks] at ho
  | _ :: _, [], _, _, _, ho, _ => by simp [OwnChunks] at ho
  | c :: cs, r :: rs, lo, hi, b, ho, hg => by
    simp only [OwnChunks, List.cons_append] at ho ⊢
    exact ⟨ho.1, ho.2.1, ownChunks_snoc t cs rs (lo + 1) hi b ho.2.2 hg⟩

theorem ownList_snoc {h : H} : ∀ (ts : List Item) (xs : List Ref) (lo mid hi : Nat) (t : Item) (e : Nat),
    OwnList ts h xs lo mid → Own t h e mid hi → OwnList (ts ++ [t]) h (xs ++ [e]) lo hi
  | [], [], lo, mid, hi, t, e, ho, he => by
    simp only [OwnList] at ho; subst ho
    simp only [List.nil_append, OwnList]; exact ⟨hi, he, rfl⟩
  | [], _ :: _, _, _, _, _, _, ho, _ => by simp [OwnList] at ho
  | _ :: _, [], _, _, _, _, _, ho, _ => by simp [OwnList] at ho
  | c :: cs, r :: rs, lo, mid, hi, t, e, ho, he => by
    simp only [OwnList, List.cons_append] at ho ⊢
    obtain ⟨m, h1, h2⟩ := ho
    exact ⟨m, h1, ownList_snoc cs rs m mid hi t e h2 he⟩

theorem ownPairs_snoc {h : H} : ∀ (ps : List (Item × Item)) (rs : List (Ref × Ref)) (lo m0 m1 hi : Nat) (k v : Item) (a b : Nat),
    OwnPairs ps h rs lo m0 → Own k h a m0 m1 → Own v h b m1 hi → OwnPairs (ps ++ [(k, v)]) h (rs ++ [(a, b)]) lo hi
  | [], [], lo, m0, m1, hi, k, v, a, b, ho, hk, hv => by
    simp only [OwnPairs] at ho; subst ho
    simp only [List.nil_append, OwnPairs]; exact ⟨m1, hi, hk, hv, rfl⟩
  | [], _ :: _, _, _, _, _, _, _, _, _, ho, _, _ => by simp [OwnPairs] at ho
  | _ :: _, [], _, _, _, _, _, _, _, _, ho, _, _ => by simp [OwnPairs] at ho
  | (k', v') :: cs, (a', b') :: rs, lo, m0, m1, hi, k, v, a, b, ho, hk, hv => by
    simp only [OwnPairs, List.cons_append] at ho ⊢
    obtain ⟨n1, n2, h1, h2, h3⟩ := ho
    exact ⟨n1, n2, h1, h2, ownPairs_snoc cs rs n2 m0 m1 hi k v a b h3 hk hv⟩

/-! ### indefinite strings -/

theorem copy_str {ω : Oracle} {f : Nat} {h : H} {x : Ref} {t : Bool} {b : List UInt8} {rc : Nat}
    (hg : h.get x = some ⟨.str t b, rc⟩) : copy ω (f + 1) h x = new2 ω h (.str t b) := by
  unfold copy; rw [hg]

theorem copyChunks_spec (ω : Oracle) (h0 : H) (t : Bool) : ∀ (cs : List (List UInt8)) (f : Nat) (h : H) (res : Nat) (xs : List Ref)
    (cs0 : List (List UInt8)) (rs0 : List Ref) (cap : Nat),
    Ext h0 h → h0.get res = none → DenChunks t cs h0 xs → cs.length + 1 ≤ f →
    h.get res = some ⟨.strI t rs0 cap, 1⟩ → OwnChunks t cs0 h rs0 (res + 1) h.cells.length →
    ContPost (StrI t (cs0 ++ cs) res) res h (copyChunks ω f h res xs)
  | [], f, h, res, [], cs0, rs0, cap, _, _, _, hf, hg, ho => by
    cases f with
    | zero => omega
    | succ f =>
      unfold copyChunks
      refine ⟨rfl, Nat.le_refl _, fun _ _ => rfl, rfl, rs0, cap, hg, ?_⟩
      rw [List.append_nil]; exact ho
  | [], _, _, _, _ :: _, _, _, _, _, _, hd, _, _, _ => by simp [DenChunks] at hd
  | _ :: _, _, _, _, [], _, _, _, _, _, hd, _, _, _ => by simp [DenChunks] at hd
  | b :: bs, f, h, res, x :: xs, cs0, rs0, cap, hext, hres0, hden, hf, hg, ho => by
    simp only [DenChunks] at hden
    obtain ⟨⟨rc, hgx0⟩, hden'⟩ := hden
    have hgx := hext _ _ hgx0
    have hresl : res < h.cells.length := get_lt hg
    obtain ⟨T, hT⟩ := own_of_strI hg ho
    simp only [List.length_cons] at hf
    cases f with
    | zero => omega
    | succ f =>
    cases f with
    | zero => omega
    | succ f =>
      unfold copyChunks
      rw [copy_str hgx]
      have hn := new2_post ω h (.str t b)
      cases hnn : new2 ω h (.str t b) with
      | mk o h1 =>
        rw [hnn] at hn
        cases o with
        | none =>
          obtain ⟨hf1, hc1⟩ := hn
          simp only at hf1 hc1 ⊢
          have hl1 : h1.cells.length = h.cells.length := by rw [hc1]
          have hT1 : Own T h1 res res h.cells.length := own_congr T res res _ (fun r _ _ => get_congr hc1 r) hT
          have F : Freed h1 (h1.decref res) res h1.cells.length := by
            rw [hl1]; exact hdecref_own hT1 (by rw [hl1]; exact Nat.le_refl _)
          exact ContPost.fail F hf1 (by omega) (fun x _ => get_congr hc1 x)
        | some e =>
          obtain ⟨hf1, he, hc1⟩ := hn
          simp only at hf1 he hc1 ⊢
          subst he
          have hge : h1.get h.cells.length = some ⟨.str t b, 1⟩ := get_snoc_same hc1
          have hold : ∀ x : Nat, x ≠ h.cells.length → h1.get x = h.get x := get_snoc_other hc1
          have hl1 : h1.cells.length = h.cells.length + 1 := by rw [hc1]; simp
          have hne : res ≠ h.cells.length := by omega
          have hg1 : h1.get res = some ⟨.strI t rs0 cap, 1⟩ := by rw [hold res hne]; exact hg
          have hrel := addChunk_release ω hg1 hge hne
          cases hpp : addChunk ω h1 res h.cells.length with
          | mk ok h2 =>
            rw [hpp] at hrel
            simp only at hrel ⊢
            rcases hrel with ⟨hb, hc2, hf2⟩ | ⟨hb, cap', hu⟩
            · subst hb
              simp only
              have hl2 : h2.cells.length = h.cells.length + 1 := by rw [hc2]; exact hl1
              have hge2 : h2.get h.cells.length = some ⟨.str t b, 1⟩ := by rw [get_congr hc2]; exact hge
              obtain ⟨Te, hTe⟩ := own_of_str hge2
              have Fa : Freed h2 (h2.decref h.cells.length) h.cells.length (h.cells.length + 1) := hdecref_own hTe (by omega)
              have hT2 : Own T h2 res res h.cells.length :=
                own_congr T res res _ (fun r _ hr => by rw [get_congr hc2, hold r (by omega)]) hT
              have Fb := Fa.then_release_before hT2 (by omega) (by omega)
              rw [← hl2] at Fb
              exact ContPost.fail Fb (hf2.trans hf1) (by omega) (fun x hx => by rw [get_congr hc2, hold x (by omega)])
            · subst hb
              simp only
              have hext3 : Ext h0 (h2.decref h.cells.length) := by
                intro (r : Nat) c hr
                have h1' := hext r c hr
                have hrl : r < h.cells.length := get_lt h1'
                have hrne : r ≠ res := by
                  intro e; subst e; rw [hres0] at hr; cases hr
                rw [hu.2.2.2 r hrne, hold r (by omega)]; exact h1'
              have hl3 : (h2.decref h.cells.length).cells.length = h.cells.length + 1 := by rw [hu.2.1]; exact hl1
              have ho3 : OwnChunks t (cs0 ++ [b]) (h2.decref h.cells.length) (rs0 ++ [h.cells.length]) (res + 1) (h2.decref h.cells.length).cells.length := by
                rw [hl3]
                refine ownChunks_snoc t cs0 rs0 (res + 1) h.cells.length b ?_ ?_
                · exact ownChunks_congr t cs0 rs0 _ _ (fun r hr1 hr2 => by rw [hu.2.2.2 r (by omega), hold r (by omega)]) ho
                · rw [hu.2.2.2 _ (Ne.symm hne)]; exact hge
              have ih := copyChunks_spec ω h0 t bs (f + 1) (h2.decref h.cells.length) res xs (cs0 ++ [b]) (rs0 ++ [h.cells.length]) cap'
                hext3 hres0 hden' (by omega) hu.2.2.1 ho3
              rw [List.append_assoc, List.singleton_append] at ih
              exact ih.rebase (hu.1.trans hf1) (by omega) (fun x hx => by rw [hu.2.2.2 x (by omega), hold x (by omega)])

/-! ### keeping track of the source -/

theorem ext_fresh {h0 h : H} (hext : Ext h0 h) : h0.get h.cells.length = none := by
  cases hg : h0.get h.cells.length with
  | none => rfl
  | some c => have := hext _ _ hg; rw [get_none_of_ge h _ (Nat.le_refl _)] at this; cases this

theorem ext_grow {h0 h h1 : H} (hext : Ext h0 h) (hold : ∀ x, x < h.cells.length → h1.get x = h.get x) : Ext h0 h1 := by
  intro (r : Nat) c hr
  have h1' := hext r c hr
  rw [hold r (get_lt h1')]; exact h1'

theorem ext_upd {h0 h h1 h3 : H} {res : Nat} {c : Cell} (hext : Ext h0 h) (hres0 : h0.get res = none)
    (hold : ∀ x, x < h.cells.length → h1.get x = h.get x) (hu : Upd h1 h3 res c) : Ext h0 h3 := by
  intro (r : Nat) c' hr
  have h1' := hext r c' hr
  have hrne : r ≠ res := by intro e; subst e; rw [hres0] at hr; cases hr
  rw [hu.2.2.2 r hrne, hold r (get_lt h1')]; exact h1'

theorem ext_snoc {h0 h h1 : H} {c : Cell} (hext : Ext h0 h) (hc : h1.cells = h.cells ++ [some c]) : Ext h0 h1 :=
  ext_grow hext (fun x hx => get_snoc_other hc x (by omega))

theorem denList_length {h : H} : ∀ (ts : List Item) (xs : List Ref), DenList ts h xs → ts.length = xs.length
  | [], [], _ => rfl
  | [], _ :: _, hd => by simp [DenList] at hd
  | _ :: _, [], hd => by simp [DenList] at hd
  | t :: ts, x :: xs, hd => by
    simp only [DenList] at hd
    simp only [List.length_cons, denList_length ts xs hd.2]

theorem denPairs_length {h : H} : ∀ (ps : List (Item × Item)) (rs : List (Ref × Ref)), DenPairs ps h rs → ps.length = rs.length
  | [], [], _ => rfl
  | [], _ :: _, hd => by simp [DenPairs] at hd
  | _ :: _, [], hd => by simp [DenPairs] at hd
  | (k, v) :: ps, (a, b) :: rs, hd => by
    simp only [DenPairs] at hd
    simp only [List.length_cons, denPairs_length ps rs hd.2.2]

theorem contPost_new_none {S : H → Prop} {n : Node} {h h1 : H} (hn : NewPost n h (none, h1)) : ContPost S h.cells.length h (none, h1) := by
  obtain ⟨hf1, hc1⟩ := hn
  simp only at hf1 hc1
  exact ⟨hf1, by simp only [hc1]; exact Nat.le_refl _, fun x _ => get_congr hc1 x, fun x hx => by
    show h1.get x = none
    rw [get_congr hc1]; exact get_none_of_ge h x hx⟩

theorem copyPost_new_none {t : Item} {n : Node} {h h1 : H} (hn : NewPost n h (none, h1)) : CopyPost t h (none, h1) :=
  contPost_new_none (S := fun _ => True) hn

theorem copyPost_of_new {t : Item} {n : Node} {h : H} {r : Option Ref × H} (hn : NewPost n h r)
    (hown : ∀ (h' : H) (y : Nat), h'.get y = some ⟨n, 1⟩ → Own t h' y y (y + 1)) : CopyPost t h r := by
  obtain ⟨o, h1⟩ := r
  cases o with
  | none => exact copyPost_new_none hn
  | some e =>
    obtain ⟨hf1, he, hc1⟩ := hn
    simp only at hf1 he hc1
    subst he
    have hl1 : h1.cells.length = h.cells.length + 1 := by rw [hc1]; simp
    refine ⟨hf1, by simp only [hl1]; omega, fun x hx => get_snoc_other hc1 x (by omega), ?_⟩
    show Own t h1 h.cells.length h.cells.length h1.cells.length
    rw [hl1]; exact hown h1 _ (get_snoc_same hc1)

/-! ### arrays -/

/-- one step of `copyItems`, given the specifications for the member and for the remaining members -/
theorem copyItems_step (ω : Oracle) (h0 : H) (t : Item) (ts : List Item)
    (IHt : ∀ (f : Nat) (h : H) (x : Ref), Ext h0 h → Den t h0 x → need t ≤ f → CopyPost t h (copy ω f h x))
    (IHts : ∀ (f : Nat) (h : H) (res : Nat) (xs : List Ref) (d : Bool) (ts0 : List Item) (items0 : List Ref) (al : Nat),
      Ext h0 h → h0.get res = none → DenList ts h0 xs → needL ts ≤ f →
      h.get res = some ⟨.arr d items0 al, 1⟩ → OwnList ts0 h items0 (res + 1) h.cells.length →
      (d = true → items0.length + ts.length ≤ al) → ContPost (Arr d (ts0 ++ ts) res) res h (copyItems ω f h res xs))
    (f : Nat) (h : H) (res : Nat) (x : Ref) (xs : List Ref) (d : Bool) (ts0 : List Item) (items0 : List Ref) (al : Nat)
    (hext : Ext h0 h) (hres0 : h0.get res = none) (hdx : Den t h0 x) (hdxs : DenList ts h0 xs) (hf : needL (t :: ts) ≤ f)
    (hg : h.get res = some ⟨.arr d items0 al, 1⟩) (ho : OwnList ts0 h items0 (res + 1) h.cells.length)
    (hal : d = true → items0.length + (t :: ts).length ≤ al) :
    ContPost (Arr d (ts0 ++ t :: ts) res) res h (copyItems ω f h res (x :: xs)) := by
  simp only [needL] at hf
  simp only [List.length_cons] at hal
  cases f with
  | zero => omega
  | succ f =>
    have hft : need t ≤ f := by omega
    have hfts : needL ts ≤ f := by omega
    have hresl : res < h.cells.length := get_lt hg
    obtain ⟨T, hT⟩ := own_of_arr hg ho
    unfold copyItems
    have hx := IHt f h x hext hdx hft
    cases hn : copy ω f h x with
    | mk o h1 =>
      rw [hn] at hx
      obtain ⟨hf1, hl1, hold, hpost⟩ := hx
      cases o with
      | none =>
        simp only at hf1 hl1 hold hpost ⊢
        have hT1 : Own T h1 res res h.cells.length := own_congr T res res _ (fun r _ hr => hold r hr) hT
        have F := (hdecref_own hT1 hl1).then_tail hpost (by omega) hl1
        exact ContPost.fail F hf1 hl1 (fun x hx => hold x (by omega))
      | some e =>
        simp only at hf1 hl1 hold hpost ⊢
        have hb := own_lt t e _ _ hpost
        obtain ⟨n, hge⟩ := own_root hpost
        have hne : res ≠ e := by omega
        have hg1 : h1.get res = some ⟨.arr d items0 al, 1⟩ := by rw [hold res hresl]; exact hg
        have hrel := arrPush_release ω hg1 hge hne (fun hd => by have := hal hd; omega)
        cases hpp : arrPush ω h1 res e with
        | mk ok h2 =>
          rw [hpp] at hrel
          simp only at hrel ⊢
          rcases hrel with ⟨hb', hc2, hf2⟩ | ⟨hb', al', hal', hu⟩
          · subst hb'
            simp only
            have hl2 : h2.cells.length = h1.cells.length := by rw [hc2]
            have hTe : Own t h2 e h.cells.length h2.cells.length := by
              rw [hl2]; exact own_congr t e _ _ (fun r _ _ => get_congr hc2 r) hpost
            have Fa := hdecref_own hTe (Nat.le_refl _)
            have hT2 : Own T h2 res res h.cells.length :=
              own_congr T res res _ (fun r _ hr => by rw [get_congr hc2]; exact hold r hr) hT
            have Fb := Fa.then_release_before hT2 (by omega) (by omega)
            exact ContPost.fail Fb (hf2.trans hf1) (by omega) (fun x hx => by rw [get_congr hc2]; exact hold x (by omega))
          · subst hb'
            simp only
            have hext3 : Ext h0 (h2.decref e) := ext_upd hext hres0 hold hu
            have hl3 : (h2.decref e).cells.length = h1.cells.length := hu.2.1
            have ho3 : OwnList (ts0 ++ [t]) (h2.decref e) (items0 ++ [e]) (res + 1) (h2.decref e).cells.length := by
              rw [hl3]
              refine ownList_snoc ts0 items0 (res + 1) h.cells.length h1.cells.length t e ?_ ?_
              · exact ownList_congr ts0 items0 _ _ (fun r hr1 hr2 => by rw [hu.2.2.2 r (by omega)]; exact hold r hr2) ho
              · exact own_congr t e _ _ (fun r hr1 hr2 => hu.2.2.2 r (by omega)) hpost
            have ih := IHts f (h2.decref e) res xs d (ts0 ++ [t]) (items0 ++ [e]) al' hext3 hres0 hdxs hfts hu.2.2.1 ho3
              (fun hd => by
                have := hal hd; have := hal' hd
                simp only [List.length_append, List.length_cons, List.length_nil]; omega)
            rw [List.append_assoc, List.singleton_append] at ih
            exact ih.rebase (hu.1.trans hf1) (by omega) (fun x hx => by rw [hu.2.2.2 x (by omega)]; exact hold x (by omega))

/-! ### maps -/

/-- one step of `copyPairs`, given the specifications for the key, the value and the remaining pairs -/
theorem copyPairs_step (ω : Oracle) (h0 : H) (k v : Item) (ps : List (Item × Item))
    (IHk : ∀ (f : Nat) (h : H) (x : Ref), Ext h0 h → Den k h0 x → need k ≤ f → CopyPost k h (copy ω f h x))
    (IHv : ∀ (f : Nat) (h : H) (x : Ref), Ext h0 h → Den v h0 x → need v ≤ f → CopyPost v h (copy ω f h x))
    (IHps : ∀ (f : Nat) (h : H) (res : Nat) (rs : List (Ref × Ref)) (d : Bool) (ps0 : List (Item × Item)) (rs0 : List (Ref × Ref)) (al : Nat),
      Ext h0 h → h0.get res = none → DenPairs ps h0 rs → needP ps ≤ f →
      h.get res = some ⟨.map d rs0 al, 1⟩ → OwnPairs ps0 h rs0 (res + 1) h.cells.length →
      (d = true → rs0.length + ps.length ≤ al) → ContPost (MapC d (ps0 ++ ps) res) res h (copyPairs ω f h res rs))
    (f : Nat) (h : H) (res : Nat) (a b : Ref) (rs : List (Ref × Ref)) (d : Bool) (ps0 : List (Item × Item)) (rs0 : List (Ref × Ref)) (al : Nat)
    (hext : Ext h0 h) (hres0 : h0.get res = none) (hda : Den k h0 a) (hdb : Den v h0 b) (hdrs : DenPairs ps h0 rs)
    (hf : needP ((k, v) :: ps) ≤ f)
    (hg : h.get res = some ⟨.map d rs0 al, 1⟩) (ho : OwnPairs ps0 h rs0 (res + 1) h.cells.length)
    (hal : d = true → rs0.length + ((k, v) :: ps).length ≤ al) :
    ContPost (MapC d (ps0 ++ (k, v) :: ps) res) res h (copyPairs ω f h res ((a, b) :: rs)) := by
  simp only [needP] at hf
  simp only [List.length_cons] at hal
  cases f with
  | zero => omega
  | succ f =>
    have hfk : need k ≤ f := by omega
    have hfv : need v ≤ f := by omega
    have hfps : needP ps ≤ f := by omega
    have hresl : res < h.cells.length := get_lt hg
    obtain ⟨T, hT⟩ := own_of_map hg ho
    unfold copyPairs
    have hk := IHk f h a hext hda hfk
    cases hn : copy ω f h a with
    | mk o h1 =>
      rw [hn] at hk
      obtain ⟨hf1, hl1, hold1, hpost1⟩ := hk
      cases o with
      | none =>
        simp only at hf1 hl1 hold1 hpost1 ⊢
        have hT1 : Own T h1 res res h.cells.length := own_congr T res res _ (fun r _ hr => hold1 r hr) hT
        have F := (hdecref_own hT1 hl1).then_tail hpost1 (by omega) hl1
        exact ContPost.fail F hf1 hl1 (fun x hx => hold1 x (by omega))
      | some kc =>
        simp only at hf1 hl1 hold1 hpost1 ⊢
        have hext1 : Ext h0 h1 := ext_grow hext hold1
        have hv := IHv f h1 b hext1 hdb hfv
        cases hn2 : copy ω f h1 b with
        | mk o2 h2 =>
          rw [hn2] at hv
          obtain ⟨hf2, hl2, hold2, hpost2⟩ := hv
          have hbk := own_lt k kc _ _ hpost1
          cases o2 with
          | none =>
            simp only at hf2 hl2 hold2 hpost2 ⊢
            have hT2 : Own T h2 res res h.cells.length :=
              own_congr T res res _ (fun r _ hr => by rw [hold2 r (by omega)]; exact hold1 r hr) hT
            have hK2 : Own k h2 kc h.cells.length h1.cells.length := own_congr k kc _ _ (fun r _ hr => hold2 r hr) hpost1
            have F1 := hdecref_own hT2 (by omega)
            have F2 := F1.then_release hK2 hl2 (by omega)
            have F3 := F2.then_tail hpost2 (by omega) hl2
            exact ContPost.fail F3 (hf2.trans hf1) (by omega) (fun x hx => by rw [hold2 x (by omega)]; exact hold1 x (by omega))
          | some vc =>
            simp only at hf2 hl2 hold2 hpost2 ⊢
            have hbv := own_lt v vc _ _ hpost2
            have hK2 : Own k h2 kc h.cells.length h1.cells.length := own_congr k kc _ _ (fun r _ hr => hold2 r hr) hpost1
            obtain ⟨nk, hgk⟩ := own_root hK2
            obtain ⟨nv, hgv⟩ := own_root hpost2
            have hg2 : h2.get res = some ⟨.map d rs0 al, 1⟩ := by rw [hold2 res (by omega), hold1 res hresl]; exact hg
            have hrel := mapAdd_release ω hg2 hgk hgv (by omega) (by omega) (by omega) (fun hd => by have := hal hd; omega)
            cases hpp : mapAdd ω h2 res kc vc with
            | mk ok h3 =>
              rw [hpp] at hrel
              simp only at hrel ⊢
              rcases hrel with ⟨hb', hc3, hf3⟩ | ⟨hb', al', hal', hu⟩
              · subst hb'
                simp only
                have hl3 : h3.cells.length = h2.cells.length := by rw [hc3]
                have hT3 : Own T h3 res res h.cells.length :=
                  own_congr T res res _ (fun r _ hr => by rw [get_congr hc3, hold2 r (by omega)]; exact hold1 r hr) hT
                have hK3 : Own k h3 kc h.cells.length h1.cells.length := own_congr k kc _ _ (fun r _ _ => get_congr hc3 r) hK2
                have hV3 : Own v h3 vc h1.cells.length h3.cells.length := by
                  rw [hl3]; exact own_congr v vc _ _ (fun r _ _ => get_congr hc3 r) hpost2
                have F1 := hdecref_own hT3 (by omega)
                have F2 := F1.then_release hK3 (by omega) (by omega)
                have F3 := F2.then_release hV3 (Nat.le_refl _) (by omega)
                exact ContPost.fail F3 ((hf3.trans hf2).trans hf1) (by omega)
                  (fun x hx => by rw [get_congr hc3, hold2 x (by omega)]; exact hold1 x (by omega))
              · subst hb'
                simp only
                have hext5 : Ext h0 ((h3.decref kc).decref vc) := ext_upd hext1 hres0 hold2 hu
                have hl5 : ((h3.decref kc).decref vc).cells.length = h2.cells.length := hu.2.1
                have ho5 : OwnPairs (ps0 ++ [(k, v)]) ((h3.decref kc).decref vc) (rs0 ++ [(kc, vc)]) (res + 1)
                    ((h3.decref kc).decref vc).cells.length := by
                  rw [hl5]
                  refine ownPairs_snoc ps0 rs0 (res + 1) h.cells.length h1.cells.length h2.cells.length k v kc vc ?_ ?_ ?_
                  · exact ownPairs_congr ps0 rs0 _ _
                      (fun r hr1 hr2 => by rw [hu.2.2.2 r (by omega), hold2 r (by omega)]; exact hold1 r hr2) ho
                  · exact own_congr k kc _ _ (fun r hr1 hr2 => hu.2.2.2 r (by omega)) hK2
                  · exact own_congr v vc _ _ (fun r hr1 hr2 => hu.2.2.2 r (by omega)) hpost2
                have ih := IHps f ((h3.decref kc).decref vc) res rs d (ps0 ++ [(k, v)]) (rs0 ++ [(kc, vc)]) al' hext5 hres0 hdrs hfps
                  hu.2.2.1 ho5
                  (fun hd => by
                    have := hal hd; have := hal' hd
                    simp only [List.length_append, List.length_cons, List.length_nil]; omega)
                rw [List.append_assoc, List.singleton_append] at ih
                exact ih.rebase ((hu.1.trans hf2).trans hf1) (by omega)
                  (fun x hx => by rw [hu.2.2.2 x (by omega), hold2 x (by omega)]; exact hold1 x (by omega))

/-! ### `copy` itself, node by node -/

theorem copy_int {ω : Oracle} {f : Nat} {h : H} {x : Ref} {s : Bool} {w : Spec.Width} {v rc : Nat}
    (hg : h.get x = some ⟨.int s w v, rc⟩) : copy ω (f + 1) h x = new1 ω h (.int s w v) := by
  unfold copy; rw [hg]
theorem copy_ctrl {ω : Oracle} {f : Nat} {h : H} {x : Ref} {v rc : Nat}
    (hg : h.get x = some ⟨.ctrl v, rc⟩) : copy ω (f + 1) h x = new1 ω h (.ctrl v) := by
  unfold copy; rw [hg]
theorem copy_half {ω : Oracle} {f : Nat} {h : H} {x : Ref} {v rc : Nat}
    (hg : h.get x = some ⟨.half v, rc⟩) : copy ω (f + 1) h x = new1 ω h (.half v) := by
  unfold copy; rw [hg]
theorem copy_single {ω : Oracle} {f : Nat} {h : H} {x : Ref} {v rc : Nat}
    (hg : h.get x = some ⟨.single v, rc⟩) : copy ω (f + 1) h x = new1 ω h (.single v) := by
  unfold copy; rw [hg]
theorem copy_double {ω : Oracle} {f : Nat} {h : H} {x : Ref} {v rc : Nat}
    (hg : h.get x = some ⟨.double v, rc⟩) : copy ω (f + 1) h x = new1 ω h (.double v) := by
  unfold copy; rw [hg]

theorem copy_strI_spec (ω : Oracle) (h0 : H) (t : Bool) (cs : List (List UInt8)) (f : Nat) (h : H) (x : Ref) (hext : Ext h0 h)
    (rs : List Ref) (cap rc : Nat) (hg0 : h0.get x = some ⟨.strI t rs cap, rc⟩) (hden : DenChunks t cs h0 rs) (hf : cs.length + 2 ≤ f) :
    ContPost (StrI t cs h.cells.length) h.cells.length h (copy ω f h x) := by
  cases f with
  | zero => omega
  | succ f =>
    have hg := hext _ _ hg0
    unfold copy; rw [hg]
    simp only
    have hn := new2_post ω h (.strI t [] 0)
    cases hnn : new2 ω h (.strI t [] 0) with
    | mk o h1 =>
      rw [hnn] at hn
      cases o with
      | none => exact contPost_new_none hn
      | some res =>
        obtain ⟨hf1, he, hc1⟩ := hn
        simp only at hf1 he hc1 ⊢
        subst he
        have hl1 : h1.cells.length = h.cells.length + 1 := by rw [hc1]; simp
        have ih := copyChunks_spec ω h0 t cs f h1 h.cells.length rs [] [] 0 (ext_snoc hext hc1) (ext_fresh hext) hden (by omega)
          (get_snoc_same hc1) (by simp only [OwnChunks]; omega)
        rw [List.nil_append] at ih
        exact ih.rebase hf1 (by omega) (fun x hx => get_snoc_other hc1 x (by omega))

theorem copy_arr_some (ω : Oracle) (h0 : H) (d : Bool) (ts : List Item)
    (IHts : ∀ (f : Nat) (h : H) (res : Nat) (xs : List Ref) (d : Bool) (ts0 : List Item) (items0 : List Ref) (al : Nat),
      Ext h0 h → h0.get res = none → DenList ts h0 xs → needL ts ≤ f →
      h.get res = some ⟨.arr d items0 al, 1⟩ → OwnList ts0 h items0 (res + 1) h.cells.length →
      (d = true → items0.length + ts.length ≤ al) → ContPost (Arr d (ts0 ++ ts) res) res h (copyItems ω f h res xs))
    (f : Nat) (h h1 : H) (xs : List Ref) (al : Nat) (hext : Ext h0 h) (hden : DenList ts h0 xs) (hfts : needL ts ≤ f)
    (hal : d = true → ts.length ≤ al) (hf1 : h1.fault = h.fault) (hc1 : h1.cells = h.cells ++ [some ⟨.arr d [] al, 1⟩]) :
    ContPost (Arr d ts h.cells.length) h.cells.length h (copyItems ω f h1 h.cells.length xs) := by
  have hl1 : h1.cells.length = h.cells.length + 1 := by rw [hc1]; simp
  have ih := IHts f h1 h.cells.length xs d [] [] al (ext_snoc hext hc1) (ext_fresh hext) hden hfts (get_snoc_same hc1)
    (by simp only [OwnList]; omega) (fun hd => by have := hal hd; simp only [List.length_nil]; omega)
  rw [List.nil_append] at ih
  exact ih.rebase hf1 (by omega) (fun x hx => get_snoc_other hc1 x (by omega))

theorem copy_arr_spec (ω : Oracle) (h0 : H) (d : Bool) (ts : List Item)
    (IHts : ∀ (f : Nat) (h : H) (res : Nat) (xs : List Ref) (d : Bool) (ts0 : List Item) (items0 : List Ref) (al : Nat),
      Ext h0 h → h0.get res = none → DenList ts h0 xs → needL ts ≤ f →
      h.get res = some ⟨.arr d items0 al, 1⟩ → OwnList ts0 h items0 (res + 1) h.cells.length →
      (d = true → items0.length + ts.length ≤ al) → ContPost (Arr d (ts0 ++ ts) res) res h (copyItems ω f h res xs))
    (f : Nat) (h : H) (x : Ref) (hext : Ext h0 h) (xs : List Ref) (al rc : Nat)
    (hg0 : h0.get x = some ⟨.arr d xs al, rc⟩) (hden : DenList ts h0 xs) (hf : 1 + needL ts ≤ f) :
    ContPost (Arr d ts h.cells.length) h.cells.length h (copy ω f h x) := by
  cases f with
  | zero => omega
  | succ f =>
    have hg := hext _ _ hg0
    have hlen := denList_length ts xs hden
    unfold copy; rw [hg]
    simp only
    cases d with
    | true =>
      simp only [if_true]
      have hn := newMulti_post ω h 8 xs.length (.arr true [] xs.length)
      cases hnn : newMulti ω h 8 xs.length (.arr true [] xs.length) with
      | mk o h1 =>
        rw [hnn] at hn
        cases o with
        | none => exact contPost_new_none hn
        | some res =>
          obtain ⟨hf1, he, hc1⟩ := hn
          simp only at hf1 he hc1 ⊢
          subst he
          exact copy_arr_some ω h0 true ts IHts f h h1 xs xs.length hext hden (by omega) (fun _ => by omega) hf1 hc1
    | false =>
      simp only [Bool.false_eq_true, if_false]
      have hn := new1_post ω h (.arr false [] 0)
      cases hnn : new1 ω h (.arr false [] 0) with
      | mk o h1 =>
        rw [hnn] at hn
        cases o with
        | none => exact contPost_new_none hn
        | some res =>
          obtain ⟨hf1, he, hc1⟩ := hn
          simp only at hf1 he hc1 ⊢
          subst he
          exact copy_arr_some ω h0 false ts IHts f h h1 xs 0 hext hden (by omega) (fun hd => by cases hd) hf1 hc1

theorem copy_map_some (ω : Oracle) (h0 : H) (d : Bool) (ps : List (Item × Item))
    (IHps : ∀ (f : Nat) (h : H) (res : Nat) (rs : List (Ref × Ref)) (d : Bool) (ps0 : List (Item × Item)) (rs0 : List (Ref × Ref)) (al : Nat),
      Ext h0 h → h0.get res = none → DenPairs ps h0 rs → needP ps ≤ f →
      h.get res = some ⟨.map d rs0 al, 1⟩ → OwnPairs ps0 h rs0 (res + 1) h.cells.length →
      (d = true → rs0.length + ps.length ≤ al) → ContPost (MapC d (ps0 ++ ps) res) res h (copyPairs ω f h res rs))
    (f : Nat) (h h1 : H) (rs : List (Ref × Ref)) (al : Nat) (hext : Ext h0 h) (hden : DenPairs ps h0 rs) (hfps : needP ps ≤ f)
    (hal : d = true → ps.length ≤ al) (hf1 : h1.fault = h.fault) (hc1 : h1.cells = h.cells ++ [some ⟨.map d [] al, 1⟩]) :
    ContPost (MapC d ps h.cells.length) h.cells.length h (copyPairs ω f h1 h.cells.length rs) := by
  have hl1 : h1.cells.length = h.cells.length + 1 := by rw [hc1]; simp
  have ih := IHps f h1 h.cells.length rs d [] [] al (ext_snoc hext hc1) (ext_fresh hext) hden hfps (get_snoc_same hc1)
    (by simp only [OwnPairs]; omega) (fun hd => by have := hal hd; simp only [List.length_nil]; omega)
  rw [List.nil_append] at ih
  exact ih.rebase hf1 (by omega) (fun x hx => get_snoc_other hc1 x (by omega))

theorem copy_map_spec (ω : Oracle) (h0 : H) (d : Bool) (ps : List (Item × Item))
    (IHps : ∀ (f : Nat) (h : H) (res : Nat) (rs : List (Ref × Ref)) (d : Bool) (ps0 : List (Item × Item)) (rs0 : List (Ref × Ref)) (al : Nat),
      Ext h0 h → h0.get res = none → DenPairs ps h0 rs → needP ps ≤ f →
      h.get res = some ⟨.map d rs0 al, 1⟩ → OwnPairs ps0 h rs0 (res + 1) h.cells.length →
      (d = true → rs0.length + ps.length ≤ al) → ContPost (MapC d (ps0 ++ ps) res) res h (copyPairs ω f h res rs))
    (f : Nat) (h : H) (x : Ref) (hext : Ext h0 h) (rs : List (Ref × Ref)) (al rc : Nat)
    (hg0 : h0.get x = some ⟨.map d rs al, rc⟩) (hden : DenPairs ps h0 rs) (hf : 1 + needP ps ≤ f) :
    ContPost (MapC d ps h.cells.length) h.cells.length h (copy ω f h x) := by
  cases f with
  | zero => omega
  | succ f =>
    have hg := hext _ _ hg0
    have hlen := denPairs_length ps rs hden
    unfold copy; rw [hg]
    simp only
    cases d with
    | true =>
      simp only [if_true]
      have hn := newMulti_post ω h 16 rs.length (.map true [] rs.length)
      cases hnn : newMulti ω h 16 rs.length (.map true [] rs.length) with
      | mk o h1 =>
        rw [hnn] at hn
        cases o with
        | none => exact contPost_new_none hn
        | some res =>
          obtain ⟨hf1, he, hc1⟩ := hn
          simp only at hf1 he hc1 ⊢
          subst he
          exact copy_map_some ω h0 true ps IHps f h h1 rs rs.length hext hden (by omega) (fun _ => by omega) hf1 hc1
    | false =>
      simp only [Bool.false_eq_true, if_false]
      have hn := new1_post ω h (.map false [] 0)
      cases hnn : new1 ω h (.map false [] 0) with
      | mk o h1 =>
        rw [hnn] at hn
        cases o with
        | none => exact contPost_new_none hn
        | some res =>
          obtain ⟨hf1, he, hc1⟩ := hn
          simp only at hf1 he hc1 ⊢
          subst he
          exact copy_map_some ω h0 false ps IHps f h h1 rs 0 hext hden (by omega) (fun hd => by cases hd) hf1 hc1

theorem copy_tag_spec (ω : Oracle) (h0 : H) (n : Nat) (t : Item)
    (IHt : ∀ (f : Nat) (h : H) (x : Ref), Ext h0 h → Den t h0 x → need t ≤ f → CopyPost t h (copy ω f h x))
    (f : Nat) (h : H) (x : Ref) (hext : Ext h0 h) (y : Ref) (rc : Nat)
    (hg0 : h0.get x = some ⟨.tag n (some y), rc⟩) (hden : Den t h0 y) (hf : 1 + need t ≤ f) :
    CopyPost (.tag n t) h (copy ω f h x) := by
  cases f with
  | zero => omega
  | succ f =>
    have hg := hext _ _ hg0
    unfold copy; rw [hg]
    simp only
    have hx := IHt f h y hext hden (by omega)
    cases hn : copy ω f h y with
    | mk o h1 =>
      rw [hn] at hx
      obtain ⟨hf1, hl1, hold, hpost⟩ := hx
      cases o with
      | none => exact ⟨hf1, hl1, hold, hpost⟩
      | some xc =>
        simp only at hf1 hl1 hold hpost ⊢
        have hb := own_lt t xc _ _ hpost
        obtain ⟨nd, hge⟩ := own_root hpost
        have hrel := buildTag_release ω n hge
        cases hbt : buildTag ω h1 n xc with
        | mk o2 h2 =>
          rw [hbt] at hrel
          simp only at hrel ⊢
          rcases hrel with ⟨ho2, hc2, hf2⟩ | ⟨ho2, hf4, hl4, hg4, hold4⟩
          · subst ho2
            simp only
            have hl2 : h2.cells.length = h1.cells.length := by rw [hc2]
            have hX2 : Own t h2 xc h.cells.length h2.cells.length := by
              rw [hl2]; exact own_congr t xc _ _ (fun r _ _ => get_congr hc2 r) hpost
            have F := hdecref_own hX2 (Nat.le_refl _)
            exact CopyPost.fail F (hf2.trans hf1) (by omega) (fun x hx => by rw [get_congr hc2]; exact hold x hx)
          · subst ho2
            simp only
            refine ⟨hf4.trans hf1, by simp only [hl4]; omega, fun x hx => by rw [hold4 x (by omega)]; exact hold x hx, ?_⟩
            show Own (.tag n t) (h2.decref xc) h1.cells.length h.cells.length (h2.decref xc).cells.length
            rw [hl4]
            simp only [Own]
            exact ⟨xc, h.cells.length, h1.cells.length, hg4, Or.inr ⟨rfl, rfl, rfl⟩,
              own_congr t xc _ _ (fun r _ hr => hold4 r (by omega)) hpost⟩

theorem copyPost_of_cont {S : H → Prop} {T : Item} {h : H} {r : Option Ref × H} (hp : ContPost S h.cells.length h r)
    (hown : ∀ h' : H, S h' → Own T h' h.cells.length h.cells.length h'.cells.length) : CopyPost T h r := by
  obtain ⟨o, h1⟩ := r
  obtain ⟨a, b, c, d⟩ := hp
  refine ⟨a, b, c, ?_⟩
  cases o with
  | none => exact d
  | some y =>
    simp only at d ⊢
    obtain ⟨e, hs⟩ := d
    subst e
    exact hown h1 hs

/-! ### the specification -/

mutual
theorem copy_spec_aux (ω : Oracle) (h0 : H) : ∀ (t : Item) (f : Nat) (h : H) (x : Ref), Ext h0 h → Den t h0 x → need t ≤ f →
    CopyPost t h (copy ω f h x)
  | .uint w v, f, h, x, hext, hd, hf => by
    simp only [Den] at hd; obtain ⟨rc, hg0⟩ := hd
    simp only [need] at hf
    cases f with
    | zero => omega
    | succ f =>
      rw [copy_int (hext _ _ hg0)]
      exact copyPost_of_new (new1_post ω h _) (fun h' y hy => by simp only [Own]; exact ⟨trivial, trivial, hy⟩)
  | .negint w v, f, h, x, hext, hd, hf => by
    simp only [Den] at hd; obtain ⟨rc, hg0⟩ := hd
    simp only [need] at hf
    cases f with
    | zero => omega
    | succ f =>
      rw [copy_int (hext _ _ hg0)]
      exact copyPost_of_new (new1_post ω h _) (fun h' y hy => by simp only [Own]; exact ⟨trivial, trivial, hy⟩)
  | .bytes b, f, h, x, hext, hd, hf => by
    simp only [Den] at hd; obtain ⟨rc, hg0⟩ := hd
    simp only [need] at hf
    cases f with
    | zero => omega
    | succ f =>
      rw [copy_str (hext _ _ hg0)]
      exact copyPost_of_new (new2_post ω h _) (fun h' y hy => by simp only [Own]; exact ⟨trivial, trivial, hy⟩)
  | .text b, f, h, x, hext, hd, hf => by
    simp only [Den] at hd; obtain ⟨rc, hg0⟩ := hd
    simp only [need] at hf
    cases f with
    | zero => omega
    | succ f =>
      rw [copy_str (hext _ _ hg0)]
      exact copyPost_of_new (new2_post ω h _) (fun h' y hy => by simp only [Own]; exact ⟨trivial, trivial, hy⟩)
  | .simple v, f, h, x, hext, hd, hf => by
    simp only [Den] at hd; obtain ⟨rc, hg0⟩ := hd
    simp only [need] at hf
    cases f with
    | zero => omega
    | succ f =>
      rw [copy_ctrl (hext _ _ hg0)]
      exact copyPost_of_new (new1_post ω h _) (fun h' y hy => by simp only [Own]; exact ⟨trivial, trivial, hy⟩)
  | .half v, f, h, x, hext, hd, hf => by
    simp only [Den] at hd; obtain ⟨rc, hg0⟩ := hd
    simp only [need] at hf
    cases f with
    | zero => omega
    | succ f =>
      rw [copy_half (hext _ _ hg0)]
      exact copyPost_of_new (new1_post ω h _) (fun h' y hy => by simp only [Own]; exact ⟨trivial, trivial, hy⟩)
  | .single v, f, h, x, hext, hd, hf => by
    simp only [Den] at hd; obtain ⟨rc, hg0⟩ := hd
    simp only [need] at hf
    cases f with
    | zero => omega
    | succ f =>
      rw [copy_single (hext _ _ hg0)]
      exact copyPost_of_new (new1_post ω h _) (fun h' y hy => by simp only [Own]; exact ⟨trivial, trivial, hy⟩)
  | .double v, f, h, x, hext, hd, hf => by
    simp only [Den] at hd; obtain ⟨rc, hg0⟩ := hd
    simp only [need] at hf
    cases f with
    | zero => omega
    | succ f =>
      rw [copy_double (hext _ _ hg0)]
      exact copyPost_of_new (new1_post ω h _) (fun h' y hy => by simp only [Own]; exact ⟨trivial, trivial, hy⟩)
  | .bytesI cs, f, h, x, hext, hd, hf => by
    simp only [Den] at hd; obtain ⟨rs, cap, rc, hg0, hden⟩ := hd
    simp only [need] at hf
    refine copyPost_of_cont (copy_strI_spec ω h0 false cs f h x hext rs cap rc hg0 hden hf) (fun h' hs => ?_)
    obtain ⟨rs', cap', hg', ho'⟩ := hs
    simp only [Own]
    exact ⟨rs', cap', _, _, hg', Or.inl ⟨rfl, rfl, rfl⟩, ho'⟩
  | .textI cs, f, h, x, hext, hd, hf => by
    simp only [Den] at hd; obtain ⟨rs, cap, rc, hg0, hden⟩ := hd
    simp only [need] at hf
    refine copyPost_of_cont (copy_strI_spec ω h0 true cs f h x hext rs cap rc hg0 hden hf) (fun h' hs => ?_)
    obtain ⟨rs', cap', hg', ho'⟩ := hs
    simp only [Own]
    exact ⟨rs', cap', _, _, hg', Or.inl ⟨rfl, rfl, rfl⟩, ho'⟩
  | .array ts, f, h, x, hext, hd, hf => by
    simp only [Den] at hd; obtain ⟨xs, al, rc, hg0, hden⟩ := hd
    simp only [need] at hf
    refine copyPost_of_cont (copy_arr_spec ω h0 true ts (copyItems_spec_aux ω h0 ts) f h x hext xs al rc hg0 hden hf) (fun h' hs => ?_)
    obtain ⟨xs', al', hg', ho'⟩ := hs
    simp only [Own]
    exact ⟨xs', al', _, _, hg', Or.inl ⟨rfl, rfl, rfl⟩, ho'⟩
  | .arrayI ts, f, h, x, hext, hd, hf => by
    simp only [Den] at hd; obtain ⟨xs, al, rc, hg0, hden⟩ := hd
    simp only [need] at hf
    refine copyPost_of_cont (copy_arr_spec ω h0 false ts (copyItems_spec_aux ω h0 ts) f h x hext xs al rc hg0 hden hf) (fun h' hs => ?_)
    obtain ⟨xs', al', hg', ho'⟩ := hs
    simp only [Own]
    exact ⟨xs', al', _, _, hg', Or.inl ⟨rfl, rfl, rfl⟩, ho'⟩
  | .map ps, f, h, x, hext, hd, hf => by
    simp only [Den] at hd; obtain ⟨rs, al, rc, hg0, hden⟩ := hd
    simp only [need] at hf
    refine copyPost_of_cont (copy_map_spec ω h0 true ps (copyPairs_spec_aux ω h0 ps) f h x hext rs al rc hg0 hden hf) (fun h' hs => ?_)
    obtain ⟨rs', al', hg', ho'⟩ := hs
    simp only [Own]
    exact ⟨rs', al', _, _, hg', Or.inl ⟨rfl, rfl, rfl⟩, ho'⟩
  | .mapI ps, f, h, x, hext, hd, hf => by
    simp only [Den] at hd; obtain ⟨rs, al, rc, hg0, hden⟩ := hd
    simp only [need] at hf
    refine copyPost_of_cont (copy_map_spec ω h0 false ps (copyPairs_spec_aux ω h0 ps) f h x hext rs al rc hg0 hden hf) (fun h' hs => ?_)
    obtain ⟨rs', al', hg', ho'⟩ := hs
    simp only [Own]
    exact ⟨rs', al', _, _, hg', Or.inl ⟨rfl, rfl, rfl⟩, ho'⟩
  | .tag n t, f, h, x, hext, hd, hf => by
    simp only [Den] at hd; obtain ⟨y, rc, hg0, hden⟩ := hd
    simp only [need] at hf
    exact copy_tag_spec ω h0 n t (copy_spec_aux ω h0 t) f h x hext y rc hg0 hden hf
theorem copyItems_spec_aux (ω : Oracle) (h0 : H) : ∀ (ts : List Item) (f : Nat) (h : H) (res : Nat) (xs : List Ref) (d : Bool)
    (ts0 : List Item) (items0 : List Ref) (al : Nat),
    Ext h0 h → h0.get res = none → DenList ts h0 xs → needL ts ≤ f →
    h.get res = some ⟨.arr d items0 al, 1⟩ → OwnList ts0 h items0 (res + 1) h.cells.length →
    (d = true → items0.length + ts.length ≤ al) → ContPost (Arr d (ts0 ++ ts) res) res h (copyItems ω f h res xs)
  | [], f, h, res, [], d, ts0, items0, al, _, _, _, hf, hg, ho, _ => by
    simp only [needL] at hf
    cases f with
    | zero => omega
    | succ f =>
      unfold copyItems
      exact ⟨rfl, Nat.le_refl _, fun _ _ => rfl, rfl, items0, al, hg, by rw [List.append_nil]; exact ho⟩
  | [], _, _, _, _ :: _, _, _, _, _, _, _, hd, _, _, _, _ => by simp [DenList] at hd
  | _ :: _, _, _, _, [], _, _, _, _, _, _, hd, _, _, _, _ => by simp [DenList] at hd
  | t :: ts, f, h, res, x :: xs, d, ts0, items0, al, hext, hres0, hd, hf, hg, ho, hal => by
    simp only [DenList] at hd
    exact copyItems_step ω h0 t ts (copy_spec_aux ω h0 t) (copyItems_spec_aux ω h0 ts) f h res x xs d ts0 items0 al hext hres0
      hd.1 hd.2 hf hg ho hal
theorem copyPairs_spec_aux (ω : Oracle) (h0 : H) : ∀ (ps : List (Item × Item)) (f : Nat) (h : H) (res : Nat) (rs : List (Ref × Ref)) (d : Bool)
    (ps0 : List (Item × Item)) (rs0 : List (Ref × Ref)) (al : Nat),
    Ext h0 h → h0.get res = none → DenPairs ps h0 rs → needP ps ≤ f →
    h.get res = some ⟨.map d rs0 al, 1⟩ → OwnPairs ps0 h rs0 (res + 1) h.cells.length →
    (d = true → rs0.length + ps.length ≤ al) → ContPost (MapC d (ps0 ++ ps) res) res h (copyPairs ω f h res rs)
  | [], f, h, res, [], d, ps0, rs0, al, _, _, _, hf, hg, ho, _ => by
    simp only [needP] at hf
    cases f with
    | zero => omega
    | succ f =>
      unfold copyPairs
      exact ⟨rfl, Nat.le_refl _, fun _ _ => rfl, rfl, rs0, al, hg, by rw [List.append_nil]; exact ho⟩
  | [], _, _, _, _ :: _, _, _, _, _, _, _, hd, _, _, _, _ => by simp [DenPairs] at hd
  | _ :: _, _, _, _, [], _, _, _, _, _, _, hd, _, _, _, _ => by simp [DenPairs] at hd
  | (k, v) :: ps, f, h, res, (a, b) :: rs, d, ps0, rs0, al, hext, hres0, hd, hf, hg, ho, hal => by
    simp only [DenPairs] at hd
    exact copyPairs_step ω h0 k v ps (copy_spec_aux ω h0 k) (copy_spec_aux ω h0 v) (copyPairs_spec_aux ω h0 ps) f h res a b rs d ps0 rs0 al
      hext hres0 hd.1 hd.2.1 hd.2.2 hf hg ho hal
end

/-- **`cbor_copy` builds an exclusively owned, equal tree — or releases everything.**  `h0` is the heap in which the source
was described; `h` is any later heap in which all live cells of `h0` are still as they were. -/
theorem copy_spec (ω : Oracle) (h0 : H) :
    ∀ (t : Item) (f : Nat) (h : H) (x : Ref), (∀ r c, h0.get r = some c → h.get r = some c) → Den t h0 x → need t ≤ f →
      CopyPost t h (copy ω f h x) :=
  copy_spec_aux ω h0

theorem copyItems_spec (ω : Oracle) (h0 : H) : ∀ (ts : List Item) (f : Nat) (h : H) (res : Nat) (xs : List Ref) (d : Bool)
    (ts0 : List Item) (items0 : List Ref) (al : Nat),
    (∀ r c, h0.get r = some c → h.get r = some c) → h0.get res = none → DenList ts h0 xs → needL ts ≤ f →
    h.get res = some ⟨.arr d items0 al, 1⟩ → OwnList ts0 h items0 (res + 1) h.cells.length →
    (d = true → items0.length + ts.length ≤ al) → ContPost (Arr d (ts0 ++ ts) res) res h (copyItems ω f h res xs) :=
  copyItems_spec_aux ω h0

theorem copyPairs_spec (ω : Oracle) (h0 : H) : ∀ (ps : List (Item × Item)) (f : Nat) (h : H) (res : Nat) (rs : List (Ref × Ref)) (d : Bool)
    (ps0 : List (Item × Item)) (rs0 : List (Ref × Ref)) (al : Nat),
    (∀ r c, h0.get r = some c → h.get r = some c) → h0.get res = none → DenPairs ps h0 rs → needP ps ≤ f →
    h.get res = some ⟨.map d rs0 al, 1⟩ → OwnPairs ps0 h rs0 (res + 1) h.cells.length →
    (d = true → rs0.length + ps.length ≤ al) → ContPost (MapC d (ps0 ++ ps) res) res h (copyPairs ω f h res rs) :=
  copyPairs_spec_aux ω h0

theorem copy_spec_top (ω : Oracle) (t : Item) (f : Nat) (h : H) (x : Ref) (hd : Den t h x) (hf : need t ≤ f) :
    CopyPost t h (copy ω f h x) :=
  copy_spec ω h t f h x (fun _ _ hg => hg) hd hf

end Heap

import Cbor.Lemmas.Positive
/-!
# Denotation of heap items, and exclusively owned trees

* `Den t h x` — item `x` of heap `h` denotes the tree `t` (sub-items may be shared between containers).
* `Own t h y lo hi` — item `y` denotes `t`, **and** the tree is laid out in exactly the cells `lo … hi-1` of the heap:
  every one of those cells is a node of the tree, every node has reference count 1, no node is used twice.  This is
  what `cbor_copy` and `cbor_load` hand out, and what a failed operation must have released again.
* `decref_own` — releasing the root of an owned tree releases exactly the cells `lo … hi-1` and touches nothing else.
-/
namespace Heap
open Spec (Item)

/-- the chunks of an indefinite string: definite strings of the same kind -/
def DenChunks (t : Bool) : List (List UInt8) → H → List Ref → Prop
  | [], _, [] => True
  | b :: bs, h, c :: cs => (∃ rc, h.get c = some ⟨.str t b, rc⟩) ∧ DenChunks t bs h cs
  | _, _, _ => False

mutual
def Den : Item → H → Ref → Prop
  | .uint w v, h, x => ∃ rc, h.get x = some ⟨.int false w v, rc⟩
  | .negint w v, h, x => ∃ rc, h.get x = some ⟨.int true w v, rc⟩
  | .bytes b, h, x => ∃ rc, h.get x = some ⟨.str false b, rc⟩
  | .text b, h, x => ∃ rc, h.get x = some ⟨.str true b, rc⟩
  | .bytesI cs, h, x => ∃ rs cap rc, h.get x = some ⟨.strI false rs cap, rc⟩ ∧ DenChunks false cs h rs
  | .textI cs, h, x => ∃ rs cap rc, h.get x = some ⟨.strI true rs cap, rc⟩ ∧ DenChunks true cs h rs
  | .array ts, h, x => ∃ xs al rc, h.get x = some ⟨.arr true xs al, rc⟩ ∧ DenList ts h xs
  | .arrayI ts, h, x => ∃ xs al rc, h.get x = some ⟨.arr false xs al, rc⟩ ∧ DenList ts h xs
  | .map ps, h, x => ∃ rs al rc, h.get x = some ⟨.map true rs al, rc⟩ ∧ DenPairs ps h rs
  | .mapI ps, h, x => ∃ rs al rc, h.get x = some ⟨.map false rs al, rc⟩ ∧ DenPairs ps h rs
  | .tag n t, h, x => ∃ y rc, h.get x = some ⟨.tag n (some y), rc⟩ ∧ Den t h y
  | .simple v, h, x => ∃ rc, h.get x = some ⟨.ctrl v, rc⟩
  | .half f, h, x => ∃ rc, h.get x = some ⟨.half f, rc⟩
  | .single b, h, x => ∃ rc, h.get x = some ⟨.single b, rc⟩
  | .double b, h, x => ∃ rc, h.get x = some ⟨.double b, rc⟩
def DenList : List Item → H → List Ref → Prop
  | [], _, [] => True
  | t :: ts, h, x :: xs => Den t h x ∧ DenList ts h xs
  | _, _, _ => False
def DenPairs : List (Item × Item) → H → List (Ref × Ref) → Prop
  | [], _, [] => True
  | (k, v) :: ps, h, (a, b) :: rs => Den k h a ∧ Den v h b ∧ DenPairs ps h rs
  | _, _, _ => False
end

/-- where a container's own cell sits relative to the cells `lo' … hi'-1` of its members: first (`cbor_copy`
creates the container, then its members) or last (`cbor_load` finishes the members, then … ; tags) -/
def Around (y lo hi lo' hi' : Nat) : Prop :=
  (y = lo ∧ lo' = lo + 1 ∧ hi' = hi) ∨ (lo' = lo ∧ hi' = y ∧ hi = y + 1)

def OwnChunks (t : Bool) : List (List UInt8) → H → List Ref → Nat → Nat → Prop
  | [], _, [], lo, hi => lo = hi
  | b :: bs, h, c :: cs, lo, hi => lo = c ∧ h.get c = some ⟨.str t b, 1⟩ ∧ OwnChunks t bs h cs (lo + 1) hi
  | _, _, _, _, _ => False

mutual
def Own : Item → H → Nat → Nat → Nat → Prop
  | .uint w v, h, y, lo, hi => y = lo ∧ hi = lo + 1 ∧ h.get y = some ⟨.int false w v, 1⟩
  | .negint w v, h, y, lo, hi => y = lo ∧ hi = lo + 1 ∧ h.get y = some ⟨.int true w v, 1⟩
  | .bytes b, h, y, lo, hi => y = lo ∧ hi = lo + 1 ∧ h.get y = some ⟨.str false b, 1⟩
  | .text b, h, y, lo, hi => y = lo ∧ hi = lo + 1 ∧ h.get y = some ⟨.str true b, 1⟩
  | .bytesI cs, h, y, lo, hi => ∃ rs cap lo' hi', h.get y = some ⟨.strI false rs cap, 1⟩ ∧ Around y lo hi lo' hi' ∧ OwnChunks false cs h rs lo' hi'
  | .textI cs, h, y, lo, hi => ∃ rs cap lo' hi', h.get y = some ⟨.strI true rs cap, 1⟩ ∧ Around y lo hi lo' hi' ∧ OwnChunks true cs h rs lo' hi'
  | .array ts, h, y, lo, hi => ∃ xs al lo' hi', h.get y = some ⟨.arr true xs al, 1⟩ ∧ Around y lo hi lo' hi' ∧ OwnList ts h xs lo' hi'
  | .arrayI ts, h, y, lo, hi => ∃ xs al lo' hi', h.get y = some ⟨.arr false xs al, 1⟩ ∧ Around y lo hi lo' hi' ∧ OwnList ts h xs lo' hi'
  | .map ps, h, y, lo, hi => ∃ rs al lo' hi', h.get y = some ⟨.map true rs al, 1⟩ ∧ Around y lo hi lo' hi' ∧ OwnPairs ps h rs lo' hi'
  | .mapI ps, h, y, lo, hi => ∃ rs al lo' hi', h.get y = some ⟨.map false rs al, 1⟩ ∧ Around y lo hi lo' hi' ∧ OwnPairs ps h rs lo' hi'
  | .tag n t, h, y, lo, hi => ∃ x lo' hi', h.get y = some ⟨.tag n (some x), 1⟩ ∧ Around y lo hi lo' hi' ∧ Own t h x lo' hi'
  | .simple v, h, y, lo, hi => y = lo ∧ hi = lo + 1 ∧ h.get y = some ⟨.ctrl v, 1⟩
  | .half f, h, y, lo, hi => y = lo ∧ hi = lo + 1 ∧ h.get y = some ⟨.half f, 1⟩
  | .single b, h, y, lo, hi => y = lo ∧ hi = lo + 1 ∧ h.get y = some ⟨.single b, 1⟩
  | .double b, h, y, lo, hi => y = lo ∧ hi = lo + 1 ∧ h.get y = some ⟨.double b, 1⟩
def OwnList : List Item → H → List Ref → Nat → Nat → Prop
  | [], _, [], lo, hi => lo = hi
  | t :: ts, h, x :: xs, lo, hi => ∃ mid, Own t h x lo mid ∧ OwnList ts h xs mid hi
  | _, _, _, _, _ => False
def OwnPairs : List (Item × Item) → H → List (Ref × Ref) → Nat → Nat → Prop
  | [], _, [], lo, hi => lo = hi
  | (k, v) :: ps, h, (a, b) :: rs, lo, hi => ∃ m1 m2, Own k h a lo m1 ∧ Own v h b m1 m2 ∧ OwnPairs ps h rs m2 hi
  | _, _, _, _, _ => False
end

end Heap

namespace Heap
open Spec (Item)

theorem ownChunks_le (t : Bool) {h : H} : ∀ (cs : List (List UInt8)) (rs : List Ref) (lo hi : Nat), OwnChunks t cs h rs lo hi → lo ≤ hi
  | [], [], lo, hi, ho => by simp only [OwnChunks] at ho; omega
  | [], _ :: _, _, _, ho => by simp [OwnChunks] at ho
  | _ :: _, [], _, _, ho => by simp [OwnChunks] at ho
  | b :: bs, c :: cs, lo, hi, ho => by
    simp only [OwnChunks] at ho
    have := ownChunks_le t bs cs (lo + 1) hi ho.2.2
    omega

mutual
theorem own_lt {h : H} : ∀ (t : Item) (y lo hi : Nat), Own t h y lo hi → lo < hi ∧ lo ≤ y ∧ y < hi
  | .uint _ _, y, lo, hi, ho | .negint _ _, y, lo, hi, ho | .bytes _, y, lo, hi, ho | .text _, y, lo, hi, ho
  | .simple _, y, lo, hi, ho | .half _, y, lo, hi, ho | .single _, y, lo, hi, ho | .double _, y, lo, hi, ho => by
    simp only [Own] at ho; obtain ⟨h1, h2, _⟩ := ho; omega
  | .bytesI cs, y, lo, hi, ho | .textI cs, y, lo, hi, ho => by
    simp only [Own] at ho
    obtain ⟨rs, cap, lo', hi', _, ha, hc⟩ := ho
    have := ownChunks_le _ cs rs lo' hi' hc
    unfold Around at ha; omega
  | .array ts, y, lo, hi, ho | .arrayI ts, y, lo, hi, ho => by
    simp only [Own] at ho
    obtain ⟨xs, al, lo', hi', _, ha, hc⟩ := ho
    have := ownList_le ts xs lo' hi' hc
    unfold Around at ha; omega
  | .map ps, y, lo, hi, ho | .mapI ps, y, lo, hi, ho => by
    simp only [Own] at ho
    obtain ⟨rs, al, lo', hi', _, ha, hc⟩ := ho
    have := ownPairs_le ps rs lo' hi' hc
    unfold Around at ha; omega
  | .tag n t, y, lo, hi, ho => by
    simp only [Own] at ho
    obtain ⟨x, lo', hi', _, ha, hc⟩ := ho
    have := own_lt t x lo' hi' hc
    unfold Around at ha; omega
theorem ownList_le {h : H} : ∀ (ts : List Item) (xs : List Ref) (lo hi : Nat), OwnList ts h xs lo hi → lo ≤ hi
  | [], [], lo, hi, ho => by simp only [OwnList] at ho; omega
  | [], _ :: _, _, _, ho => by simp [OwnList] at ho
  | _ :: _, [], _, _, ho => by simp [OwnList] at ho
  | t :: ts, x :: xs, lo, hi, ho => by
    simp only [OwnList] at ho
    obtain ⟨mid, h1, h2⟩ := ho
    have := own_lt t x lo mid h1
    have := ownList_le ts xs mid hi h2
    omega
theorem ownPairs_le {h : H} : ∀ (ps : List (Item × Item)) (rs : List (Ref × Ref)) (lo hi : Nat), OwnPairs ps h rs lo hi → lo ≤ hi
  | [], [], lo, hi, ho => by simp only [OwnPairs] at ho; omega
  | [], _ :: _, _, _, ho => by simp [OwnPairs] at ho
  | _ :: _, [], _, _, ho => by simp [OwnPairs] at ho
  | (k, v) :: ps, (a, b) :: rs, lo, hi, ho => by
    simp only [OwnPairs] at ho
    obtain ⟨m1, m2, h1, h2, h3⟩ := ho
    have := own_lt k a lo m1 h1
    have := own_lt v b m1 m2 h2
    have := ownPairs_le ps rs m2 hi h3
    omega
end

end Heap

namespace Heap
open Spec (Item)

/-! ### an owned tree only depends on its own cells -/

theorem ownChunks_congr (t : Bool) {h h' : H} : ∀ (cs : List (List UInt8)) (rs : List Ref) (lo hi : Nat),
    (∀ r, lo ≤ r → r < hi → h'.get r = h.get r) → OwnChunks t cs h rs lo hi → OwnChunks t cs h' rs lo hi
  | [], [], _, _, _, ho => by simpa only [OwnChunks] using ho
  | [], _ :: _, _, _, _, ho => by simp [OwnChunks] at ho
  | _ :: _, [], _, _, _, ho => by simp [OwnChunks] at ho
  | b :: bs, c :: cs, lo, hi, e, ho => by
    simp only [OwnChunks] at ho ⊢
    obtain ⟨h1, h2, h3⟩ := ho
    have hle := ownChunks_le t bs cs (lo + 1) hi h3
    refine ⟨h1, ?_, ownChunks_congr t bs cs (lo + 1) hi (fun r hr1 hr2 => e r (by omega) hr2) h3⟩
    rw [e c (by omega) (by omega)]; exact h2

mutual
theorem own_congr {h h' : H} : ∀ (t : Item) (y lo hi : Nat),
    (∀ r, lo ≤ r → r < hi → h'.get r = h.get r) → Own t h y lo hi → Own t h' y lo hi
  | .uint _ _, y, lo, hi, e, ho | .negint _ _, y, lo, hi, e, ho | .bytes _, y, lo, hi, e, ho | .text _, y, lo, hi, e, ho
  | .simple _, y, lo, hi, e, ho | .half _, y, lo, hi, e, ho | .single _, y, lo, hi, e, ho | .double _, y, lo, hi, e, ho => by
    simp only [Own] at ho ⊢
    obtain ⟨h1, h2, h3⟩ := ho
    exact ⟨h1, h2, by rw [e y (by omega) (by omega)]; exact h3⟩
  | .bytesI cs, y, lo, hi, e, ho | .textI cs, y, lo, hi, e, ho => by
    have hb := own_lt _ y lo hi ho
    simp only [Own] at ho ⊢
    obtain ⟨rs, cap, lo', hi', hg, ha, hc⟩ := ho
    refine ⟨rs, cap, lo', hi', by rw [e y hb.2.1 hb.2.2]; exact hg, ha, ownChunks_congr _ cs rs lo' hi' (fun r h1 h2 => e r ?_ ?_) hc⟩
    all_goals (unfold Around at ha; omega)
  | .array ts, y, lo, hi, e, ho | .arrayI ts, y, lo, hi, e, ho => by
    have hb := own_lt _ y lo hi ho
    simp only [Own] at ho ⊢
    obtain ⟨xs, al, lo', hi', hg, ha, hc⟩ := ho
    refine ⟨xs, al, lo', hi', by rw [e y hb.2.1 hb.2.2]; exact hg, ha, ownList_congr ts xs lo' hi' (fun r h1 h2 => e r ?_ ?_) hc⟩
    all_goals (unfold Around at ha; omega)
  | .map ps, y, lo, hi, e, ho | .mapI ps, y, lo, hi, e, ho => by
    have hb := own_lt _ y lo hi ho
    simp only [Own] at ho ⊢
    obtain ⟨rs, al, lo', hi', hg, ha, hc⟩ := ho
    refine ⟨rs, al, lo', hi', by rw [e y hb.2.1 hb.2.2]; exact hg, ha, ownPairs_congr ps rs lo' hi' (fun r h1 h2 => e r ?_ ?_) hc⟩
    all_goals (unfold Around at ha; omega)
  | .tag n t, y, lo, hi, e, ho => by
    have hb := own_lt _ y lo hi ho
    simp only [Own] at ho ⊢
    obtain ⟨x, lo', hi', hg, ha, hc⟩ := ho
    refine ⟨x, lo', hi', by rw [e y hb.2.1 hb.2.2]; exact hg, ha, own_congr t x lo' hi' (fun r h1 h2 => e r ?_ ?_) hc⟩
    all_goals (unfold Around at ha; omega)
theorem ownList_congr {h h' : H} : ∀ (ts : List Item) (xs : List Ref) (lo hi : Nat),
    (∀ r, lo ≤ r → r < hi → h'.get r = h.get r) → OwnList ts h xs lo hi → OwnList ts h' xs lo hi
  | [], [], _, _, _, ho => by simpa only [OwnList] using ho
  | [], _ :: _, _, _, _, ho => by simp [OwnList] at ho
  | _ :: _, [], _, _, _, ho => by simp [OwnList] at ho
  | t :: ts, x :: xs, lo, hi, e, ho => by
    simp only [OwnList] at ho ⊢
    obtain ⟨mid, h1, h2⟩ := ho
    have b1 := own_lt t x lo mid h1
    have b2 := ownList_le ts xs mid hi h2
    exact ⟨mid, own_congr t x lo mid (fun r hr1 hr2 => e r hr1 (by omega)) h1,
      ownList_congr ts xs mid hi (fun r hr1 hr2 => e r (by omega) hr2) h2⟩
theorem ownPairs_congr {h h' : H} : ∀ (ps : List (Item × Item)) (rs : List (Ref × Ref)) (lo hi : Nat),
    (∀ r, lo ≤ r → r < hi → h'.get r = h.get r) → OwnPairs ps h rs lo hi → OwnPairs ps h' rs lo hi
  | [], [], _, _, _, ho => by simpa only [OwnPairs] using ho
  | [], _ :: _, _, _, _, ho => by simp [OwnPairs] at ho
  | _ :: _, [], _, _, _, ho => by simp [OwnPairs] at ho
  | (k, v) :: ps, (a, b) :: rs, lo, hi, e, ho => by
    simp only [OwnPairs] at ho ⊢
    obtain ⟨m1, m2, h1, h2, h3⟩ := ho
    have b1 := own_lt k a lo m1 h1
    have b2 := own_lt v b m1 m2 h2
    have b3 := ownPairs_le ps rs m2 hi h3
    exact ⟨m1, m2, own_congr k a lo m1 (fun r hr1 hr2 => e r hr1 (by omega)) h1,
      own_congr v b m1 m2 (fun r hr1 hr2 => e r (by omega) (by omega)) h2,
      ownPairs_congr ps rs m2 hi (fun r hr1 hr2 => e r (by omega) hr2) h3⟩
end

/-! ### an owned tree denotes its tree -/

theorem ownChunks_den (t : Bool) {h : H} : ∀ (cs : List (List UInt8)) (rs : List Ref) (lo hi : Nat),
    OwnChunks t cs h rs lo hi → DenChunks t cs h rs
  | [], [], _, _, _ => by simp [DenChunks]
  | [], _ :: _, _, _, ho => by simp [OwnChunks] at ho
  | _ :: _, [], _, _, ho => by simp [OwnChunks] at ho
  | b :: bs, c :: cs, lo, hi, ho => by
    simp only [OwnChunks] at ho
    simp only [DenChunks]
    exact ⟨⟨1, ho.2.1⟩, ownChunks_den t bs cs (lo + 1) hi ho.2.2⟩

mutual
theorem own_den {h : H} : ∀ (t : Item) (y lo hi : Nat), Own t h y lo hi → Den t h y
  | .uint _ _, y, lo, hi, ho | .negint _ _, y, lo, hi, ho | .bytes _, y, lo, hi, ho | .text _, y, lo, hi, ho
  | .simple _, y, lo, hi, ho | .half _, y, lo, hi, ho | .single _, y, lo, hi, ho | .double _, y, lo, hi, ho => by
    simp only [Own] at ho; simp only [Den]; exact ⟨1, ho.2.2⟩
  | .bytesI cs, y, lo, hi, ho | .textI cs, y, lo, hi, ho => by
    simp only [Own] at ho; simp only [Den]
    obtain ⟨rs, cap, lo', hi', hg, _, hc⟩ := ho
    exact ⟨rs, cap, 1, hg, ownChunks_den _ cs rs lo' hi' hc⟩
  | .array ts, y, lo, hi, ho | .arrayI ts, y, lo, hi, ho => by
    simp only [Own] at ho; simp only [Den]
    obtain ⟨xs, al, lo', hi', hg, _, hc⟩ := ho
    exact ⟨xs, al, 1, hg, ownList_den ts xs lo' hi' hc⟩
  | .map ps, y, lo, hi, ho | .mapI ps, y, lo, hi, ho => by
    simp only [Own] at ho; simp only [Den]
    obtain ⟨rs, al, lo', hi', hg, _, hc⟩ := ho
    exact ⟨rs, al, 1, hg, ownPairs_den ps rs lo' hi' hc⟩
  | .tag n t, y, lo, hi, ho => by
    simp only [Own] at ho; simp only [Den]
    obtain ⟨x, lo', hi', hg, _, hc⟩ := ho
    exact ⟨x, 1, hg, own_den t x lo' hi' hc⟩
theorem ownList_den {h : H} : ∀ (ts : List Item) (xs : List Ref) (lo hi : Nat), OwnList ts h xs lo hi → DenList ts h xs
  | [], [], _, _, _ => by simp [DenList]
  | [], _ :: _, _, _, ho => by simp [OwnList] at ho
  | _ :: _, [], _, _, ho => by simp [OwnList] at ho
  | t :: ts, x :: xs, lo, hi, ho => by
    simp only [OwnList] at ho; simp only [DenList]
    obtain ⟨mid, h1, h2⟩ := ho
    exact ⟨own_den t x lo mid h1, ownList_den ts xs mid hi h2⟩
theorem ownPairs_den {h : H} : ∀ (ps : List (Item × Item)) (rs : List (Ref × Ref)) (lo hi : Nat), OwnPairs ps h rs lo hi → DenPairs ps h rs
  | [], [], _, _, _ => by simp [DenPairs]
  | [], _ :: _, _, _, ho => by simp [OwnPairs] at ho
  | _ :: _, [], _, _, ho => by simp [OwnPairs] at ho
  | (k, v) :: ps, (a, b) :: rs, lo, hi, ho => by
    simp only [OwnPairs] at ho; simp only [DenPairs]
    obtain ⟨m1, m2, h1, h2, h3⟩ := ho
    exact ⟨own_den k a lo m1 h1, own_den v b m1 m2 h2, ownPairs_den ps rs m2 hi h3⟩
end

/-! ### denotation only depends on the live cells -/

theorem denChunks_congr (t : Bool) {h h' : H} (e : ∀ r c, h.get r = some c → h'.get r = some c) :
    ∀ (cs : List (List UInt8)) (rs : List Ref), DenChunks t cs h rs → DenChunks t cs h' rs
  | [], [], _ => by simp [DenChunks]
  | [], _ :: _, ho => by simp [DenChunks] at ho
  | _ :: _, [], ho => by simp [DenChunks] at ho
  | b :: bs, c :: cs, ho => by
    simp only [DenChunks] at ho ⊢
    obtain ⟨⟨rc, hg⟩, h2⟩ := ho
    exact ⟨⟨rc, e _ _ hg⟩, denChunks_congr t e bs cs h2⟩

mutual
theorem den_congr {h h' : H} (e : ∀ r c, h.get r = some c → h'.get r = some c) : ∀ (t : Item) (x : Ref), Den t h x → Den t h' x
  | .uint _ _, x, ho | .negint _ _, x, ho | .bytes _, x, ho | .text _, x, ho
  | .simple _, x, ho | .half _, x, ho | .single _, x, ho | .double _, x, ho => by
    simp only [Den] at ho ⊢; obtain ⟨rc, hg⟩ := ho; exact ⟨rc, e _ _ hg⟩
  | .bytesI cs, x, ho | .textI cs, x, ho => by
    simp only [Den] at ho ⊢
    obtain ⟨rs, cap, rc, hg, hc⟩ := ho
    exact ⟨rs, cap, rc, e _ _ hg, denChunks_congr _ e cs rs hc⟩
  | .array ts, x, ho | .arrayI ts, x, ho => by
    simp only [Den] at ho ⊢
    obtain ⟨xs, al, rc, hg, hc⟩ := ho
    exact ⟨xs, al, rc, e _ _ hg, denList_congr e ts xs hc⟩
  | .map ps, x, ho | .mapI ps, x, ho => by
    simp only [Den] at ho ⊢
    obtain ⟨rs, al, rc, hg, hc⟩ := ho
    exact ⟨rs, al, rc, e _ _ hg, denPairs_congr e ps rs hc⟩
  | .tag n t, x, ho => by
    simp only [Den] at ho ⊢
    obtain ⟨y, rc, hg, hc⟩ := ho
    exact ⟨y, rc, e _ _ hg, den_congr e t y hc⟩
theorem denList_congr {h h' : H} (e : ∀ r c, h.get r = some c → h'.get r = some c) : ∀ (ts : List Item) (xs : List Ref), DenList ts h xs → DenList ts h' xs
  | [], [], _ => by simp [DenList]
  | [], _ :: _, ho => by simp [DenList] at ho
  | _ :: _, [], ho => by simp [DenList] at ho
  | t :: ts, x :: xs, ho => by
    simp only [DenList] at ho ⊢
    exact ⟨den_congr e t x ho.1, denList_congr e ts xs ho.2⟩
theorem denPairs_congr {h h' : H} (e : ∀ r c, h.get r = some c → h'.get r = some c) : ∀ (ps : List (Item × Item)) (rs : List (Ref × Ref)), DenPairs ps h rs → DenPairs ps h' rs
  | [], [], _ => by simp [DenPairs]
  | [], _ :: _, ho => by simp [DenPairs] at ho
  | _ :: _, [], ho => by simp [DenPairs] at ho
  | (k, v) :: ps, (a, b) :: rs, ho => by
    simp only [DenPairs] at ho ⊢
    exact ⟨den_congr e k a ho.1, den_congr e v b ho.2.1, denPairs_congr e ps rs ho.2.2⟩
end

end Heap

namespace Heap
open Spec (Item)

/-! ### releasing an owned tree releases exactly its cells -/

theorem get_put_ne (h : H) (y r : Nat) (c : Option Cell) (hne : r ≠ y) : (h.put y c).get r = h.get r :=
  get_put_other h y r c hne


/-- `h'` is `h` with the cells `lo … hi-1` released and nothing else changed -/
def Freed (h h' : H) (lo hi : Nat) : Prop :=
  h'.fault = h.fault ∧ h'.reqs = h.reqs ∧ h'.cells.length = h.cells.length ∧
  (∀ r, lo ≤ r → r < hi → h'.get r = none) ∧ (∀ r, (r < lo ∨ hi ≤ r) → h'.get r = h.get r)

theorem Freed.empty (h : H) (lo : Nat) : Freed h h lo lo :=
  ⟨rfl, rfl, rfl, fun r h1 h2 => by omega, fun _ _ => rfl⟩

theorem Freed.append {h h1 h2 : H} {lo mid hi : Nat} (a : Freed h h1 lo mid) (b : Freed h1 h2 mid hi) (h1' : lo ≤ mid) (h2' : mid ≤ hi) :
    Freed h h2 lo hi := by
  obtain ⟨a1, a2, a3, a4, a5⟩ := a
  obtain ⟨b1, b2, b3, b4, b5⟩ := b
  refine ⟨b1.trans a1, b2.trans a2, b3.trans a3, fun r hr1 hr2 => ?_, fun r hr => ?_⟩
  · by_cases hm : r < mid
    · rw [b5 r (Or.inl hm)]; exact a4 r hr1 hm
    · exact b4 r (by omega) hr2
  · rw [b5 r (by omega)]; exact a5 r (by omega)

/-- releasing the container's own cell and then its members' cells releases the whole interval -/
theorem freed_node {h h2 : H} {y lo hi lo' hi' : Nat} (ha : Around y lo hi lo' hi') (hle : lo' ≤ hi') (hy : y < h.cells.length)
    (hf : Freed (h.put y none) h2 lo' hi') : Freed h h2 lo hi := by
  obtain ⟨b1, b2, b3, b4, b5⟩ := hf
  refine ⟨b1, b2, by rw [b3]; simp, fun r hr1 hr2 => ?_, fun r hr => ?_⟩
  · by_cases e : r = y
    · subst e
      rw [b5 r (by unfold Around at ha; omega)]
      exact get_put_same h r none hy
    · exact b4 r (by unfold Around at ha; omega) (by unfold Around at ha; omega)
  · have e : r ≠ y := by unfold Around at ha; omega
    rw [b5 r (by unfold Around at ha; omega)]
    exact get_put_ne h y r none e

theorem decrefs_ownChunks (t : Bool) : ∀ (cs : List (List UInt8)) (f : Nat) (h : H) (rs : List Ref) (lo hi : Nat),
    OwnChunks t cs h rs lo hi → hi - lo ≤ f → Freed h (rs.foldl (decref f) h) lo hi
  | [], _, h, [], lo, hi, ho, _ => by
    simp only [OwnChunks] at ho; subst ho; exact Freed.empty h lo
  | [], _, _, _ :: _, _, _, ho, _ => by simp [OwnChunks] at ho
  | _ :: _, _, _, [], _, _, ho, _ => by simp [OwnChunks] at ho
  | b :: bs, f, h, c :: cs, lo, hi, ho, hf => by
    simp only [OwnChunks] at ho
    obtain ⟨h1, h2, h3⟩ := ho
    subst h1
    have hle := ownChunks_le t bs cs (lo + 1) hi h3
    cases f with
    | zero => omega
    | succ f' =>
      simp only [List.foldl_cons]
      have hd : decref (f' + 1) h lo = h.put lo none := by
        unfold decref; rw [h2]; simp [Node.children]
      rw [hd]
      have hfr : Freed h (h.put lo none) lo (lo + 1) :=
        ⟨rfl, rfl, by simp, fun r hr1 hr2 => by
            have : r = lo := by omega
            subst this; exact get_put_same h r none (get_lt h2),
          fun r hr => get_put_ne h lo r none (by omega)⟩
      have h3' : OwnChunks t bs (h.put lo none) cs (lo + 1) hi :=
        ownChunks_congr t bs cs (lo + 1) hi (fun r hr1 _ => get_put_ne h lo r none (by omega)) h3
      exact hfr.append (decrefs_ownChunks t bs (f' + 1) _ cs (lo + 1) hi h3' (by omega)) (by omega) hle

theorem decref_root {h : H} {y : Ref} {n : Node} (hg : h.get y = some ⟨n, 1⟩) (f : Nat) :
    decref (f + 1) h y = n.children.foldl (decref f) (h.put y none) := by
  unfold decref; rw [hg]; simp

mutual
theorem decref_own : ∀ (t : Item) (f : Nat) (h : H) (y lo hi : Nat), Own t h y lo hi → hi - lo ≤ f → Freed h (decref f h y) lo hi
  | .uint _ _, f, h, y, lo, hi, ho, hf | .negint _ _, f, h, y, lo, hi, ho, hf | .bytes _, f, h, y, lo, hi, ho, hf
  | .text _, f, h, y, lo, hi, ho, hf | .simple _, f, h, y, lo, hi, ho, hf | .half _, f, h, y, lo, hi, ho, hf
  | .single _, f, h, y, lo, hi, ho, hf | .double _, f, h, y, lo, hi, ho, hf => by
    simp only [Own] at ho
    obtain ⟨h1, h2, h3⟩ := ho
    subst h1 h2
    cases f with
    | zero => omega
    | succ f' =>
      rw [decref_root h3 f']
      simp only [Node.children, List.foldl_nil]
      exact ⟨rfl, rfl, by simp, fun r hr1 hr2 => by
            have : r = y := by omega
            subst this; exact get_put_same h r none (get_lt h3),
          fun r hr => get_put_ne h y r none (by omega)⟩
  | .bytesI cs, f, h, y, lo, hi, ho, hf | .textI cs, f, h, y, lo, hi, ho, hf => by
    have hb := own_lt _ y lo hi ho
    simp only [Own] at ho
    obtain ⟨rs, cap, lo', hi', hg, ha, hc⟩ := ho
    have hle := ownChunks_le _ cs rs lo' hi' hc
    cases f with
    | zero => omega
    | succ f' =>
      rw [decref_root hg f']
      simp only [Node.children]
      have hc' := ownChunks_congr _ cs rs lo' hi' (h' := h.put y none)
        (fun r hr1 hr2 => get_put_ne h y r none (by unfold Around at ha; omega)) hc
      exact freed_node ha hle (get_lt hg) (decrefs_ownChunks _ cs f' _ rs lo' hi' hc' (by unfold Around at ha; omega))
  | .array ts, f, h, y, lo, hi, ho, hf | .arrayI ts, f, h, y, lo, hi, ho, hf => by
    have hb := own_lt _ y lo hi ho
    simp only [Own] at ho
    obtain ⟨xs, al, lo', hi', hg, ha, hc⟩ := ho
    have hle := ownList_le ts xs lo' hi' hc
    cases f with
    | zero => omega
    | succ f' =>
      rw [decref_root hg f']
      simp only [Node.children]
      have hc' := ownList_congr ts xs lo' hi' (h' := h.put y none)
        (fun r hr1 hr2 => get_put_ne h y r none (by unfold Around at ha; omega)) hc
      exact freed_node ha hle (get_lt hg) (decrefs_ownList ts f' _ xs lo' hi' hc' (by unfold Around at ha; omega))
  | .map ps, f, h, y, lo, hi, ho, hf | .mapI ps, f, h, y, lo, hi, ho, hf => by
    have hb := own_lt _ y lo hi ho
    simp only [Own] at ho
    obtain ⟨rs, al, lo', hi', hg, ha, hc⟩ := ho
    have hle := ownPairs_le ps rs lo' hi' hc
    cases f with
    | zero => omega
    | succ f' =>
      rw [decref_root hg f']
      simp only [Node.children]
      have hc' := ownPairs_congr ps rs lo' hi' (h' := h.put y none)
        (fun r hr1 hr2 => get_put_ne h y r none (by unfold Around at ha; omega)) hc
      exact freed_node ha hle (get_lt hg) (decrefs_ownPairs ps f' _ rs lo' hi' hc' (by unfold Around at ha; omega))
  | .tag n t, f, h, y, lo, hi, ho, hf => by
    have hb := own_lt _ y lo hi ho
    simp only [Own] at ho
    obtain ⟨x, lo', hi', hg, ha, hc⟩ := ho
    have hle := own_lt t x lo' hi' hc
    cases f with
    | zero => omega
    | succ f' =>
      rw [decref_root hg f']
      simp only [Node.children, List.foldl_cons, List.foldl_nil]
      have hc' := own_congr t x lo' hi' (h' := h.put y none)
        (fun r hr1 hr2 => get_put_ne h y r none (by unfold Around at ha; omega)) hc
      exact freed_node ha (by omega) (get_lt hg) (decref_own t f' _ x lo' hi' hc' (by unfold Around at ha; omega))
theorem decrefs_ownList : ∀ (ts : List Item) (f : Nat) (h : H) (xs : List Ref) (lo hi : Nat),
    OwnList ts h xs lo hi → hi - lo ≤ f → Freed h (xs.foldl (decref f) h) lo hi
  | [], _, h, [], lo, hi, ho, _ => by
    simp only [OwnList] at ho; subst ho; exact Freed.empty h lo
  | [], _, _, _ :: _, _, _, ho, _ => by simp [OwnList] at ho
  | _ :: _, _, _, [], _, _, ho, _ => by simp [OwnList] at ho
  | t :: ts, f, h, x :: xs, lo, hi, ho, hf => by
    simp only [OwnList] at ho
    obtain ⟨mid, h1, h2⟩ := ho
    have b1 := own_lt t x lo mid h1
    have b2 := ownList_le ts xs mid hi h2
    simp only [List.foldl_cons]
    have f1 := decref_own t f h x lo mid h1 (by omega)
    have h2' : OwnList ts (decref f h x) xs mid hi :=
      ownList_congr ts xs mid hi (fun r hr1 _ => f1.2.2.2.2 r (Or.inr hr1)) h2
    exact f1.append (decrefs_ownList ts f _ xs mid hi h2' (by omega)) (by omega) b2
theorem decrefs_ownPairs : ∀ (ps : List (Item × Item)) (f : Nat) (h : H) (rs : List (Ref × Ref)) (lo hi : Nat),
    OwnPairs ps h rs lo hi → hi - lo ≤ f → Freed h ((rs.flatMap fun kv => [kv.1, kv.2]).foldl (decref f) h) lo hi
  | [], _, h, [], lo, hi, ho, _ => by
    simp only [OwnPairs] at ho; subst ho; exact Freed.empty h lo
  | [], _, _, _ :: _, _, _, ho, _ => by simp [OwnPairs] at ho
  | _ :: _, _, _, [], _, _, ho, _ => by simp [OwnPairs] at ho
  | (k, v) :: ps, f, h, (a, b) :: rs, lo, hi, ho, hf => by
    simp only [OwnPairs] at ho
    obtain ⟨m1, m2, h1, h2, h3⟩ := ho
    have b1 := own_lt k a lo m1 h1
    have b2 := own_lt v b m1 m2 h2
    have b3 := ownPairs_le ps rs m2 hi h3
    simp only [List.flatMap_cons, List.cons_append, List.nil_append, List.foldl_cons]
    have f1 := decref_own k f h a lo m1 h1 (by omega)
    have h2' : Own v (decref f h a) b m1 m2 :=
      own_congr v b m1 m2 (fun r hr1 _ => f1.2.2.2.2 r (Or.inr hr1)) h2
    have f2 := decref_own v f _ b m1 m2 h2' (by omega)
    have h3' : OwnPairs ps (decref f (decref f h a) b) rs m2 hi :=
      ownPairs_congr ps rs m2 hi (fun r hr1 _ => by
        rw [f2.2.2.2.2 r (Or.inr hr1)]; exact f1.2.2.2.2 r (Or.inr (by omega))) h3
    exact (f1.append f2 (by omega) (by omega)).append (decrefs_ownPairs ps f _ rs m2 hi h3' (by omega)) (by omega) b3
end

/-- `cbor_decref` on the root of an exclusively owned tree: the cells of the tree are released, every other
cell, the fault flag and the request counter are untouched -/
theorem hdecref_own {t : Item} {h : H} {y lo hi : Nat} (ho : Own t h y lo hi) (hhi : hi ≤ h.cells.length) :
    Freed h (h.decref y) lo hi :=
  decref_own t h.fuel h y lo hi ho (by unfold H.fuel; omega)

end Heap

import Cbor.Lemmas.Half
/-! shard 14 of the exhaustive binary16 table check (patterns 14336 .. 15359), kernel-evaluated -/
namespace Lemmas
theorem half_shard_14 : halfShardOk 14 = true := by decide +kernel
end Lemmas

import Cbor.Lemmas.Half
/-! shard 34 of the exhaustive binary16 table check (patterns 34816 .. 35839), kernel-evaluated -/
namespace Lemmas
theorem half_shard_34 : halfShardOk 34 = true := by decide +kernel
end Lemmas

import Cbor.Lemmas.Half
/-! shard 38 of the exhaustive binary16 table check (patterns 38912 .. 39935), kernel-evaluated -/
namespace Lemmas
theorem half_shard_38 : halfShardOk 38 = true := by decide +kernel
end Lemmas

import Cbor.Lemmas.BuildOwn
/-! Releasing an old item touches old cells only: what makes a copy independent of its source. -/
namespace Heap

/-- the cells below `N` refer to cells below `N` only -/
def Closed (N : Nat) (h : H) : Prop := ∀ r c, r < N → h.get r = some c → ∀ y ∈ c.node.children, y < N

theorem closed_of_shrinks {N : Nat} {h h' : H} (hc : Closed N h) (hs : Shrinks h h') : Closed N h' := by
  intro r c hr hg y hy
  obtain ⟨c0, hg0, hn, _⟩ := hs.2.2 r c hg
  exact hc r c0 hr hg0 y (hn ▸ hy)

/-- `cbor_decref` of an item below `N`, in a heap whose cells below `N` refer below `N` only, leaves every cell from `N` on untouched -/
theorem decref_below {N : Nat} : ∀ (f : Nat) (h : H) (x : Nat), Closed N h → x < N → ∀ r, N ≤ r → (decref f h x).get r = h.get r
  | 0, _, _, _, _ => fun _ _ => rfl
  | f+1, h, x, hc, hx => by
    intro r hr
    unfold decref
    cases hg : h.get x with
    | none => rfl
    | some c =>
      simp only
      split
      · rfl
      · split
        · have key : ∀ (xs : List Ref) (h1 : H), Closed N h1 → (∀ y ∈ xs, y < N) → (xs.foldl (decref f) h1).get r = h1.get r := by
            intro xs
            induction xs with
            | nil => intro h1 _ _; rfl
            | cons y ys ih =>
              intro h1 hc1 hy
              simp only [List.foldl_cons]
              rw [ih _ (closed_of_shrinks hc1 (decref_shrinks f h1 y)) (fun z hz => hy z (by simp [hz]))]
              exact decref_below f h1 y hc1 (hy y (by simp)) r hr
          rw [key _ _ (closed_of_shrinks hc (shrinks_put_none h x)) (hc x c hx hg)]
          exact get_put_ne h x r none (by omega)
        · exact get_put_ne h x r _ (by omega)

theorem hdecref_below {N : Nat} {h : H} (hc : Closed N h) {x : Nat} (hx : x < N) : ∀ r, N ≤ r → (h.decref x).get r = h.get r :=
  decref_below _ h x hc hx

/-- a heap whose books balance has no reference to a cell that does not exist: it is closed at its own length -/
theorem closed_of_counts {h : H} {own : Ref → Nat} (hc : Counts h own) : Closed h.cells.length h := by
  intro p cp _ hgp x hx
  have hx' := hc x
  cases hgx : h.get x with
  | none =>
    rw [hgx] at hx'
    have h1 := count_children_le h p cp hgp x
    have h2 : 0 < cp.node.children.count x := List.count_pos_iff.mpr hx
    omega
  | some cx => exact get_lt hgx

/-- closedness at `N` only depends on the cells below `N` -/
theorem closed_congr {N : Nat} {h h' : H} (hc : Closed N h) (e : ∀ r, r < N → h'.get r = h.get r) : Closed N h' :=
  fun r c hr hg y hy => hc r c hr (by rw [← e r hr]; exact hg) y hy

end Heap

namespace Heap

/-- a heap that reads like `h` below `h`'s length and has only released cells beyond it is `h` followed by released cells -/
theorem cells_eq_append_nones {h h' : H} (hlen : h.cells.length ≤ h'.cells.length)
    (hold : ∀ r, r < h.cells.length → h'.get r = h.get r) (hnew : ∀ r, h.cells.length ≤ r → h'.get r = none) :
    h'.cells = h.cells ++ List.replicate (h'.cells.length - h.cells.length) none := by
  apply List.ext_getElem?
  intro i
  by_cases hi : i < h.cells.length
  · rw [List.getElem?_append_left hi]
    have e := hold i hi
    have hi' : i < h'.cells.length := by omega
    simp only [H.get, List.getElem?_eq_getElem hi, List.getElem?_eq_getElem hi', Option.join_some] at e
    rw [List.getElem?_eq_getElem hi, List.getElem?_eq_getElem hi', e]
  · rw [List.getElem?_append_right (by omega)]
    by_cases hi' : i < h'.cells.length
    · have e := hnew i (by omega)
      simp only [H.get, List.getElem?_eq_getElem hi', Option.join_some] at e
      rw [List.getElem?_eq_getElem hi', e, List.getElem?_replicate]
      simp; omega
    · rw [List.getElem?_eq_none (by omega), List.getElem?_eq_none (by simp; omega)]

def blocksOf : Option Cell → Nat
  | some c => c.node.blocks
  | none => 0

theorem liveBlocks_eq (h : H) : h.liveBlocks = (h.cells.map blocksOf).sum := by
  unfold H.liveBlocks
  congr 1

theorem liveBlocks_append_nones (l : List (Option Cell)) (k : Nat) :
    ((l ++ List.replicate k none).map blocksOf).sum = (l.map blocksOf).sum := by
  induction k with
  | zero => simp
  | succ k ih => simp [List.replicate_succ', ← List.append_assoc, ih, blocksOf]

theorem liveCells_append_nones (l : List (Option Cell)) (k : Nat) :
    ((l ++ List.replicate k none).filter Option.isSome).length = (l.filter Option.isSome).length := by
  induction k with
  | zero => simp
  | succ k ih => simp [List.replicate_succ', ← List.append_assoc, ih]

end Heap

namespace Heap

/-- two cell lists that read alike at every index hold the same live blocks (they can differ only in trailing released cells) -/
theorem blocks_sum_of_get_eq : ∀ (l l' : List (Option Cell)), (∀ i : Nat, (l[i]?).join = (l'[i]?).join) → (l.map blocksOf).sum = (l'.map blocksOf).sum
  | [], [], _ => rfl
  | [], c :: l', e => by
    have h0 : (none : Option Cell) = c := by have := e 0; simpa using this
    have ht := blocks_sum_of_get_eq [] l' (fun i => by have := e (i + 1); simpa using this)
    simp only [List.map_cons, List.sum_cons, ← ht]
    subst h0; simp [blocksOf]
  | c :: l, [], e => by
    have h0 : c = (none : Option Cell) := by have := e 0; simpa using this
    have ht := blocks_sum_of_get_eq l [] (fun i => by have := e (i + 1); simpa using this)
    simp only [List.map_cons, List.sum_cons, ht]
    subst h0; simp [blocksOf]
  | c :: l, c' :: l', e => by
    have h0 : c = c' := by have := e 0; simpa using this
    have ht := blocks_sum_of_get_eq l l' (fun i => by have := e (i + 1); simpa using this)
    simp only [List.map_cons, List.sum_cons, ht, h0]

theorem liveBlocks_of_get_eq {h h' : H} (e : ∀ r : Nat, h'.get r = h.get r) : h'.liveBlocks = h.liveBlocks := by
  rw [liveBlocks_eq, liveBlocks_eq]
  exact blocks_sum_of_get_eq _ _ (fun i => e i)

end Heap

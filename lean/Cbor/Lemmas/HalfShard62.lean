import Cbor.Lemmas.Half
/-! shard 62 of the exhaustive binary16 table check (patterns 63488 .. 64511), kernel-evaluated -/
namespace Lemmas
theorem half_shard_62 : halfShardOk 62 = true := by decide +kernel
end Lemmas

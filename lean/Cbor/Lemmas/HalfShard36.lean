import Cbor.Lemmas.Half
/-! shard 36 of the exhaustive binary16 table check (patterns 36864 .. 37887), kernel-evaluated -/
namespace Lemmas
theorem half_shard_36 : halfShardOk 36 = true := by decide +kernel
end Lemmas

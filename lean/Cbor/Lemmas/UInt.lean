/-! Small arithmetic facts about fixed-width unsigned integers, stated over `toNat`. -/

namespace Lemmas

/-- number of binary digits: 0 for 0, ⌊log₂ n⌋ + 1 otherwise -/
def bitlen : Nat → Nat
  | 0 => 0
  | n+1 => bitlen ((n+1) / 2) + 1
decreasing_by omega

theorem bitlen_zero : bitlen 0 = 0 := by simp [bitlen]

theorem bitlen_pos (n : Nat) (h : n ≠ 0) : bitlen n = bitlen (n / 2) + 1 := by
  cases n with
  | zero => contradiction
  | succ k => rw [bitlen]

theorem lt_two_pow_bitlen (n : Nat) : n < 2 ^ bitlen n := by
  induction n using Nat.strongRecOn with
  | _ n ih =>
    by_cases h : n = 0
    · subst h; simp [bitlen]
    · rw [bitlen_pos n h, Nat.pow_succ]
      have := ih (n / 2) (by omega)
      omega

theorem two_pow_bitlen_le (n : Nat) (h : n ≠ 0) : 2 ^ (bitlen n - 1) ≤ n := by
  induction n using Nat.strongRecOn with
  | _ n ih =>
    rw [bitlen_pos n h]
    simp only [Nat.add_sub_cancel]
    by_cases h2 : n / 2 = 0
    · rw [h2, bitlen_zero]; simp; omega
    · have := ih (n / 2) (by omega) h2
      rw [bitlen_pos (n / 2) h2] at this ⊢
      simp only [Nat.add_sub_cancel] at this
      rw [Nat.pow_succ]; omega

theorem bitlen_le_of_lt_two_pow (n k : Nat) (h : n < 2 ^ k) : bitlen n ≤ k := by
  induction k generalizing n with
  | zero => simp at h; subst h; simp [bitlen]
  | succ k ih =>
    by_cases h0 : n = 0
    · subst h0; simp [bitlen]
    · rw [bitlen_pos n h0]
      have := ih (n / 2) (by rw [Nat.pow_succ] at h; omega)
      omega

theorem bitlen_eq_log2 (n : Nat) (h : n ≠ 0) : bitlen n = Nat.log2 n + 1 := by
  have h1 := lt_two_pow_bitlen n
  have h2 := two_pow_bitlen_le n h
  have h3 : 2 ^ n.log2 ≤ n := Nat.log2_self_le h
  have h4 : n < 2 ^ (n.log2 + 1) := (Nat.log2_lt h).mp (by omega)
  have hpos : 0 < bitlen n := by
    rcases Nat.eq_zero_or_pos (bitlen n) with h0 | hp
    · rw [h0] at h1; omega
    · exact hp
  have a : bitlen n - 1 < n.log2 + 1 :=
    (Nat.pow_lt_pow_iff_right (by omega : 1 < 2)).mp (Nat.lt_of_le_of_lt h2 h4)
  have b : n.log2 < bitlen n :=
    (Nat.pow_lt_pow_iff_right (by omega : 1 < 2)).mp (Nat.lt_of_le_of_lt h3 h1)
  omega

theorem mul_lt_of_bitlen (a b : Nat) (h : bitlen a + bitlen b ≤ 64) : a * b < 2 ^ 64 := by
  have ha := lt_two_pow_bitlen a
  have hb := lt_two_pow_bitlen b
  have : a * b < 2 ^ bitlen a * 2 ^ bitlen b := Nat.mul_lt_mul'' ha hb
  rw [← Nat.pow_add] at this
  exact Nat.lt_of_lt_of_le this (Nat.pow_le_pow_right (by omega) h)

end Lemmas

import Cbor.Lemmas.Half
/-! shard 41 of the exhaustive binary16 table check (patterns 41984 .. 43007), kernel-evaluated -/
namespace Lemmas
theorem half_shard_41 : halfShardOk 41 = true := by decide +kernel
end Lemmas

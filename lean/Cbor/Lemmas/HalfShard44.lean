import Cbor.Lemmas.Half
/-! shard 44 of the exhaustive binary16 table check (patterns 45056 .. 46079), kernel-evaluated -/
namespace Lemmas
theorem half_shard_44 : halfShardOk 44 = true := by decide +kernel
end Lemmas

import Cbor.Lemmas.Half
/-! shard 35 of the exhaustive binary16 table check (patterns 35840 .. 36863), kernel-evaluated -/
namespace Lemmas
theorem half_shard_35 : halfShardOk 35 = true := by decide +kernel
end Lemmas

import Cbor.Lemmas.Half
/-! shard 24 of the exhaustive binary16 table check (patterns 24576 .. 25599), kernel-evaluated -/
namespace Lemmas
theorem half_shard_24 : halfShardOk 24 = true := by decide +kernel
end Lemmas

import Cbor.Lemmas.Half
/-! shard 49 of the exhaustive binary16 table check (patterns 50176 .. 51199), kernel-evaluated -/
namespace Lemmas
theorem half_shard_49 : halfShardOk 49 = true := by decide +kernel
end Lemmas

import Cbor.Lemmas.Half
/-! shard 15 of the exhaustive binary16 table check (patterns 15360 .. 16383), kernel-evaluated -/
namespace Lemmas
theorem half_shard_15 : halfShardOk 15 = true := by decide +kernel
end Lemmas

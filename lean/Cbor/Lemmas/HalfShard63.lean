import Cbor.Lemmas.Half
/-! shard 63 of the exhaustive binary16 table check (patterns 64512 .. 65535), kernel-evaluated -/
namespace Lemmas
theorem half_shard_63 : halfShardOk 63 = true := by decide +kernel
end Lemmas

import Cbor.Lemmas.Counts
/-! The reference-count invariant through each container / tag primitive. -/
namespace Heap

/-- the books while some increfs are still to be performed: `xs` are references already stored in a
container but not yet counted -/
def Pending (h : H) (own : Ref → Nat) (xs : List Ref) : Prop :=
  ∀ r, match h.get r with
    | some c => c.rc + xs.count r = h.refs.count r + own r
    | none => h.refs.count r = 0 ∧ own r = 0

theorem pending_nil {h : H} {own : Ref → Nat} (hp : Pending h own []) : Counts h own := by
  intro r; have := hp r; cases hg : h.get r <;> simp_all

theorem counts_congr {h h' : H} {own : Ref → Nat} (hc : Counts h own) (e : h'.cells = h.cells) : Counts h' own := by
  intro r
  have := hc r
  have e1 : h'.get r = h.get r := by simp [H.get, e]
  have e2 : h'.refs = h.refs := by simp [H.refs, e]
  rw [e1, e2]; exact this

theorem refs_incref (h : H) (x : Ref) : (h.incref x).refs = h.refs := by
  unfold H.incref
  cases hg : h.get x with
  | none => rfl
  | some c =>
    simp only
    have hl := get_lt hg
    have he : h.cells[x] = some c := by rw [← get_eq_getElem h x hl, hg]
    unfold H.refs H.put
    simp only
    have key : ∀ (l : List (Option Cell)) (x : Nat) (hx : x < l.length), l[x] = some c →
        (l.set x (some { c with rc := c.rc + 1 })).flatMap cellRefs = l.flatMap cellRefs := by
      intro l
      induction l with
      | nil => intro x hx; simp at hx
      | cons y ys ih =>
        intro x hx he
        cases x with
        | zero => simp at he; subst he; simp [cellRefs]
        | succ x => simp only [List.set_cons_succ, List.flatMap_cons]; rw [ih x (by simpa using hx) (by simpa using he)]
    exact key h.cells x hl he

theorem pending_incref {h : H} {own : Ref → Nat} {x : Ref} {xs : List Ref} {cx : Cell}
    (hp : Pending h own (x :: xs)) (hg : h.get x = some cx) : Pending (h.incref x) own xs := by
  intro r
  rw [refs_incref]
  have := hp r
  by_cases e : r = x
  · subst e
    rw [incref_get_same h r cx hg]
    rw [hg] at this
    simp only [List.count_cons_self] at this
    simp only; omega
  · rw [incref_get_other h x r e]
    have hne : ¬ (x = r) := fun h => e h.symm
    cases hgr : h.get r with
    | none => rw [hgr] at this; exact this
    | some c =>
      rw [hgr] at this
      simp only [List.count_cons, beq_iff_eq, hne, if_false, Nat.add_zero] at this
      exact this

/-- overwrite a cell with one whose children are `children - del + xs` (as multisets): the references removed
become owned by whoever removed them, the added ones are still to be counted -/
theorem pending_put {h : H} {own : Ref → Nat} {a : Ref} {c c' : Cell} (del xs : List Ref)
    (hc : Counts h own) (hg : h.get a = some c) (hrc : c'.rc = c.rc)
    (hch : ∀ r, c'.node.children.count r + del.count r = c.node.children.count r + xs.count r)
    (hlive : ∀ x ∈ xs, (h.get x).isSome) :
    Pending (h.put a (some c')) (bumpL own del) xs := by
  have hl := get_lt hg
  intro r
  have hp := refs_put h a (some c') r hl
  simp only [hg, cellRefs] at hp
  have hcr := hch r
  have hr := hc r
  by_cases e : r = a
  · subst e
    rw [get_put_same _ _ _ hl]
    rw [hg] at hr
    simp only [bumpL]; omega
  · rw [get_put_other _ _ _ _ e]
    cases hgr : h.get r with
    | none =>
      rw [hgr] at hr
      have hx : xs.count r = 0 := by
        apply List.count_eq_zero.mpr
        intro hm; have := hlive r hm; rw [hgr] at this; simp at this
      simp only [bumpL]; omega
    | some cr =>
      rw [hgr] at hr
      simp only [bumpL]; omega

theorem incref_fault_false {h : H} {x : Ref} (hf : (h.incref x).fault = false) : h.fault = false ∧ ∃ c, h.get x = some c := by
  unfold H.incref at hf
  cases hg : h.get x with
  | none => simp [hg, H.bad] at hf
  | some c => simp [hg] at hf; exact ⟨hf, c, rfl⟩

theorem bumpL_nil' (own : Ref → Nat) : bumpL own [] = own := bumpL_nil own
theorem bumpL_single (own : Ref → Nat) (x : Ref) : bumpL own [x] = bump own x 1 := by
  rw [bumpL_cons, bumpL_nil]

/-- store `x` as a further child of `a` and count it -/
theorem counts_link {h : H} {own : Ref → Nat} {a x : Ref} {c c' : Cell}
    (hc : Counts h own) (hg : h.get a = some c) (hrc : c'.rc = c.rc)
    (hch : ∀ r, c'.node.children.count r = c.node.children.count r + [x].count r)
    (hf : ((h.put a (some c')).incref x).fault = false) :
    Counts ((h.put a (some c')).incref x) own := by
  obtain ⟨_, cx, hgx⟩ := incref_fault_false hf
  have hxlive : (h.get x).isSome := by
    by_cases e : x = a
    · subst e; rw [hg]; rfl
    · rw [get_put_other _ _ _ _ e] at hgx; rw [hgx]; rfl
  have hp := pending_put (own := own) [] [x] hc hg hrc (by intro r; simpa using hch r)
    (by intro y hy; simp at hy; subst hy; exact hxlive)
  rw [bumpL_nil] at hp
  exact pending_nil (pending_incref hp hgx)

theorem children_append_count (xs : List Ref) (x r : Ref) : (xs ++ [x]).count r = xs.count r + [x].count r := by
  simp [List.count_append]

theorem grow_same (ω : Oracle) (h : H) (sz al : Nat) :
    (grow ω h sz al).2.cells = h.cells ∧ (grow ω h sz al).2.fault = h.fault := by
  unfold grow
  simp only [H.req]
  repeat' split
  all_goals exact ⟨rfl, rfl⟩

theorem get_congr {h h' : H} (e : h'.cells = h.cells) (r : Ref) : h'.get r = h.get r := by simp [H.get, e]

theorem arrPush_counts {ω : Oracle} {h : H} {own : Ref → Nat} {a x : Ref}
    (hc : Counts h own) (hf : (arrPush ω h a x).2.fault = false) : Counts (arrPush ω h a x).2 own := by
  unfold arrPush at hf ⊢
  cases hg : h.get a with
  | none => simp [hg, H.bad] at hf
  | some c =>
    obtain ⟨n, rc⟩ := c
    cases n with
    | arr d items alloc =>
      cases d with
      | true =>
        simp only [hg] at hf ⊢
        split
        · exact hc
        · rename_i hlt
          simp only [hlt, if_false] at hf
          exact counts_link hc hg rfl (by intro r; simp [Node.children, List.count_append]) hf
      | false =>
        simp only [hg] at hf ⊢
        split
        · rename_i hge
          simp only [hge, if_true] at hf
          have hs := grow_same ω h 8 alloc
          cases hgr : grow ω h 8 alloc with
          | mk o h1 =>
            rw [hgr] at hf hs
            simp only at hs
            have hc' : Counts h1 own := counts_congr hc hs.1
            cases o with
            | none => exact hc'
            | some na =>
              simp only at hf ⊢
              have hg' : h1.get a = some ⟨.arr false items alloc, rc⟩ := by rw [get_congr hs.1]; exact hg
              exact counts_link hc' hg' rfl (by intro r; simp [Node.children, List.count_append]) hf
        · rename_i hlt
          simp only [hlt, if_false] at hf
          exact counts_link hc hg rfl (by intro r; simp [Node.children, List.count_append]) hf
    | _ => simp [hg, H.bad] at hf

theorem put_live {h : H} {a : Ref} {c c' : Cell} (hg : h.get a = some c) (y : Ref) {cy : Cell}
    (hy : (h.put a (some c')).get y = some cy) : (h.get y).isSome := by
  by_cases e : y = a
  · subst e; rw [hg]; rfl
  · rw [get_put_other _ _ _ _ e] at hy; rw [hy]; rfl

theorem incref_live {h : H} {x y : Ref} {cy : Cell} (hy : (h.incref x).get y = some cy) : (h.get y).isSome := by
  unfold H.incref at hy
  cases hg : h.get x with
  | none => simp only [hg, H.bad] at hy; have : h.get y = some cy := hy; rw [this]; rfl
  | some c =>
    simp only [hg] at hy
    exact put_live hg y hy

/-- store `k` and `v` as further children of `m` and count them -/
theorem counts_link2 {h : H} {own : Ref → Nat} {m k v : Ref} {c c' : Cell}
    (hc : Counts h own) (hg : h.get m = some c) (hrc : c'.rc = c.rc)
    (hch : ∀ r, c'.node.children.count r = c.node.children.count r + [k, v].count r)
    (hf : (((h.put m (some c')).incref k).incref v).fault = false) :
    Counts (((h.put m (some c')).incref k).incref v) own := by
  obtain ⟨hf1, cv, hgv⟩ := incref_fault_false hf
  obtain ⟨_, ck, hgk⟩ := incref_fault_false hf1
  have hklive : (h.get k).isSome := put_live hg k hgk
  have hvlive : (h.get v).isSome := by
    have := incref_live hgv
    cases hh : (h.put m (some c')).get v with
    | none => rw [hh] at this; simp at this
    | some cv' => exact put_live hg v hh
  have hp := pending_put (own := own) [] [k, v] hc hg hrc (by intro r; simpa using hch r)
    (by intro y hy; simp at hy; rcases hy with e | e <;> subst e <;> assumption)
  rw [bumpL_nil] at hp
  exact pending_nil (pending_incref (pending_incref hp hgk) hgv)

theorem mapAdd_counts {ω : Oracle} {h : H} {own : Ref → Nat} {m k v : Ref}
    (hc : Counts h own) (hf : (mapAdd ω h m k v).2.fault = false) : Counts (mapAdd ω h m k v).2 own := by
  unfold mapAdd at hf ⊢
  cases hg : h.get m with
  | none => simp [hg, H.bad] at hf
  | some c =>
    obtain ⟨n, rc⟩ := c
    cases n with
    | map d ps alloc =>
      have hcnt : ∀ r, (Node.map d (ps ++ [(k, v)]) alloc).children.count r = (Node.map d ps alloc).children.count r + [k, v].count r := by
        intro r; simp [Node.children, List.count_append]
      cases d with
      | true =>
        simp only [hg] at hf ⊢
        split
        · exact hc
        · rename_i hlt
          simp only [hlt, if_false] at hf
          exact counts_link2 hc hg rfl (fun r => by simpa [Node.children] using hcnt r) hf
      | false =>
        simp only [hg] at hf ⊢
        split
        · rename_i hge
          simp only [hge, if_true] at hf
          have hs := grow_same ω h 16 alloc
          cases hgr : grow ω h 16 alloc with
          | mk o h1 =>
            rw [hgr] at hf hs
            simp only at hs
            have hc' : Counts h1 own := counts_congr hc hs.1
            cases o with
            | none => exact hc'
            | some na =>
              simp only at hf ⊢
              have hg' : h1.get m = some ⟨.map false ps alloc, rc⟩ := by rw [get_congr hs.1]; exact hg
              exact counts_link2 hc' hg' rfl (by intro r; simp [Node.children, List.count_append]) hf
        · rename_i hlt
          simp only [hlt, if_false] at hf
          exact counts_link2 hc hg rfl (fun r => by simpa [Node.children] using hcnt r) hf
    | _ => simp [hg, H.bad] at hf

theorem addChunk_counts {ω : Oracle} {h : H} {own : Ref → Nat} {s c : Ref}
    (hc : Counts h own) (hf : (addChunk ω h s c).2.fault = false) : Counts (addChunk ω h s c).2 own := by
  unfold addChunk at hf ⊢
  cases hgs : h.get s with
  | none => simp [hgs, H.bad] at hf
  | some cs =>
    obtain ⟨n, rc⟩ := cs
    cases n with
    | strI t chunks cap =>
      cases hgc : h.get c with
      | none => simp [hgs, hgc, H.bad] at hf
      | some cc =>
        obtain ⟨n', rc'⟩ := cc
        cases n' with
        | str t' b =>
          simp only [hgs, hgc] at hf ⊢
          split
          · rename_i hne; simp [hne, H.bad] at hf
          · rename_i heq
            simp only [heq, if_false] at hf
            split
            · rename_i hfull
              simp only [hfull, if_true] at hf
              have hs := grow_same ω h 8 cap
              cases hgr : grow ω h 8 cap with
              | mk o h1 =>
                rw [hgr] at hf hs
                simp only at hs
                have hc' : Counts h1 own := counts_congr hc hs.1
                cases o with
                | none => exact hc'
                | some na =>
                  simp only at hf ⊢
                  have hg' : h1.get s = some ⟨.strI t chunks cap, rc⟩ := by rw [get_congr hs.1]; exact hgs
                  exact counts_link hc' hg' rfl (by intro r; simp [Node.children, List.count_append]) hf
            · rename_i hnf
              simp only [hnf, if_false] at hf
              exact counts_link hc hgs rfl (by intro r; simp [Node.children, List.count_append]) hf
        | _ => simp [hgs, hgc, H.bad] at hf
    | _ => simp [hgs, H.bad] at hf

theorem arrGet_counts {h : H} {own : Ref → Nat} {a : Ref} {i : Nat}
    (hc : Counts h own) (hf : (arrGet h a i).2.fault = false) :
    match (arrGet h a i).1 with
    | some x => Counts (arrGet h a i).2 (bump own x 1)
    | none => Counts (arrGet h a i).2 own := by
  unfold arrGet at hf ⊢
  cases hg : h.get a with
  | none => simp [hg, H.bad] at hf
  | some c =>
    obtain ⟨n, rc⟩ := c
    cases n with
    | arr d items alloc =>
      simp only [hg] at hf ⊢
      cases hi : items[i]? with
      | none => simpa using hc
      | some x =>
        simp only [hi] at hf ⊢
        obtain ⟨_, cx, hgx⟩ := incref_fault_false hf
        exact counts_incref h own x cx hgx hc
    | _ => simp [hg, H.bad] at hf

theorem tagGet_counts {h : H} {own : Ref → Nat} {t : Ref}
    (hc : Counts h own) (hf : (tagGet h t).2.fault = false) :
    match (tagGet h t).1 with
    | some x => Counts (tagGet h t).2 (bump own x 1)
    | none => Counts (tagGet h t).2 own := by
  unfold tagGet at hf ⊢
  cases hg : h.get t with
  | none => simp [hg, H.bad] at hf
  | some c =>
    obtain ⟨n, rc⟩ := c
    cases n with
    | tag k o =>
      cases o with
      | none => simp [hg, H.bad] at hf
      | some x =>
        simp only [hg] at hf ⊢
        obtain ⟨_, cx, hgx⟩ := incref_fault_false hf
        exact counts_incref h own x cx hgx hc
    | _ => simp [hg, H.bad] at hf

theorem tagSet_counts {h : H} {own : Ref → Nat} {t x : Ref}
    (hc : Counts h own) (hf : (tagSet h t x).2.fault = false) :
    match (tagSet h t x).1 with
    | some old => Counts (tagSet h t x).2 (bump own old 1)
    | none => Counts (tagSet h t x).2 own := by
  unfold tagSet at hf ⊢
  cases hg : h.get t with
  | none => simp [hg, H.bad] at hf
  | some c =>
    obtain ⟨n, rc⟩ := c
    cases n with
    | tag k old =>
      simp only [hg] at hf ⊢
      obtain ⟨_, cx, hgx⟩ := incref_fault_false hf
      have hxlive : (h.get x).isSome := put_live hg x hgx
      cases old with
      | none =>
        have hp := pending_put (own := own) (c' := ⟨.tag k (some x), rc⟩) [] [x] hc hg rfl (by intro r; simp [Node.children])
          (by intro y hy; simp at hy; subst hy; exact hxlive)
        rw [bumpL_nil] at hp
        exact pending_nil (pending_incref hp hgx)
      | some o =>
        have hp := pending_put (own := own) (c' := ⟨.tag k (some x), rc⟩) [o] [x] hc hg rfl (by intro r; simp [Node.children]; omega)
          (by intro y hy; simp at hy; subst hy; exact hxlive)
        rw [bumpL_single] at hp
        exact pending_nil (pending_incref hp hgx)
    | _ => simp [hg, H.bad] at hf

theorem count_set_add (items : List Ref) (i : Nat) (x old r : Ref) (hil : i < items.length) (hio : items[i] = old) :
    (items.set i x).count r + [old].count r = items.count r + [x].count r := by
  have h1 := List.count_set (a := x) (b := r) (l := items) (i := i) hil
  rw [hio] at h1
  have hpos : old = r → 0 < items.count r := by
    intro e; subst e
    exact List.count_pos_iff.mpr (hio ▸ List.getElem_mem hil)
  simp only [List.count_cons, List.count_nil, beq_iff_eq, Nat.zero_add] at h1 ⊢
  by_cases e1 : old = r
  · have := hpos e1
    by_cases e2 : x = r <;> simp [e1, e2] at h1 ⊢ <;> omega
  · by_cases e2 : x = r <;> simp [e1, e2] at h1 ⊢ <;> omega

theorem decref_fault_mono : ∀ (f : Nat) (h : H) (r : Ref), h.fault = true → (decref f h r).fault = true
  | 0, h, _, _ => rfl
  | f+1, h, r, hf => by
    unfold decref
    cases hg : h.get r with
    | none => rfl
    | some c =>
      simp only
      split
      · rfl
      · split
        · have : ∀ (xs : List Ref) (h : H), h.fault = true → (xs.foldl (decref f) h).fault = true := by
            intro xs
            induction xs with
            | nil => intro h hh; exact hh
            | cons y ys ih => intro h hh; exact ih _ (decref_fault_mono f h y hh)
          exact this _ _ hf
        · exact hf

theorem arrReplace_counts {h : H} {own : Ref → Nat} {a x : Ref} {i : Nat}
    (hc : Counts h own) (hf : (arrReplace h a i x).2.fault = false) : Counts (arrReplace h a i x).2 own := by
  unfold arrReplace at hf ⊢
  cases hg : h.get a with
  | none => simp [hg, H.bad] at hf
  | some c =>
    obtain ⟨n, rc⟩ := c
    cases n with
    | arr d items alloc =>
      simp only [hg] at hf ⊢
      cases hi : items[i]? with
      | none => simpa using hc
      | some old =>
        simp only [hi] at hf ⊢
        have hil : i < items.length := by
          cases Nat.lt_or_ge i items.length with
          | inl h => exact h
          | inr h => rw [List.getElem?_eq_none h] at hi; cases hi
        have hio : items[i] = old := by rw [List.getElem?_eq_getElem hil] at hi; exact Option.some.inj hi
        -- the intermediate heap is fault-free, hence `x` is live
        have hf1 : ((h.put a (some ⟨.arr d (items.set i x) alloc, rc⟩)).incref x).fault = false := by
          cases hh : ((h.put a (some ⟨.arr d (items.set i x) alloc, rc⟩)).incref x).fault with
          | false => rfl
          | true => unfold H.decref at hf; rw [decref_fault_mono _ _ old hh] at hf; cases hf
        obtain ⟨_, cx, hgx⟩ := incref_fault_false hf1
        have hxlive : (h.get x).isSome := put_live hg x hgx
        have hp := pending_put (own := own) (c' := ⟨.arr d (items.set i x) alloc, rc⟩) [old] [x] hc hg rfl
          (by intro r; simpa [Node.children] using count_set_add items i x old r hil hio)
          (by intro y hy; simp at hy; subst hy; exact hxlive)
        rw [bumpL_single] at hp
        exact (H.decref_counts _ old own (pending_nil (pending_incref hp hgx))).1
    | _ => simp [hg, H.bad] at hf

theorem arrSet_counts {ω : Oracle} {h : H} {own : Ref → Nat} {a x : Ref} {i : Nat}
    (hc : Counts h own) (hf : (arrSet ω h a i x).2.fault = false) : Counts (arrSet ω h a i x).2 own := by
  unfold arrSet at hf ⊢
  cases hg : h.get a with
  | none => simp [hg, H.bad] at hf
  | some c =>
    obtain ⟨n, rc⟩ := c
    cases n with
    | arr d items alloc =>
      simp only [hg] at hf ⊢
      split
      · rename_i e; simp only [e, if_true] at hf; exact arrPush_counts hc hf
      · rename_i e
        simp only [e, if_false] at hf
        split
        · rename_i e2; simp only [e2, if_true] at hf; exact arrReplace_counts hc hf
        · exact hc
    | _ => simp [hg, H.bad] at hf

theorem new1_counts {ω : Oracle} {h : H} {own : Ref → Nat} {n : Node} (hn : n.children = []) (hc : Counts h own) :
    match (new1 ω h n).1 with
    | some r => Counts (new1 ω h n).2 (bump own r 1)
    | none => Counts (new1 ω h n).2 own := by
  have hc' : Counts ({ h with reqs := h.reqs + 1 } : H) own := counts_congr hc rfl
  by_cases hω : ω h.reqs = true
  · simp only [new1, H.req, hω, if_true]
    exact counts_new _ own n hn hc'
  · simp only [new1, H.req, hω, if_false]
    exact hc'

theorem new2_counts {ω : Oracle} {h : H} {own : Ref → Nat} {n : Node} (hn : n.children = []) (hc : Counts h own) :
    match (new2 ω h n).1 with
    | some r => Counts (new2 ω h n).2 (bump own r 1)
    | none => Counts (new2 ω h n).2 own := by
  have hc1 : Counts ({ h with reqs := h.reqs + 1 } : H) own := counts_congr hc rfl
  have hc2 : Counts ({ h with reqs := h.reqs + 1 + 1 } : H) own := counts_congr hc rfl
  by_cases hω : ω h.reqs = true
  · by_cases hω2 : ω (h.reqs + 1) = true
    · simp only [new2, H.req, hω, hω2, Bool.not_true, Bool.false_eq_true, if_false, if_true]
      exact counts_new _ own n hn hc2
    · simp only [new2, H.req, hω, hω2, Bool.not_true, Bool.false_eq_true, if_false]
      exact hc2
  · have : (!ω h.reqs) = true := by simpa using hω
    simp only [new2, H.req, this, if_true]
    exact hc1

theorem newMulti_counts {ω : Oracle} {h : H} {own : Ref → Nat} {n : Node} {a b : Nat} (hn : n.children = []) (hc : Counts h own) :
    match (newMulti ω h a b n).1 with
    | some r => Counts (newMulti ω h a b n).2 (bump own r 1)
    | none => Counts (newMulti ω h a b n).2 own := by
  have hc1 : Counts ({ h with reqs := h.reqs + 1 } : H) own := counts_congr hc rfl
  have hc2 : Counts ({ h with reqs := h.reqs + 1 + 1 } : H) own := counts_congr hc rfl
  by_cases hω : ω h.reqs = true
  · by_cases hm : mulOk a b = true
    · by_cases hω2 : ω (h.reqs + 1) = true
      · simp only [newMulti, H.req, hω, hω2, hm, Bool.not_true, Bool.false_eq_true, if_false, if_true]
        exact counts_new _ own n hn hc2
      · simp only [newMulti, H.req, hω, hω2, hm, Bool.not_true, Bool.false_eq_true, if_false]
        exact hc2
    · have : (!mulOk a b) = true := by simpa using hm
      simp only [newMulti, H.req, hω, this, Bool.not_true, Bool.false_eq_true, if_false, if_true]
      exact hc1
  · have : (!ω h.reqs) = true := by simpa using hω
    simp only [newMulti, H.req, this, if_true]
    exact hc1

end Heap

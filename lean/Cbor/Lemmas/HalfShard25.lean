import Cbor.Lemmas.Half
/-! shard 25 of the exhaustive binary16 table check (patterns 25600 .. 26623), kernel-evaluated -/
namespace Lemmas
theorem half_shard_25 : halfShardOk 25 = true := by decide +kernel
end Lemmas

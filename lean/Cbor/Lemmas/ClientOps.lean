import Cbor.Props.HeapLoad
import Cbor.Props.C11
/-!
# The operations a client performs on a decoded tree (last clause of C01)

* `Heap.own_ranked` — the cells of an exclusively owned tree refer to cells of the tree only, and a rank strictly decreases
  from every container of the tree to its members (whatever the layout: container first or container last);
* `Heap.own_acyclic` — hence adding an owned tree to an acyclic heap whose old cells refer to old cells only gives an
  acyclic heap;
* `Props.C01.C01_client_ops` — after a successful `cbor_load`: the result denotes the decoded tree and reads back as it
  (describe / size / serialize are functions of that tree), `cbor_copy` of it yields an exclusively owned equal tree or
  nothing at all, and releasing the copy and the decoded tree in either order restores the heap that existed before the load.
-/
namespace Heap
open Spec (Item)

/-- the cells `lo … hi-1` refer to cells `lo … hi-1` only, and some rank (bounded by the number of cells) strictly
decreases along every such reference -/
def Ranked (h : H) (lo hi : Nat) : Prop :=
  ∃ rk : Nat → Nat, ∀ r, lo ≤ r → r < hi → rk r ≤ hi - lo ∧
    ∀ c, h.get r = some c → ∀ x : Nat, x ∈ c.node.children → lo ≤ x ∧ x < hi ∧ rk x < rk r

theorem Ranked.empty (h : H) (lo : Nat) : Ranked h lo lo := ⟨fun _ => 0, fun r h1 h2 => by omega⟩

theorem Ranked.append {h : H} {lo mid hi : Nat} (a : Ranked h lo mid) (b : Ranked h mid hi) (h1 : lo ≤ mid) (h2 : mid ≤ hi) :
    Ranked h lo hi := by
  obtain ⟨rk1, a⟩ := a
  obtain ⟨rk2, b⟩ := b
  refine ⟨fun r => if r < mid then rk1 r else rk2 r, fun r hr1 hr2 => ?_⟩
  dsimp only
  by_cases hm : r < mid
  · obtain ⟨a1, a2⟩ := a r hr1 hm
    refine ⟨by rw [if_pos hm]; omega, fun c hg x hx => ?_⟩
    obtain ⟨x1, x2, x3⟩ := a2 c hg x hx
    refine ⟨x1, by omega, ?_⟩
    rw [if_pos hm, if_pos x2]; exact x3
  · obtain ⟨b1, b2⟩ := b r (by omega) hr2
    refine ⟨by rw [if_neg hm]; omega, fun c hg x hx => ?_⟩
    obtain ⟨x1, x2, x3⟩ := b2 c hg x hx
    have hx' : ¬ x < mid := by omega
    refine ⟨by omega, x2, ?_⟩
    rw [if_neg hm, if_neg hx']; exact x3

/-- a container cell at either end of the cells of its members -/
theorem Ranked.node {h : H} {y lo hi lo' hi' : Nat} (ha : Around y lo hi lo' hi') (hle : lo' ≤ hi') (a : Ranked h lo' hi')
    (hch : ∀ c, h.get y = some c → ∀ x : Nat, x ∈ c.node.children → lo' ≤ x ∧ x < hi') : Ranked h lo hi := by
  obtain ⟨rk, a⟩ := a
  unfold Around at ha
  refine ⟨fun r => if r = y then hi - lo else rk r, fun r hr1 hr2 => ?_⟩
  dsimp only
  by_cases hy : r = y
  · subst hy
    refine ⟨by rw [if_pos rfl]; omega, fun c hg x hx => ?_⟩
    obtain ⟨x1, x2⟩ := hch c hg x hx
    have hne : x ≠ r := by omega
    have := (a x x1 x2).1
    refine ⟨by omega, by omega, ?_⟩
    rw [if_neg hne, if_pos rfl]
    omega
  · have hr1' : lo' ≤ r := by omega
    have hr2' : r < hi' := by omega
    obtain ⟨a1, a2⟩ := a r hr1' hr2'
    refine ⟨by rw [if_neg hy]; omega, fun c hg x hx => ?_⟩
    obtain ⟨x1, x2, x3⟩ := a2 c hg x hx
    have hne : x ≠ y := by omega
    refine ⟨by omega, by omega, ?_⟩
    rw [if_neg hy, if_neg hne]; exact x3

theorem Ranked.leaf {h : H} {y : Nat} {c : Cell} (hg : h.get y = some c) (hc : c.node.children = []) : Ranked h y (y + 1) := by
  refine ⟨fun _ => 0, fun r hr1 hr2 => ⟨Nat.zero_le _, fun c' hg' x hx => ?_⟩⟩
  have : r = y := by omega
  subst this
  rw [hg] at hg'; cases hg'
  rw [hc] at hx; cases hx

theorem ownChunks_ranked (t : Bool) {h : H} : ∀ (cs : List (List UInt8)) (rs : List Ref) (lo hi : Nat), OwnChunks t cs h rs lo hi →
    Ranked h lo hi ∧ ∀ x : Nat, x ∈ rs → lo ≤ x ∧ x < hi
  | [], [], lo, hi, ho => by
    simp only [OwnChunks] at ho; subst ho
    exact ⟨Ranked.empty h lo, fun x hx => by cases hx⟩
  | [], _ :: _, _, _, ho => by simp [OwnChunks] at ho
  | _ :: _, [], _, _, ho => by simp [OwnChunks] at ho
  | b :: bs, c :: cs, lo, hi, ho => by
    simp only [OwnChunks] at ho
    obtain ⟨h1, h2, h3⟩ := ho
    subst h1
    have hle := ownChunks_le t bs cs (lo + 1) hi h3
    obtain ⟨i1, i2⟩ := ownChunks_ranked t bs cs (lo + 1) hi h3
    refine ⟨(Ranked.leaf h2 rfl).append i1 (by omega) hle, fun x hx => ?_⟩
    rcases List.mem_cons.mp hx with e | e
    · subst e; omega
    · have := i2 x e; omega

theorem mem_pairs_children {rs : List (Ref × Ref)} {a b : Ref} {x : Nat} :
    x ∈ (((a, b) :: rs).flatMap fun kv => [kv.1, kv.2]) ↔ x = a ∨ x = b ∨ x ∈ (rs.flatMap fun kv => [kv.1, kv.2]) := by
  simp [List.flatMap_cons]

mutual
theorem own_ranked {h : H} : ∀ (t : Item) (y lo hi : Nat), Own t h y lo hi → Ranked h lo hi
  | .uint _ _, y, lo, hi, ho | .negint _ _, y, lo, hi, ho | .bytes _, y, lo, hi, ho | .text _, y, lo, hi, ho
  | .simple _, y, lo, hi, ho | .half _, y, lo, hi, ho | .single _, y, lo, hi, ho | .double _, y, lo, hi, ho => by
    simp only [Own] at ho
    obtain ⟨h1, h2, h3⟩ := ho
    subst h1 h2
    exact Ranked.leaf h3 rfl
  | .bytesI cs, y, lo, hi, ho | .textI cs, y, lo, hi, ho => by
    simp only [Own] at ho
    obtain ⟨rs, cap, lo', hi', hg, ha, hc⟩ := ho
    obtain ⟨i1, i2⟩ := ownChunks_ranked _ cs rs lo' hi' hc
    refine Ranked.node ha (ownChunks_le _ cs rs lo' hi' hc) i1 (fun c hg' x hx => ?_)
    rw [hg] at hg'; cases hg'
    exact i2 x hx
  | .array ts, y, lo, hi, ho | .arrayI ts, y, lo, hi, ho => by
    simp only [Own] at ho
    obtain ⟨xs, al, lo', hi', hg, ha, hc⟩ := ho
    obtain ⟨i1, i2⟩ := ownList_ranked ts xs lo' hi' hc
    refine Ranked.node ha (ownList_le ts xs lo' hi' hc) i1 (fun c hg' x hx => ?_)
    rw [hg] at hg'; cases hg'
    exact i2 x hx
  | .map ps, y, lo, hi, ho | .mapI ps, y, lo, hi, ho => by
    simp only [Own] at ho
    obtain ⟨rs, al, lo', hi', hg, ha, hc⟩ := ho
    obtain ⟨i1, i2⟩ := ownPairs_ranked ps rs lo' hi' hc
    refine Ranked.node ha (ownPairs_le ps rs lo' hi' hc) i1 (fun c hg' x hx => ?_)
    rw [hg] at hg'; cases hg'
    exact i2 x hx
  | .tag n t, y, lo, hi, ho => by
    simp only [Own] at ho
    obtain ⟨x, lo', hi', hg, ha, hc⟩ := ho
    have hb := own_lt t x lo' hi' hc
    refine Ranked.node ha (by omega) (own_ranked t x lo' hi' hc) (fun c hg' z hz => ?_)
    rw [hg] at hg'; cases hg'
    simp only [Node.children, List.mem_singleton] at hz
    subst hz; omega
theorem ownList_ranked {h : H} : ∀ (ts : List Item) (xs : List Ref) (lo hi : Nat), OwnList ts h xs lo hi →
    Ranked h lo hi ∧ ∀ x : Nat, x ∈ xs → lo ≤ x ∧ x < hi
  | [], [], lo, hi, ho => by
    simp only [OwnList] at ho; subst ho
    exact ⟨Ranked.empty h lo, fun x hx => by cases hx⟩
  | [], _ :: _, _, _, ho => by simp [OwnList] at ho
  | _ :: _, [], _, _, ho => by simp [OwnList] at ho
  | t :: ts, x :: xs, lo, hi, ho => by
    simp only [OwnList] at ho
    obtain ⟨mid, h1, h2⟩ := ho
    have b1 := own_lt t x lo mid h1
    have b2 := ownList_le ts xs mid hi h2
    obtain ⟨i1, i2⟩ := ownList_ranked ts xs mid hi h2
    refine ⟨(own_ranked t x lo mid h1).append i1 (by omega) b2, fun z hz => ?_⟩
    rcases List.mem_cons.mp hz with e | e
    · subst e; omega
    · have := i2 z e; omega
theorem ownPairs_ranked {h : H} : ∀ (ps : List (Item × Item)) (rs : List (Ref × Ref)) (lo hi : Nat), OwnPairs ps h rs lo hi →
    Ranked h lo hi ∧ ∀ x : Nat, x ∈ (rs.flatMap fun kv => [kv.1, kv.2]) → lo ≤ x ∧ x < hi
  | [], [], lo, hi, ho => by
    simp only [OwnPairs] at ho; subst ho
    exact ⟨Ranked.empty h lo, fun x hx => by simp at hx⟩
  | [], _ :: _, _, _, ho => by simp [OwnPairs] at ho
  | _ :: _, [], _, _, ho => by simp [OwnPairs] at ho
  | (k, v) :: ps, (a, b) :: rs, lo, hi, ho => by
    simp only [OwnPairs] at ho
    obtain ⟨m1, m2, h1, h2, h3⟩ := ho
    have b1 := own_lt k a lo m1 h1
    have b2 := own_lt v b m1 m2 h2
    have b3 := ownPairs_le ps rs m2 hi h3
    obtain ⟨i1, i2⟩ := ownPairs_ranked ps rs m2 hi h3
    refine ⟨((own_ranked k a lo m1 h1).append (own_ranked v b m1 m2 h2) (by omega) (by omega)).append i1 (by omega) b3,
      fun z hz => ?_⟩
    rcases mem_pairs_children.mp hz with e | e | e
    · subst e; omega
    · subst e; omega
    · have := i2 z e; omega
end

/-- **An owned tree adds no cycle.**  If the cells below `N` of `h` are those of an acyclic heap `h0` and the cells from `N`
on are exactly the cells of an exclusively owned tree, then `h` is acyclic.  (Old cells are not even required to refer to
old cells only: the cells of the tree refer to cells of the tree, so nothing leads back from the tree to an old cell.) -/
theorem own_acyclic {h0 h : H} {N : Nat} {t : Item} {y : Nat} (hac : Props.C11.Acyclic h0) (hold : ∀ r : Nat, r < N → h.get r = h0.get r)
    (ho : Own t h y N h.cells.length) : Props.C11.Acyclic h := by
  obtain ⟨rk0, h0r⟩ := hac
  obtain ⟨rk1, h1r⟩ := own_ranked t y N h.cells.length ho
  refine ⟨fun r => if r < N then rk0 r + (h.cells.length - N) + 1 else min (rk1 r) (h.cells.length - N), fun r c hg x hx => ?_⟩
  have key : ∀ (r x : Nat), h.get r = some c → x ∈ c.node.children →
      (if x < N then rk0 x + (h.cells.length - N) + 1 else min (rk1 x) (h.cells.length - N)) <
        (if r < N then rk0 r + (h.cells.length - N) + 1 else min (rk1 r) (h.cells.length - N)) := by
    intro r x hg hx
    by_cases hr : r < N
    · rw [hold r hr] at hg
      have := h0r r c hg x hx
      rw [if_pos hr]
      by_cases hxN : x < N
      · rw [if_pos hxN]; omega
      · rw [if_neg hxN]; omega
    · have hlt : r < h.cells.length := get_lt hg
      obtain ⟨r1, r2⟩ := h1r r (by omega) hlt
      obtain ⟨x1, x2, x3⟩ := r2 c hg x hx
      have hxN : ¬ x < N := by omega
      rw [if_neg hr, if_neg hxN]; omega
  exact key r x hg hx

/-- the new heap has no dangling reference either -/
theorem own_closed {h0 h : H} {N : Nat} {t : Item} {y : Nat} (hold : ∀ r : Nat, r < N → h.get r = h0.get r)
    (hcl : Closed N h0) (ho : Own t h y N h.cells.length) : Closed h.cells.length h := by
  have hb := own_lt t y N h.cells.length ho
  obtain ⟨rk1, h1r⟩ := own_ranked t y N h.cells.length ho
  have key : ∀ (r x : Nat) (c : Cell), r < h.cells.length → h.get r = some c → x ∈ c.node.children → x < h.cells.length := by
    intro r x c hlt hg hx
    by_cases hr : r < N
    · rw [hold r hr] at hg
      have : x < N := hcl r c hr hg x hx
      omega
    · exact ((h1r r (by omega) hlt).2 c hg x hx).2.1
  exact fun r c hlt hg x hx => key r x c hlt hg hx

/-- releasing, in any heap that reads like `h1`, the root of a tree owned in `h1` on top of `h`: the result reads like `h` -/
theorem release_reads {h h1 X : H} {t : Item} {y : Nat} (hold : ∀ r : Nat, r < h.cells.length → h1.get r = h.get r)
    (ho : Own t h1 y h.cells.length h1.cells.length) (hX : ∀ r : Nat, X.get r = h1.get r) :
    (X.decref y).fault = X.fault ∧ ∀ r : Nat, (X.decref y).get r = h.get r := by
  have hb := own_lt t y _ _ ho
  have hoX : Own t X y h.cells.length h1.cells.length := own_congr t y _ _ (fun r _ _ => hX r) ho
  have hlen : h1.cells.length ≤ X.cells.length := by
    obtain ⟨c, hg, _⟩ := own_all_one t X y _ _ hoX (h1.cells.length - 1) (by omega) (by omega)
    have : h1.cells.length - 1 < X.cells.length := get_lt hg
    omega
  have hf := hdecref_own hoX hlen
  refine ⟨hf.1, fun r => ?_⟩
  by_cases hlt : r < h.cells.length
  · rw [hf.2.2.2.2 r (Or.inl hlt), hX r]; exact hold r hlt
  · by_cases hlt' : r < h1.cells.length
    · rw [hf.2.2.2.1 r (by omega) hlt', get_none_of_ge h r (by omega)]
    · rw [hf.2.2.2.2 r (Or.inr (by omega)), hX r, get_none_of_ge h1 r (by omega), get_none_of_ge h r (by omega)]

/-- two owned trees stacked on `h` (the second, in `h2`, on top of the first, in `h1`): releasing the lower one first and then
the upper one gives a heap that reads like `h` -/
theorem release_lower_first {h h1 h2 : H} {t t' : Item} {y y' : Nat} (hold : ∀ r : Nat, r < h.cells.length → h1.get r = h.get r)
    (ho : Own t h1 y h.cells.length h1.cells.length) (hold2 : ∀ r : Nat, r < h1.cells.length → h2.get r = h1.get r)
    (ho2 : Own t' h2 y' h1.cells.length h2.cells.length) :
    ((h2.decref y).decref y').fault = h2.fault ∧ ∀ r : Nat, ((h2.decref y).decref y').get r = h.get r := by
  have hb := own_lt t y _ _ ho
  have hb2 := own_lt t' y' _ _ ho2
  have ho' : Own t h2 y h.cells.length h1.cells.length := own_congr t y _ _ (fun r _ hr => hold2 r hr) ho
  have hf := hdecref_own ho' (by omega)
  have ho2' : Own t' (h2.decref y) y' h1.cells.length h2.cells.length :=
    own_congr t' y' _ _ (fun r hr _ => hf.2.2.2.2 r (Or.inr hr)) ho2
  have hf2 := hdecref_own ho2' (by rw [hf.2.2.1]; exact Nat.le_refl _)
  refine ⟨hf2.1.trans hf.1, fun r => ?_⟩
  by_cases hlt : r < h.cells.length
  · rw [hf2.2.2.2.2 r (Or.inl (by omega)), hf.2.2.2.2 r (Or.inl hlt), hold2 r (by omega)]; exact hold r hlt
  · rw [get_none_of_ge h r (by omega)]
    by_cases hlt' : r < h1.cells.length
    · rw [hf2.2.2.2.2 r (Or.inl hlt')]; exact hf.2.2.2.1 r (by omega) hlt'
    · by_cases hlt2 : r < h2.cells.length
      · exact hf2.2.2.2.1 r (by omega) hlt2
      · rw [hf2.2.2.2.2 r (Or.inr (by omega)), hf.2.2.2.2 r (Or.inr (by omega))]
        exact get_none_of_ge h2 r (by omega)

end Heap

namespace Props.C01
open Heap Props.C11

/-- what `HB.load` hands out on success, in the form used below -/
theorem loaded (ω : Oracle) (L : Nat) (h : H) (r0 : Model.LoadResult) (src : Array UInt8) (hsz : src.size < 2 ^ 64 - 1)
    (t : Spec.Item) (ht : (Model.load (fun i _ => ω (h.reqs + i)) L r0 src).item = some t)
    (y : Ref) (res : Model.LoadResult) (h1 : H) (hl : HB.load ω L h src = (some y, res, h1)) :
    h1.fault = h.fault ∧ (∀ r : Nat, r < h.cells.length → h1.get r = h.get r) ∧ Own t h1 y h.cells.length h1.cells.length := by
  have hr := HB.hload_refines' ω L h r0 src hsz
  simp only [hl, ht] at hr
  obtain ⟨_, _, h3, h4, y', hy, ho⟩ := hr
  cases hy
  exact ⟨h3, h4, ho⟩

/-- **describe / size / serialize read the decoded tree.**  After a successful load into an acyclic heap the result denotes the
decoded tree `t`, the heap is still acyclic, and the executable read-back `H.val` (the walk `cbor_describe`,
`cbor_serialized_size` and `cbor_serialize` perform) returns exactly `t` — so their results are `Model.size t`,
`Model.serialize t …`, whose theorems are C07 / C03. -/
theorem C01_loaded_val (ω : Oracle) (L : Nat) (h : H) (r0 : Model.LoadResult) (src : Array UInt8) (hsz : src.size < 2 ^ 64 - 1)
    (hac : Acyclic h) (t : Spec.Item) (ht : (Model.load (fun i _ => ω (h.reqs + i)) L r0 src).item = some t)
    (y : Ref) (res : Model.LoadResult) (h1 : H) (hl : HB.load ω L h src = (some y, res, h1)) :
    Den t h1 y ∧ h1.val y = some t ∧ Acyclic h1 := by
  obtain ⟨_, h4, ho⟩ := loaded ω L h r0 src hsz t ht y res h1 hl
  have hac1 : Acyclic h1 := own_acyclic hac h4 ho
  have hd := own_den t y _ _ ho
  exact ⟨hd, hval_of_den h1 hac1 t y hd, hac1⟩

/-- **copy of a decoded tree**, for every allocator oracle: no fault, no cell of the heap changes, and the outcome is either an
exclusively owned tree for the same `t` in exactly the new cells, or nothing (the heap reads as before the call). -/
theorem C01_copy_loaded (ω : Oracle) (L : Nat) (h : H) (r0 : Model.LoadResult) (src : Array UInt8) (hsz : src.size < 2 ^ 64 - 1)
    (hac : Acyclic h) (t : Spec.Item) (ht : (Model.load (fun i _ => ω (h.reqs + i)) L r0 src).item = some t)
    (y : Ref) (res : Model.LoadResult) (h1 : H) (hl : HB.load ω L h src = (some y, res, h1)) (ω' : Oracle) :
    (h1.copy ω' y).2.fault = h.fault ∧
    (∀ r : Nat, r < h1.cells.length → (h1.copy ω' y).2.get r = h1.get r) ∧
    match (h1.copy ω' y).1 with
    | some y' => Own t (h1.copy ω' y).2 y' h1.cells.length (h1.copy ω' y).2.cells.length
    | none => ∀ r : Nat, (h1.copy ω' y).2.get r = h1.get r := by
  obtain ⟨h3, _, _⟩ := loaded ω L h r0 src hsz t ht y res h1 hl
  obtain ⟨hd, _, hac1⟩ := C01_loaded_val ω L h r0 src hsz hac t ht y res h1 hl
  obtain ⟨c1, c2, c3⟩ := C11_copy ω' h1 t y hd hac1
  exact ⟨c1.trans h3, c2, c3⟩

/-- **release**: the copy and the decoded tree can be released in either order; both orders end in a heap that reads exactly as
the heap before the load, with its fault flag (no use after release, no double release) and its number of live blocks. -/
theorem C01_release_both (ω : Oracle) (L : Nat) (h : H) (r0 : Model.LoadResult) (src : Array UInt8) (hsz : src.size < 2 ^ 64 - 1)
    (hac : Acyclic h) (t : Spec.Item) (ht : (Model.load (fun i _ => ω (h.reqs + i)) L r0 src).item = some t)
    (y : Ref) (res : Model.LoadResult) (h1 : H) (hl : HB.load ω L h src = (some y, res, h1)) (ω' : Oracle)
    (y' : Ref) (h2 : H) (hc : h1.copy ω' y = (some y', h2)) :
    (((h2.decref y').decref y).fault = h.fault ∧ ∀ r : Nat, ((h2.decref y').decref y).get r = h.get r) ∧
    (((h2.decref y).decref y').fault = h.fault ∧ ∀ r : Nat, ((h2.decref y).decref y').get r = h.get r) ∧
    ((h2.decref y').decref y).liveBlocks = h.liveBlocks ∧ ((h2.decref y).decref y').liveBlocks = h.liveBlocks := by
  obtain ⟨h3, h4, ho⟩ := loaded ω L h r0 src hsz t ht y res h1 hl
  obtain ⟨hd, _, hac1⟩ := C01_loaded_val ω L h r0 src hsz hac t ht y res h1 hl
  have hcp := C01_copy_loaded ω L h r0 src hsz hac t ht y res h1 hl ω'
  have hrc := C11_release_copy ω' h1 t y hd hac1 y' (by rw [hc])
  simp only [hc] at hcp hrc
  obtain ⟨c1, c2, c3⟩ := hcp
  have hA := release_reads h4 ho hrc.2
  have hB := release_lower_first h4 ho c2 c3
  exact ⟨⟨hA.1.trans (hrc.1.trans h3), hA.2⟩, ⟨hB.1.trans c1, hB.2⟩, liveBlocks_of_get_eq hA.2, liveBlocks_of_get_eq hB.2⟩

/-- **C01, last clause: the operations a client performs on a decoded tree.**  Let `h` be any acyclic heap and let `cbor_load`
succeed on it (for any buffer a C caller can pass, any nesting limit, any allocator oracle) with the item `y`, in heap `h1`,
for the tree `t` of the value-level model.  Then
* `y` denotes `t` and the read-back walk returns `t` (describe / size / serialize are functions of `t`: C07, C03);
* for every allocator oracle `cbor_copy y` raises no fault, changes no cell of `h1`, and either returns an exclusively owned
  tree for `t` in exactly the new cells, or returns NULL with the heap reading as `h1` — and then releasing `y` restores `h`;
* after a successful copy, releasing the copy and the decoded tree in either order ends in a heap that reads exactly as `h`,
  with `h`'s fault flag: nothing is used after release, released twice, or left behind. -/
theorem C01_client_ops (ω : Oracle) (L : Nat) (h : H) (r0 : Model.LoadResult) (src : Array UInt8) (hsz : src.size < 2 ^ 64 - 1)
    (hac : Acyclic h) (t : Spec.Item) (ht : (Model.load (fun i _ => ω (h.reqs + i)) L r0 src).item = some t)
    (y : Ref) (res : Model.LoadResult) (h1 : H) (hl : HB.load ω L h src = (some y, res, h1)) :
    (Den t h1 y ∧ h1.val y = some t) ∧
    ((h1.decref y).fault = h.fault ∧ ∀ r : Nat, (h1.decref y).get r = h.get r) ∧
    ∀ ω' : Oracle,
      (h1.copy ω' y).2.fault = h.fault ∧
      (∀ r : Nat, r < h1.cells.length → (h1.copy ω' y).2.get r = h1.get r) ∧
      match (h1.copy ω' y).1 with
      | some y' =>
        Own t (h1.copy ω' y).2 y' h1.cells.length (h1.copy ω' y).2.cells.length ∧
        ((((h1.copy ω' y).2.decref y').decref y).fault = h.fault ∧ ∀ r : Nat, (((h1.copy ω' y).2.decref y').decref y).get r = h.get r) ∧
        ((((h1.copy ω' y).2.decref y).decref y').fault = h.fault ∧ ∀ r : Nat, (((h1.copy ω' y).2.decref y).decref y').get r = h.get r)
      | none =>
        (∀ r : Nat, (h1.copy ω' y).2.get r = h1.get r) ∧
        (((h1.copy ω' y).2.decref y).fault = h.fault ∧ ∀ r : Nat, ((h1.copy ω' y).2.decref y).get r = h.get r) := by
  obtain ⟨h3, h4, ho⟩ := loaded ω L h r0 src hsz t ht y res h1 hl
  obtain ⟨hd, hv, _⟩ := C01_loaded_val ω L h r0 src hsz hac t ht y res h1 hl
  have hR := release_reads (X := h1) h4 ho (fun _ => rfl)
  refine ⟨⟨hd, hv⟩, ⟨hR.1.trans h3, hR.2⟩, fun ω' => ?_⟩
  obtain ⟨c1, c2, c3⟩ := C01_copy_loaded ω L h r0 src hsz hac t ht y res h1 hl ω'
  refine ⟨c1, c2, ?_⟩
  cases hc : h1.copy ω' y with
  | mk o h2 =>
    cases o with
    | some y' =>
      simp only [hc] at c3 ⊢
      obtain ⟨rA, rB, _⟩ := C01_release_both ω L h r0 src hsz hac t ht y res h1 hl ω' y' h2 hc
      exact ⟨c3, rA, rB⟩
    | none =>
      simp only [hc] at c1 c3 ⊢
      have hN := release_reads h4 ho c3
      exact ⟨c3, hN.1.trans c1, hN.2⟩

end Props.C01

namespace Props.C01
open Heap Props.C11

/-! non-vacuity: the hypotheses of `C01_client_ops` are satisfiable — the buffer `82 01 9f 02 ff` (`[1, [_ 2]]`), the empty
heap, the all-granting oracle, nesting limit 100 — and there the copy succeeds as well (so the `some` branch is inhabited);
with an oracle refusing the second request of the copy the `none` branch is. -/
/-- the value-level model decodes `82 01 9f 02 ff` to `[1, [_ 2]]` (kernel-evaluated) -/
theorem example_tree :
    (Model.load (fun i _ => (fun _ => true : Oracle) (({} : H).reqs + i)) 100 { code := .none, position := 0, read := 0 }
      #[0x82, 0x01, 0x9f, 0x02, 0xff]).item = some (.array [.uint .w8 1, .arrayI [.uint .w8 2]]) := by rfl

example :
    let src : Array UInt8 := #[0x82, 0x01, 0x9f, 0x02, 0xff]
    let ω : Oracle := fun _ => true
    let h : H := {}
    let r0 : Model.LoadResult := { code := .none, position := 0, read := 0 }
    src.size < 2 ^ 64 - 1 ∧ Acyclic h ∧
    (Model.load (fun i _ => ω (h.reqs + i)) 100 r0 src).item = some (.array [.uint .w8 1, .arrayI [.uint .w8 2]]) ∧
    ∃ y res h1, HB.load ω 100 h src = (some y, res, h1) ∧
      (∃ y', (h1.copy ω y).1 = some y') ∧ (h1.copy (fun i => i != h1.reqs + 1) y).1 = none := by
  intro src ω h r0
  have e2 : (HB.load ω 100 h src).1.isSome = true := by decide +kernel
  have e3 : ((HB.load ω 100 h src).2.2.copy ω ((HB.load ω 100 h src).1.getD 0)).1.isSome = true := by decide +kernel
  have e4 : ((HB.load ω 100 h src).2.2.copy (fun i => i != (HB.load ω 100 h src).2.2.reqs + 1) ((HB.load ω 100 h src).1.getD 0)).1.isSome = false := by
    decide +kernel
  obtain ⟨y, hy⟩ := Option.isSome_iff_exists.mp e2
  rw [hy] at e3 e4
  refine ⟨by decide, ⟨fun _ => 0, fun r c hg => by simp [H.get, h] at hg⟩, example_tree, y, (HB.load ω 100 h src).2.1, (HB.load ω 100 h src).2.2, ?_, ?_, ?_⟩
  · rw [← hy]
  · exact Option.isSome_iff_exists.mp e3
  · simpa using e4

end Props.C01

import Cbor.Lemmas.CopyCounts
/-! `cbor_copy` leaves every pre-existing item untouched and builds its result out of new items only. -/
namespace Heap

/-- relative to the `N` items that existed when the copy started: they all read as before (contents *and* counts),
and every newer item refers to newer items only -/
def Fr (N : Nat) (h0 h : H) : Prop :=
  N ≤ h.cells.length ∧ (∀ r, r < N → h.get r = h0.get r) ∧ (∀ r c, N ≤ r → h.get r = some c → ∀ x ∈ c.node.children, N ≤ x)

theorem Fr.refl (h : H) : Fr h.cells.length h h :=
  ⟨Nat.le_refl _, fun _ _ => rfl, fun r c hr hg => absurd (get_lt hg) (Nat.not_lt.mpr hr)⟩

theorem fr_congr {N : Nat} {h0 h h' : H} (hf : Fr N h0 h) (e : h'.cells = h.cells) : Fr N h0 h' :=
  ⟨by rw [e]; exact hf.1, fun r hr => by rw [get_congr e]; exact hf.2.1 r hr, fun r c hr hg => hf.2.2 r c hr (by rw [← get_congr e]; exact hg)⟩

theorem fr_bad {N : Nat} {h0 h : H} (hf : Fr N h0 h) : Fr N h0 h.bad := fr_congr hf rfl

/-- append a cell whose references are all new -/
theorem fr_new {N : Nat} {h0 h : H} (hf : Fr N h0 h) (n : Node) (hn : ∀ x ∈ n.children, N ≤ x) : Fr N h0 (h.new n).2 := by
  refine ⟨by simp [H.new]; have := hf.1; omega, fun r hr => ?_, fun r c hr hg => ?_⟩
  · rw [get_new_other h n r (Nat.ne_of_lt (Nat.lt_of_lt_of_le hr hf.1))]; exact hf.2.1 r hr
  · by_cases e : r = h.cells.length
    · subst e; rw [get_new_same] at hg; cases hg; exact hn
    · rw [get_new_other h n r e] at hg; exact hf.2.2 r c hr hg

/-- overwrite a new cell with one whose references are all new -/
theorem fr_put {N : Nat} {h0 h : H} (hf : Fr N h0 h) (a : Ref) (ha : N ≤ a) (c' : Option Cell)
    (hn : ∀ c, c' = some c → ∀ x ∈ c.node.children, N ≤ x) : Fr N h0 (h.put a c') := by
  refine ⟨by simp; exact hf.1, fun r hr => ?_, fun r c hr hg => ?_⟩
  · rw [get_put_other _ _ _ _ (Nat.ne_of_lt (Nat.lt_of_lt_of_le hr ha))]; exact hf.2.1 r hr
  · by_cases e : r = a
    · subst e
      by_cases hl : r < h.cells.length
      · rw [get_put_same _ _ _ hl] at hg; exact hn c hg
      · have : (h.put r c').get r = none := by simp [H.get, H.put, List.getElem?_set, hl]
        rw [this] at hg; cases hg
    · rw [get_put_other _ _ _ _ e] at hg; exact hf.2.2 r c hr hg

theorem fr_incref {N : Nat} {h0 h : H} (hf : Fr N h0 h) (x : Ref) (hx : N ≤ x) : Fr N h0 (h.incref x) := by
  unfold H.incref
  cases hg : h.get x with
  | none => exact fr_bad hf
  | some c => exact fr_put hf x hx _ (fun c' hc' => by cases hc'; exact hf.2.2 x c hx hg)

theorem fr_new1 {N : Nat} {h0 h : H} (hf : Fr N h0 h) (ω : Oracle) (n : Node) (hn : n.children = []) :
    Fr N h0 (new1 ω h n).2 ∧ ∀ r, (new1 ω h n).1 = some r → N ≤ r := by
  unfold new1; simp only [H.req]
  have hf' : Fr N h0 ({ h with reqs := h.reqs + 1 } : H) := fr_congr hf rfl
  by_cases h1 : ω h.reqs = true
  · simp only [h1, if_true]
    exact ⟨fr_new hf' n (by rw [hn]; simp), fun r hr => by simp only [H.new, Option.some.injEq] at hr; rw [← hr]; exact hf.1⟩
  · simp only [h1, if_false]; exact ⟨hf', fun r hr => by cases hr⟩

theorem fr_new2 {N : Nat} {h0 h : H} (hf : Fr N h0 h) (ω : Oracle) (n : Node) (hn : n.children = []) :
    Fr N h0 (new2 ω h n).2 ∧ ∀ r, (new2 ω h n).1 = some r → N ≤ r := by
  unfold new2; simp only [H.req]
  have hf1 : Fr N h0 ({ h with reqs := h.reqs + 1 } : H) := fr_congr hf rfl
  have hf2 : Fr N h0 ({ h with reqs := h.reqs + 1 + 1 } : H) := fr_congr hf rfl
  by_cases h1 : ω h.reqs = true <;> by_cases h2 : ω (h.reqs + 1) = true <;> simp only [h1, h2, Bool.not_true, Bool.false_eq_true, if_false, if_true, Bool.not_false]
  · exact ⟨fr_new hf2 n (by rw [hn]; simp), fun r hr => by simp only [H.new, Option.some.injEq] at hr; rw [← hr]; exact hf.1⟩
  · exact ⟨hf2, fun r hr => by cases hr⟩
  · exact ⟨hf1, fun r hr => by cases hr⟩
  · exact ⟨hf1, fun r hr => by cases hr⟩

theorem fr_newMulti {N : Nat} {h0 h : H} (hf : Fr N h0 h) (ω : Oracle) (a b : Nat) (n : Node) (hn : n.children = []) :
    Fr N h0 (newMulti ω h a b n).2 ∧ ∀ r, (newMulti ω h a b n).1 = some r → N ≤ r := by
  unfold newMulti; simp only [H.req]
  have hf1 : Fr N h0 ({ h with reqs := h.reqs + 1 } : H) := fr_congr hf rfl
  have hf2 : Fr N h0 ({ h with reqs := h.reqs + 1 + 1 } : H) := fr_congr hf rfl
  by_cases h1 : ω h.reqs = true <;> by_cases h3 : mulOk a b = true <;> by_cases h2 : ω (h.reqs + 1) = true <;>
    simp only [h1, h2, h3, Bool.not_true, Bool.false_eq_true, if_false, if_true, Bool.not_false]
  all_goals first
    | exact ⟨fr_new hf2 n (by rw [hn]; simp), fun r hr => by simp only [H.new, Option.some.injEq] at hr; rw [← hr]; exact hf.1⟩
    | exact ⟨hf2, fun r hr => by cases hr⟩
    | exact ⟨hf1, fun r hr => by cases hr⟩

theorem fr_grow {N : Nat} {h0 h : H} (hf : Fr N h0 h) (ω : Oracle) (a b : Nat) : Fr N h0 (grow ω h a b).2 :=
  fr_congr hf (grow_same ω h a b).1


theorem fr_arrPush {N : Nat} {h0 h : H} (hf : Fr N h0 h) (ω : Oracle) (a x : Ref) (ha : N ≤ a) (hx : N ≤ x) : Fr N h0 (arrPush ω h a x).2 := by
  unfold arrPush
  cases hg : h.get a with
  | none => exact fr_bad hf
  | some c =>
    obtain ⟨n, rc⟩ := c
    have hch := hf.2.2 a _ ha hg
    cases n with
    | arr d items alloc =>
      have hnew : ∀ al, ∀ c, some (⟨.arr d (items ++ [x]) al, rc⟩ : Cell) = some c → ∀ y ∈ c.node.children, N ≤ y := by
        intro al c hc y hy; cases hc
        simp only [Node.children, List.mem_append, List.mem_singleton] at hy
        rcases hy with hy | hy
        · exact hch y hy
        · subst hy; exact hx
      cases d with
      | true => simp only; split; exact hf; exact fr_incref (fr_put hf a ha _ (hnew alloc)) x hx
      | false =>
        simp only
        split
        · have hs := fr_grow hf ω 8 alloc
          cases hgr : grow ω h 8 alloc with
          | mk o h1 =>
            rw [hgr] at hs
            cases o with
            | none => exact hs
            | some na => exact fr_incref (fr_put hs a ha _ (hnew na)) x hx
        · exact fr_incref (fr_put hf a ha _ (hnew alloc)) x hx
    | _ => exact fr_bad hf

theorem fr_mapAdd {N : Nat} {h0 h : H} (hf : Fr N h0 h) (ω : Oracle) (m k v : Ref) (hm : N ≤ m) (hk : N ≤ k) (hv : N ≤ v) :
    Fr N h0 (mapAdd ω h m k v).2 := by
  unfold mapAdd
  cases hg : h.get m with
  | none => exact fr_bad hf
  | some c =>
    obtain ⟨n, rc⟩ := c
    have hch := hf.2.2 m _ hm hg
    cases n with
    | map d ps alloc =>
      have hnew : ∀ al, ∀ c, some (⟨.map d (ps ++ [(k, v)]) al, rc⟩ : Cell) = some c → ∀ y ∈ c.node.children, N ≤ y := by
        intro al c hc y hy; cases hc
        simp only [Node.children, List.flatMap_append, List.mem_append] at hy
        rcases hy with hy | hy
        · exact hch y hy
        · simp at hy; rcases hy with hy | hy <;> subst hy <;> assumption
      cases d with
      | true => simp only; split; exact hf; exact fr_incref (fr_incref (fr_put hf m hm _ (hnew alloc)) k hk) v hv
      | false =>
        simp only
        split
        · have hs := fr_grow hf ω 16 alloc
          cases hgr : grow ω h 16 alloc with
          | mk o h1 =>
            rw [hgr] at hs
            cases o with
            | none => exact hs
            | some na => exact fr_incref (fr_incref (fr_put hs m hm _ (hnew na)) k hk) v hv
        · exact fr_incref (fr_incref (fr_put hf m hm _ (hnew alloc)) k hk) v hv
    | _ => exact fr_bad hf

theorem fr_addChunk {N : Nat} {h0 h : H} (hf : Fr N h0 h) (ω : Oracle) (s c : Ref) (hs' : N ≤ s) (hc' : N ≤ c) : Fr N h0 (addChunk ω h s c).2 := by
  unfold addChunk
  cases hgs : h.get s with
  | none => exact fr_bad hf
  | some cs =>
    obtain ⟨n, rc⟩ := cs
    have hch := hf.2.2 s _ hs' hgs
    cases n with
    | strI t chunks cap =>
      cases hgc : h.get c with
      | none => exact fr_bad hf
      | some cc =>
        obtain ⟨n', rc'⟩ := cc
        cases n' with
        | str t' b =>
          have hnew : ∀ al, ∀ c0, some (⟨.strI t (chunks ++ [c]) al, rc⟩ : Cell) = some c0 → ∀ y ∈ c0.node.children, N ≤ y := by
            intro al c0 hc0 y hy; cases hc0
            simp only [Node.children, List.mem_append, List.mem_singleton] at hy
            rcases hy with hy | hy
            · exact hch y hy
            · subst hy; exact hc'
          simp only
          split
          · exact fr_bad hf
          · split
            · have hs := fr_grow hf ω 8 cap
              cases hgr : grow ω h 8 cap with
              | mk o h1 =>
                rw [hgr] at hs
                cases o with
                | none => exact hs
                | some na => exact fr_incref (fr_put hs s hs' _ (hnew na)) c hc'
            · exact fr_incref (fr_put hf s hs' _ (hnew cap)) c hc'
        | _ => exact fr_bad hf
    | _ => exact fr_bad hf

theorem fr_tagSet {N : Nat} {h0 h : H} (hf : Fr N h0 h) (t x : Ref) (ht : N ≤ t) (hx : N ≤ x) : Fr N h0 (tagSet h t x).2 := by
  unfold tagSet
  cases hg : h.get t with
  | none => exact fr_bad hf
  | some c =>
    obtain ⟨n, rc⟩ := c
    cases n with
    | tag k o =>
      exact fr_incref (fr_put hf t ht _ (fun c hc y hy => by cases hc; simp [Node.children] at hy; subst hy; exact hx)) x hx
    | _ => exact fr_bad hf

theorem fr_buildTag {N : Nat} {h0 h : H} (hf : Fr N h0 h) (ω : Oracle) (n : Nat) (x : Ref) (hx : N ≤ x) :
    Fr N h0 (buildTag ω h n x).2 ∧ ∀ r, (buildTag ω h n x).1 = some r → N ≤ r := by
  unfold buildTag
  have hn := fr_new1 hf ω (.tag n none) rfl
  cases hnn : new1 ω h (.tag n none) with
  | mk o h1 =>
    rw [hnn] at hn
    cases o with
    | none => exact ⟨hn.1, fun r hr => by cases hr⟩
    | some t =>
      have ht := hn.2 t rfl
      exact ⟨fr_tagSet hn.1 t x ht hx, fun r hr => by cases hr; exact ht⟩

/-- releasing a new item touches new items only -/
theorem fr_decref {N : Nat} {h0 : H} : ∀ (f : Nat) (h : H) (x : Ref), Fr N h0 h → N ≤ x → Fr N h0 (decref f h x)
  | 0, h, _, hf, _ => fr_bad hf
  | f+1, h, x, hf, hx => by
    unfold decref
    cases hg : h.get x with
    | none => exact fr_bad hf
    | some c =>
      simp only
      split
      · exact fr_bad hf
      · split
        · have hch := hf.2.2 x c hx hg
          have h1 : Fr N h0 (h.put x none) := fr_put hf x hx none (fun c hc => by cases hc)
          have : ∀ (xs : List Ref) (h : H), Fr N h0 h → (∀ y ∈ xs, N ≤ y) → Fr N h0 (xs.foldl (decref f) h) := by
            intro xs
            induction xs with
            | nil => intro h hh _; exact hh
            | cons y ys ih => intro h hh hy; exact ih _ (fr_decref f h y hh (hy y (by simp))) (fun z hz => hy z (by simp [hz]))
          exact this _ _ h1 hch
        · exact fr_put hf x hx _ (fun c' hc' => by cases hc'; exact hf.2.2 x c hx hg)

theorem fr_hdecref {N : Nat} {h0 h : H} (hf : Fr N h0 h) (x : Ref) (hx : N ≤ x) : Fr N h0 (h.decref x) := fr_decref _ h x hf hx


theorem copy_frame_all (ω : Oracle) (N : Nat) (h0 : H)
    (hold : ∀ r c, r < N → h0.get r = some c → ∀ x ∈ c.node.children, x < N) : ∀ f : Nat,
    (∀ h r, Fr N h0 h → r < N → Fr N h0 (copy ω f h r).2 ∧ ∀ r', (copy ω f h r).1 = some r' → N ≤ r') ∧
    (∀ h res xs, Fr N h0 h → N ≤ res → (∀ x ∈ xs, x < N) →
      Fr N h0 (copyItems ω f h res xs).2 ∧ ∀ r', (copyItems ω f h res xs).1 = some r' → N ≤ r') ∧
    (∀ h res xs, Fr N h0 h → N ≤ res → (∀ x ∈ xs, x < N) →
      Fr N h0 (copyChunks ω f h res xs).2 ∧ ∀ r', (copyChunks ω f h res xs).1 = some r' → N ≤ r') ∧
    (∀ h res ps, Fr N h0 h → N ≤ res → (∀ kv ∈ ps, kv.1 < N ∧ kv.2 < N) →
      Fr N h0 (copyPairs ω f h res ps).2 ∧ ∀ r', (copyPairs ω f h res ps).1 = some r' → N ≤ r')
  | 0 => ⟨fun h _ hf _ => by unfold copy; exact ⟨fr_bad hf, fun _ hr => by cases hr⟩,
          fun h _ _ hf _ _ => by unfold copyItems; exact ⟨fr_bad hf, fun _ hr => by cases hr⟩,
          fun h _ _ hf _ _ => by unfold copyChunks; exact ⟨fr_bad hf, fun _ hr => by cases hr⟩,
          fun h _ _ hf _ _ => by unfold copyPairs; exact ⟨fr_bad hf, fun _ hr => by cases hr⟩⟩
  | f+1 => by
    obtain ⟨ic, ii, ich, ip⟩ := copy_frame_all ω N h0 hold f
    refine ⟨?_, ?_, ?_, ?_⟩
    · intro h r hf hr
      unfold copy
      cases hg : h.get r with
      | none => exact ⟨fr_bad hf, fun _ hr => by cases hr⟩
      | some c =>
        have hg0 : h0.get r = some c := by rw [← hf.2.1 r hr]; exact hg
        have hch := hold r c hr hg0
        obtain ⟨n, rc⟩ := c
        cases n with
        | str t b => exact fr_new2 hf ω _ rfl
        | strI t chunks cap =>
          simp only
          have hn := fr_new2 hf ω (.strI t [] 0) rfl
          cases hnn : new2 ω h (.strI t [] 0) with
          | mk o h1 =>
            rw [hnn] at hn
            cases o with
            | none => exact ⟨hn.1, fun _ hr => by cases hr⟩
            | some res => exact ich h1 res chunks hn.1 (hn.2 res rfl) hch
        | arr d items alloc =>
          cases d with
          | true =>
            simp only [if_true]
            have hn := fr_newMulti hf ω 8 items.length (.arr true [] items.length) rfl
            cases hnn : newMulti ω h 8 items.length (.arr true [] items.length) with
            | mk o h1 =>
              rw [hnn] at hn
              cases o with
              | none => exact ⟨hn.1, fun _ hr => by cases hr⟩
              | some res => exact ii h1 res items hn.1 (hn.2 res rfl) hch
          | false =>
            simp only [Bool.false_eq_true, if_false]
            have hn := fr_new1 hf ω (.arr false [] 0) rfl
            cases hnn : new1 ω h (.arr false [] 0) with
            | mk o h1 =>
              rw [hnn] at hn
              cases o with
              | none => exact ⟨hn.1, fun _ hr => by cases hr⟩
              | some res => exact ii h1 res items hn.1 (hn.2 res rfl) hch
        | map d pairs alloc =>
          have hps : ∀ kv ∈ pairs, kv.1 < N ∧ kv.2 < N := by
            intro kv hkv
            constructor
            · exact hch kv.1 (by simp only [Node.children, List.mem_flatMap]; exact ⟨kv, hkv, by simp⟩)
            · exact hch kv.2 (by simp only [Node.children, List.mem_flatMap]; exact ⟨kv, hkv, by simp⟩)
          cases d with
          | true =>
            simp only [if_true]
            have hn := fr_newMulti hf ω 16 pairs.length (.map true [] pairs.length) rfl
            cases hnn : newMulti ω h 16 pairs.length (.map true [] pairs.length) with
            | mk o h1 =>
              rw [hnn] at hn
              cases o with
              | none => exact ⟨hn.1, fun _ hr => by cases hr⟩
              | some res => exact ip h1 res pairs hn.1 (hn.2 res rfl) hps
          | false =>
            simp only [Bool.false_eq_true, if_false]
            have hn := fr_new1 hf ω (.map false [] 0) rfl
            cases hnn : new1 ω h (.map false [] 0) with
            | mk o h1 =>
              rw [hnn] at hn
              cases o with
              | none => exact ⟨hn.1, fun _ hr => by cases hr⟩
              | some res => exact ip h1 res pairs hn.1 (hn.2 res rfl) hps
        | tag k o =>
          cases o with
          | none => exact ⟨fr_bad hf, fun _ hr => by cases hr⟩
          | some x =>
            simp only
            have hx := ic h x hf (hch x (by simp [Node.children]))
            cases hn : copy ω f h x with
            | mk o1 h1 =>
              rw [hn] at hx
              cases o1 with
              | none => exact ⟨hx.1, fun _ hr => by cases hr⟩
              | some xc =>
                simp only
                have hxc := hx.2 xc rfl
                have hb := fr_buildTag hx.1 ω k xc hxc
                cases hbt : buildTag ω h1 k xc with
                | mk o2 h2 =>
                  rw [hbt] at hb
                  cases o2 with
                  | none => exact ⟨fr_hdecref hb.1 xc hxc, fun _ hr => by cases hr⟩
                  | some t => exact ⟨fr_hdecref hb.1 xc hxc, fun r' hr' => by cases hr'; exact hb.2 t rfl⟩
        | int a b c => exact fr_new1 hf ω _ rfl
        | ctrl v => exact fr_new1 hf ω _ rfl
        | half v => exact fr_new1 hf ω _ rfl
        | single v => exact fr_new1 hf ω _ rfl
        | double v => exact fr_new1 hf ω _ rfl
    · intro h res xs hf hres hxs
      unfold copyItems
      cases xs with
      | nil => exact ⟨hf, fun r' hr' => by cases hr'; exact hres⟩
      | cons x xs =>
        simp only
        have hx := ic h x hf (hxs x (by simp))
        cases hn : copy ω f h x with
        | mk o h1 =>
          rw [hn] at hx
          cases o with
          | none => exact ⟨fr_hdecref hx.1 res hres, fun _ hr => by cases hr⟩
          | some e =>
            simp only
            have he := hx.2 e rfl
            have hp := fr_arrPush hx.1 ω res e hres he
            cases hpp : arrPush ω h1 res e with
            | mk ok h2 =>
              rw [hpp] at hp
              cases ok with
              | false => exact ⟨fr_hdecref (fr_hdecref hp e he) res hres, fun _ hr => by cases hr⟩
              | true => exact ii _ res xs (fr_hdecref hp e he) hres (fun y hy => hxs y (by simp [hy]))
    · intro h res xs hf hres hxs
      unfold copyChunks
      cases xs with
      | nil => exact ⟨hf, fun r' hr' => by cases hr'; exact hres⟩
      | cons x xs =>
        simp only
        have hx := ic h x hf (hxs x (by simp))
        cases hn : copy ω f h x with
        | mk o h1 =>
          rw [hn] at hx
          cases o with
          | none => exact ⟨fr_hdecref hx.1 res hres, fun _ hr => by cases hr⟩
          | some e =>
            simp only
            have he := hx.2 e rfl
            have hp := fr_addChunk hx.1 ω res e hres he
            cases hpp : addChunk ω h1 res e with
            | mk ok h2 =>
              rw [hpp] at hp
              cases ok with
              | false => exact ⟨fr_hdecref (fr_hdecref hp e he) res hres, fun _ hr => by cases hr⟩
              | true => exact ich _ res xs (fr_hdecref hp e he) hres (fun y hy => hxs y (by simp [hy]))
    · intro h res ps hf hres hps
      unfold copyPairs
      cases ps with
      | nil => exact ⟨hf, fun r' hr' => by cases hr'; exact hres⟩
      | cons kv ps =>
        obtain ⟨k, v⟩ := kv
        simp only
        have hkv := hps (k, v) (by simp)
        have hk := ic h k hf hkv.1
        cases hn : copy ω f h k with
        | mk o h1 =>
          rw [hn] at hk
          cases o with
          | none => exact ⟨fr_hdecref hk.1 res hres, fun _ hr => by cases hr⟩
          | some kc =>
            simp only
            have hkc := hk.2 kc rfl
            have hv := ic h1 v hk.1 hkv.2
            cases hn2 : copy ω f h1 v with
            | mk o2 h2 =>
              rw [hn2] at hv
              cases o2 with
              | none => exact ⟨fr_hdecref (fr_hdecref hv.1 res hres) kc hkc, fun _ hr => by cases hr⟩
              | some vc =>
                simp only
                have hvc := hv.2 vc rfl
                have hp := fr_mapAdd hv.1 ω res kc vc hres hkc hvc
                cases hpp : mapAdd ω h2 res kc vc with
                | mk ok h3 =>
                  rw [hpp] at hp
                  cases ok with
                  | false => exact ⟨fr_hdecref (fr_hdecref (fr_hdecref hp res hres) kc hkc) vc hvc, fun _ hr => by cases hr⟩
                  | true =>
                    exact ip _ res ps (fr_hdecref (fr_hdecref hp kc hkc) vc hvc) hres (fun y hy => hps y (by simp [hy]))

/-- **The source is untouched and the copy is new.**  For any heap without dangling references and any allocator
oracle, `cbor_copy` leaves every pre-existing item exactly as it was — contents *and* reference counts — whether it
succeeds or fails, and a successful copy's root is an item that did not exist before. -/
theorem copy_source_intact (ω : Oracle) (h : H) (r : Ref) (hr : r < h.cells.length)
    (hnd : ∀ p c, h.get p = some c → ∀ x ∈ c.node.children, x < h.cells.length) :
    (∀ x, x < h.cells.length → (h.copy ω r).2.get x = h.get x) ∧ (∀ r', (h.copy ω r).1 = some r' → h.cells.length ≤ r') := by
  have := (copy_frame_all ω h.cells.length h (fun p c _ hg => hnd p c hg) h.copyFuel).1 h r (Fr.refl h) hr
  exact ⟨this.1.2.1, this.2⟩

end Heap

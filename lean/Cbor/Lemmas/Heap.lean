import Cbor.Model.Client
import Cbor.Props.C20
/-! Basic facts about the heap model: cell access, reference-count updates, the growth rule. -/
namespace Heap

@[simp] theorem get_put_same (h : H) (r : Ref) (c : Option Cell) (hr : r < h.cells.length) : (h.put r c).get r = c := by
  simp [H.get, H.put, hr]

@[simp] theorem get_put_other (h : H) (r r' : Ref) (c : Option Cell) (hne : r' ≠ r) : (h.put r c).get r' = h.get r' := by
  simp [H.get, H.put, List.getElem?_set, Ne.symm hne]

theorem get_lt {h : H} {r : Ref} {c : Cell} (hg : h.get r = some c) : r < h.cells.length := by
  unfold H.get at hg
  cases hh : h.cells[r]? with
  | none => simp [hh] at hg
  | some v => exact (List.getElem?_eq_some_iff.mp hh).1

@[simp] theorem put_reqs (h : H) (r : Ref) (c : Option Cell) : (h.put r c).reqs = h.reqs := rfl
@[simp] theorem put_fault (h : H) (r : Ref) (c : Option Cell) : (h.put r c).fault = h.fault := rfl
@[simp] theorem put_length (h : H) (r : Ref) (c : Option Cell) : (h.put r c).cells.length = h.cells.length := by simp [H.put]

theorem incref_get_same (h : H) (r : Ref) (c : Cell) (hg : h.get r = some c) :
    (h.incref r).get r = some { c with rc := c.rc + 1 } := by
  simp [H.incref, hg, get_lt hg]

theorem incref_get_other (h : H) (r r' : Ref) (hne : r' ≠ r) : (h.incref r).get r' = h.get r' := by
  unfold H.incref
  split
  · simp [hne]
  · rfl

@[simp] theorem incref_reqs (h : H) (r : Ref) : (h.incref r).reqs = h.reqs := by
  unfold H.incref; split <;> rfl

theorem incref_fault (h : H) (r : Ref) (c : Cell) (hg : h.get r = some c) : (h.incref r).fault = h.fault := by
  simp [H.incref, hg]

/-- the guard the growth path evaluates is exact below 2^63 -/
theorem mulOk_small (a b : Nat) (h : a * b < 2 ^ 63) (ha : a < 2 ^ 64) (hb : b < 2 ^ 64) : mulOk a b = true := by
  unfold mulOk
  apply Props.C20.C20_mul_complete_half
  have e1 : (UInt64.ofNat a).toNat = a := by simp [UInt64.toNat_ofNat']; omega
  have e2 : (UInt64.ofNat b).toNat = b := by simp [UInt64.toNat_ofNat']; omega
  rw [e1, e2]; exact h

theorem mulOk_sound (a b : Nat) (ha : a < 2 ^ 64) (hb : b < 2 ^ 64) (h : mulOk a b = true) : a * b < 2 ^ 64 := by
  unfold mulOk at h
  have := Props.C20.C20_mul_sound _ _ h
  have e1 : (UInt64.ofNat a).toNat = a := by simp [UInt64.toNat_ofNat']; omega
  have e2 : (UInt64.ofNat b).toNat = b := by simp [UInt64.toNat_ofNat']; omega
  rw [e1, e2] at this; exact this

end Heap

namespace Heap

/-- what releasing references can do to a cell that survives: its node is untouched, its count does not grow -/
def Shrinks (h h' : H) : Prop :=
  h'.cells.length = h.cells.length ∧ h'.reqs = h.reqs ∧
  ∀ r c', h'.get r = some c' → ∃ c, h.get r = some c ∧ c'.node = c.node ∧ c'.rc ≤ c.rc

theorem Shrinks.refl (h : H) : Shrinks h h := ⟨rfl, rfl, fun _ c' hg => ⟨c', hg, rfl, Nat.le_refl _⟩⟩

theorem Shrinks.trans {a b c : H} (h1 : Shrinks a b) (h2 : Shrinks b c) : Shrinks a c :=
  ⟨h2.1.trans h1.1, h2.2.1.trans h1.2.1, fun r c' hg => by
    obtain ⟨c1, g1, n1, r1⟩ := h2.2.2 r c' hg
    obtain ⟨c0, g0, n0, r0⟩ := h1.2.2 r c1 g1
    exact ⟨c0, g0, n1.trans n0, Nat.le_trans r1 r0⟩⟩

theorem shrinks_bad (h : H) : Shrinks h h.bad := ⟨rfl, rfl, fun _ c' hg => ⟨c', hg, rfl, Nat.le_refl _⟩⟩

theorem shrinks_put_none (h : H) (r : Ref) : Shrinks h (h.put r none) :=
  ⟨by simp, rfl, fun r' c' hg => by
    by_cases e : r' = r
    · subst e
      by_cases hl : r' < h.cells.length
      · simp [hl] at hg
      · have : (h.put r' none).get r' = none := by
          simp [H.get, H.put, List.getElem?_set, hl]
        rw [this] at hg; cases hg
    · rw [get_put_other _ _ _ _ e] at hg; exact ⟨c', hg, rfl, Nat.le_refl _⟩⟩

theorem shrinks_put_dec (h : H) (r : Ref) (c : Cell) (hg : h.get r = some c) (k : Nat) (hk : k ≤ c.rc) :
    Shrinks h (h.put r (some { c with rc := k })) :=
  ⟨by simp, rfl, fun r' c' hg' => by
    by_cases e : r' = r
    · subst e
      rw [get_put_same _ _ _ (get_lt hg)] at hg'
      cases hg'
      exact ⟨c, hg, rfl, hk⟩
    · rw [get_put_other _ _ _ _ e] at hg'; exact ⟨c', hg', rfl, Nat.le_refl _⟩⟩

theorem foldl_shrinks (g : H → Ref → H) (hg : ∀ h r, Shrinks h (g h r)) (xs : List Ref) (h : H) :
    Shrinks h (xs.foldl g h) := by
  induction xs generalizing h with
  | nil => exact Shrinks.refl h
  | cons x xs ih => exact (hg h x).trans (ih (g h x))

theorem decref_shrinks : ∀ (f : Nat) (h : H) (r : Ref), Shrinks h (decref f h r)
  | 0, h, _ => shrinks_bad h
  | f+1, h, r => by
    unfold decref
    cases hg : h.get r with
    | none => exact shrinks_bad h
    | some c =>
      simp only
      split
      · exact shrinks_bad h
      · split
        · exact (shrinks_put_none h r).trans (foldl_shrinks _ (decref_shrinks f) _ _)
        · exact shrinks_put_dec h r c hg _ (by omega)

theorem H.decref_shrinks (h : H) (r : Ref) : Shrinks h (h.decref r) := Heap.decref_shrinks _ h r

end Heap

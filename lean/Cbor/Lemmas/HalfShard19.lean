import Cbor.Lemmas.Half
/-! shard 19 of the exhaustive binary16 table check (patterns 19456 .. 20479), kernel-evaluated -/
namespace Lemmas
theorem half_shard_19 : halfShardOk 19 = true := by decide +kernel
end Lemmas

import Cbor.Lemmas.Half
/-! shard 26 of the exhaustive binary16 table check (patterns 26624 .. 27647), kernel-evaluated -/
namespace Lemmas
theorem half_shard_26 : halfShardOk 26 = true := by decide +kernel
end Lemmas

import Cbor.Lemmas.Refine
import Cbor.Lemmas.Local
/-! Corollaries of `load_eq` used by the property files C02 / C05 / C14 / C19. -/
namespace Lemmas.LoadFacts
open Model Abs Spec Lemmas Lemmas.Refine Lemmas.Fund Lemmas.Local

/-- success of the model ⇔ the reference decoder accepts, with the same tree and byte count -/
theorem load_ok_iff (src : Array UInt8) (hsz : src.size < 2 ^ 56) (L : Nat) (r0 : LoadResult) (t : Item) (n : Nat) :
    ((Model.load ωT L r0 src).item = some t ∧ (Model.load ωT L r0 src).result.read = n) ↔
    Spec.decode true L okGuard (getOf src) src.size = .ok t n := by
  have h := load_eq src hsz L r0
  simp only at h
  cases hd : Spec.decode true L okGuard (getOf src) src.size with
  | ok x m =>
    rw [hd] at h
    obtain ⟨h1, h2, _⟩ := h
    rw [h1, h2]
    constructor
    · rintro ⟨a, b⟩; cases a; simp only at b; subst b; rfl
    · intro e; cases e; exact ⟨rfl, rfl⟩
  | nodata =>
    rw [hd] at h
    obtain ⟨h1, _, _⟩ := h
    rw [h1]; constructor
    · rintro ⟨a, _⟩; cases a
    · intro e; cases e
  | fail e p =>
    rw [hd] at h
    obtain ⟨h1, _, _⟩ := h
    rw [h1]; constructor
    · rintro ⟨a, _⟩; cases a
    · intro e; cases e

/-- acceptance by the reference decoder, as a run of the stack machine -/
theorem decode_ok_iff_run (L : Nat) (get : Nat → UInt8) (len : Nat) (t : Item) (n : Nat) :
    Spec.decode true L okGuard get len = .ok t n ↔ (len ≠ 0 ∧ run L okGuard get len (len + 1) [] 0 = .ok t n) := by
  rw [← abs_decode_eq (L := L) (okA := okGuard) (get := get) (len := len) rfl]
  unfold Abs.decode
  by_cases h0 : len = 0
  · simp [h0]
  · simp only [h0, if_false, ne_eq, not_false_eq_true, true_and]
    cases hr : run L okGuard get len (len + 1) [] 0 with
    | ok x q => simp
    | err e p => simp

theorem getOf_append_left (x y : Array UInt8) (i : Nat) (h : i < x.size) : getOf (x ++ y) i = getOf x i := by
  simp [getOf, Array.getD_eq_getD_getElem?, Array.getElem?_append_left h]

end Lemmas.LoadFacts

import Cbor.Lemmas.Half
/-! shard 11 of the exhaustive binary16 table check (patterns 11264 .. 12287), kernel-evaluated -/
namespace Lemmas
theorem half_shard_11 : halfShardOk 11 = true := by decide +kernel
end Lemmas

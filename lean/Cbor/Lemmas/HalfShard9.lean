import Cbor.Lemmas.Half
/-! shard 9 of the exhaustive binary16 table check (patterns 9216 .. 10239), kernel-evaluated -/
namespace Lemmas
theorem half_shard_9 : halfShardOk 9 = true := by decide +kernel
end Lemmas

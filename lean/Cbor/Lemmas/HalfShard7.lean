import Cbor.Lemmas.Half
/-! shard 7 of the exhaustive binary16 table check (patterns 7168 .. 8191), kernel-evaluated -/
namespace Lemmas
theorem half_shard_7 : halfShardOk 7 = true := by decide +kernel
end Lemmas

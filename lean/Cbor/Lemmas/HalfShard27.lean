import Cbor.Lemmas.Half
/-! shard 27 of the exhaustive binary16 table check (patterns 27648 .. 28671), kernel-evaluated -/
namespace Lemmas
theorem half_shard_27 : halfShardOk 27 = true := by decide +kernel
end Lemmas

/-!
Proof-side robustness kit for lemmas about the **generated** definitions (`Cbor.Gen.*`).

The generated text changes whenever the C source is rewritten, even when the rewrite preserves behaviour
(`n >= 1` / `n > 0` / `!(n < 1)`, `if (c) A else B` / `if (!c) B else A`, a hoisted sub-expression, `x >> 8` / `x / 256` …).
Leaf lemmas therefore never mention the shape of a generated term: they `unfold` it, split **every** `if`
(`repeat' split`), turn every branch condition into a fact about natural numbers (`cnorm`), and close the
branches with `omega` / structural comparison of the stores / `Nat` bit lemmas.
-/
namespace Lemmas

theorem pair_eq {α β} {a a' : α} {b b' : β} (h1 : a = a') (h2 : b = b') : (a, b) = (a', b') := by
  subst h1; subst h2; rfl

theorem set_eq {b b' : Array UInt8} {i i' : Nat} {x x' : UInt8} (hb : b = b') (hi : i = i') (hx : x = x') :
    b.setIfInBounds i x = b'.setIfInBounds i' x' := by
  subst hb; subst hi; subst hx; rfl

/-- Normalise branch conditions, whatever their spelling (`decide (a ≤ b)`, `!decide (a < b)`, `a != 0`, `a == b`,
`c₁ || c₂`, `≥`/`>`), in all hypotheses and the goal, to (in)equalities between natural numbers. -/
macro "cnorm" : tactic => `(tactic| (
  try simp only [decide_eq_true_eq, Bool.not_eq_true', decide_eq_false_iff_not, Bool.not_eq_true, bne_iff_ne, beq_iff_eq, ne_eq,
    ge_iff_le, gt_iff_lt, Bool.or_eq_true, Bool.and_eq_true, Bool.not_eq_eq_eq_not, Bool.not_true, Bool.not_false,
    Bool.or_eq_false_iff, Bool.and_eq_false_imp, beq_eq_false_iff_ne, bne_eq_false_iff_eq, not_or, not_and, Decidable.not_not,
    UInt64.le_iff_toNat_le, UInt64.lt_iff_toNat_lt, ← UInt64.toNat_inj,
    UInt32.le_iff_toNat_le, UInt32.lt_iff_toNat_lt, ← UInt32.toNat_inj,
    UInt16.le_iff_toNat_le, UInt16.lt_iff_toNat_lt, ← UInt16.toNat_inj,
    UInt8.le_iff_toNat_le, UInt8.lt_iff_toNat_lt, ← UInt8.toNat_inj,
    UInt64.toNat_ofNat, UInt64.reduceToNat, UInt32.toNat_ofNat, UInt32.reduceToNat,
    UInt16.toNat_ofNat, UInt16.reduceToNat, UInt8.toNat_ofNat, UInt8.reduceToNat,
    Nat.not_le, Nat.not_lt, Int.not_le, Int.not_lt, List.length_cons, List.length_nil,
    Nat.reducePow, Nat.reduceMod, Nat.reduceAdd] at *))

/-- Compare two results `(count, buffer after a chain of single-byte stores)` component by component,
leaving one goal per count / index / stored byte that is not syntactically equal. -/
macro "stores_eq" : tactic => `(tactic| (
  repeat' (first | (with_reducible rfl) | (with_reducible apply pair_eq) | (with_reducible apply set_eq))))

/-! ### bit operations as arithmetic -/

/-- `A | B = A + B` when the set bits cannot overlap: `A` is a multiple of `2^k` and `B < 2^k` -/
theorem or_eq_add (k : Nat) (A B : Nat) (hA : 2 ^ k ∣ A) (hB : B < 2 ^ k) : A ||| B = A + B := by
  obtain ⟨a, rfl⟩ := hA
  rw [Nat.mul_comm, ← Nat.shiftLeft_eq, Nat.shiftLeft_add_eq_or_of_lt hB]
theorem or_add8 (A B : Nat) (hA : 256 ∣ A) (hB : B < 256) : A ||| B = A + B := or_eq_add 8 A B hA hB
theorem or_add16 (A B : Nat) (hA : 65536 ∣ A) (hB : B < 65536) : A ||| B = A + B := or_eq_add 16 A B hA hB
theorem or_add24 (A B : Nat) (hA : 16777216 ∣ A) (hB : B < 16777216) : A ||| B = A + B := or_eq_add 24 A B hA hB
theorem or_add32 (A B : Nat) (hA : 4294967296 ∣ A) (hB : B < 4294967296) : A ||| B = A + B := or_eq_add 32 A B hA hB
theorem or_add40 (A B : Nat) (hA : 1099511627776 ∣ A) (hB : B < 1099511627776) : A ||| B = A + B := or_eq_add 40 A B hA hB
theorem or_add48 (A B : Nat) (hA : 281474976710656 ∣ A) (hB : B < 281474976710656) : A ||| B = A + B := or_eq_add 48 A B hA hB
theorem or_add56 (A B : Nat) (hA : 72057594037927936 ∣ A) (hB : B < 72057594037927936) : A ||| B = A + B := or_eq_add 56 A B hA hB

/-- `x & (2^k - 1) = x mod 2^k`, for the masks that occur in byte/bit-field code, in both operand orders -/
theorem and_mask (k x : Nat) : x &&& (2 ^ k - 1) = x % 2 ^ k := Nat.and_two_pow_sub_one_eq_mod x k
theorem mask_and (k x : Nat) : (2 ^ k - 1) &&& x = x % 2 ^ k := by rw [Nat.and_comm]; exact and_mask k x
theorem and_1 (x : Nat) : x &&& 1 = x % 2 := and_mask 1 x
theorem and_3 (x : Nat) : x &&& 3 = x % 4 := and_mask 2 x
theorem and_7 (x : Nat) : x &&& 7 = x % 8 := and_mask 3 x
theorem and_15 (x : Nat) : x &&& 15 = x % 16 := and_mask 4 x
theorem and_31 (x : Nat) : x &&& 31 = x % 32 := and_mask 5 x
theorem and_63 (x : Nat) : x &&& 63 = x % 64 := and_mask 6 x
theorem and_127 (x : Nat) : x &&& 127 = x % 128 := and_mask 7 x
theorem and_255 (x : Nat) : x &&& 255 = x % 256 := and_mask 8 x
theorem and_65535 (x : Nat) : x &&& 65535 = x % 65536 := and_mask 16 x
theorem and_4294967295 (x : Nat) : x &&& 4294967295 = x % 4294967296 := and_mask 32 x
theorem and_1' (x : Nat) : 1 &&& x = x % 2 := mask_and 1 x
theorem and_3' (x : Nat) : 3 &&& x = x % 4 := mask_and 2 x
theorem and_7' (x : Nat) : 7 &&& x = x % 8 := mask_and 3 x
theorem and_15' (x : Nat) : 15 &&& x = x % 16 := mask_and 4 x
theorem and_31' (x : Nat) : 31 &&& x = x % 32 := mask_and 5 x
theorem and_63' (x : Nat) : 63 &&& x = x % 64 := mask_and 6 x
theorem and_127' (x : Nat) : 127 &&& x = x % 128 := mask_and 7 x
theorem and_255' (x : Nat) : 255 &&& x = x % 256 := mask_and 8 x
theorem and_65535' (x : Nat) : 65535 &&& x = x % 65536 := mask_and 16 x
theorem and_4294967295' (x : Nat) : 4294967295 &&& x = x % 4294967296 := mask_and 32 x

/-- `A | B = A + B` also with the small operand on the left -/
theorem or_add8' (A B : Nat) (hA : 256 ∣ A) (hB : B < 256) : B ||| A = A + B := by rw [Nat.or_comm]; exact or_add8 A B hA hB
theorem or_add16' (A B : Nat) (hA : 65536 ∣ A) (hB : B < 65536) : B ||| A = A + B := by rw [Nat.or_comm]; exact or_add16 A B hA hB
theorem or_add24' (A B : Nat) (hA : 16777216 ∣ A) (hB : B < 16777216) : B ||| A = A + B := by rw [Nat.or_comm]; exact or_add24 A B hA hB
theorem or_add32' (A B : Nat) (hA : 4294967296 ∣ A) (hB : B < 4294967296) : B ||| A = A + B := by rw [Nat.or_comm]; exact or_add32 A B hA hB
theorem or_add40' (A B : Nat) (hA : 1099511627776 ∣ A) (hB : B < 1099511627776) : B ||| A = A + B := by rw [Nat.or_comm]; exact or_add40 A B hA hB
theorem or_add48' (A B : Nat) (hA : 281474976710656 ∣ A) (hB : B < 281474976710656) : B ||| A = A + B := by rw [Nat.or_comm]; exact or_add48 A B hA hB
theorem or_add56' (A B : Nat) (hA : 72057594037927936 ∣ A) (hB : B < 72057594037927936) : B ||| A = A + B := by rw [Nat.or_comm]; exact or_add56 A B hA hB

/-- After pushing a fixed-width expression to `Nat`: drop every `% m` that `omega` can show to be vacuous and turn
every `A ||| B` with provably disjoint bits (byte-aligned) into `A + B`, so that `omega` can finish.  Handles
`(b0 << 8) | b1`, `(b0 << 8) + b1`, and mixtures alike. -/
macro "bits_to_arith" : tactic => `(tactic| (
  try simp (disch := omega) only [Nat.mod_eq_of_lt, Nat.shiftLeft_eq, Nat.shiftRight_eq_div_pow,
    or_add8, or_add16, or_add24, or_add32, or_add40, or_add48, or_add56,
    or_add8', or_add16', or_add24', or_add32', or_add40', or_add48', or_add56',
    and_1, and_3, and_7, and_15, and_31, and_63, and_127, and_255, and_65535, and_4294967295,
    and_1', and_3', and_7', and_15', and_31', and_63', and_127', and_255', and_65535', and_4294967295'] at *))

end Lemmas

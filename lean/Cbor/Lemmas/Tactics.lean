/-!
Proof-side robustness kit for lemmas about the **generated** definitions (`Cbor.Gen.*`).

The generated text changes whenever the C source is rewritten, even when the rewrite preserves behaviour
(`n >= 1` / `n > 0` / `!(n < 1)`, `if (c) A else B` / `if (!c) B else A`, a hoisted sub-expression, `x >> 8` / `x / 256` …).
Leaf lemmas therefore never mention the shape of a generated term: they `unfold` it, split **every** `if`
(`repeat' split`), turn every branch condition into a fact about natural numbers (`cnorm`), and close the
branches with `omega` / structural comparison of the stores / `Nat` bit lemmas.
-/
namespace Lemmas

theorem pair_eq {α β} {a a' : α} {b b' : β} (h1 : a = a') (h2 : b = b') : (a, b) = (a', b') := by
  subst h1; subst h2; rfl

theorem set_eq {b b' : Array UInt8} {i i' : Nat} {x x' : UInt8} (hb : b = b') (hi : i = i') (hx : x = x') :
    b.setIfInBounds i x = b'.setIfInBounds i' x' := by
  subst hb; subst hi; subst hx; rfl

/-- Normalise branch conditions, whatever their spelling (`decide (a ≤ b)`, `!decide (a < b)`, `a != 0`, `a == b`,
`c₁ || c₂`, `≥`/`>`), in all hypotheses and the goal, to (in)equalities between natural numbers. -/
macro "cnorm" : tactic => `(tactic| (
  try simp only [decide_eq_true_eq, Bool.not_eq_true', decide_eq_false_iff_not, Bool.not_eq_true, bne_iff_ne, beq_iff_eq, ne_eq,
    ge_iff_le, gt_iff_lt, Bool.or_eq_true, Bool.and_eq_true, Bool.not_eq_eq_eq_not, Bool.not_true, Bool.not_false,
    Bool.or_eq_false_iff, Bool.and_eq_false_imp, beq_eq_false_iff_ne, bne_eq_false_iff_eq, not_or, not_and, Decidable.not_not,
    UInt64.le_iff_toNat_le, UInt64.lt_iff_toNat_lt, ← UInt64.toNat_inj,
    UInt32.le_iff_toNat_le, UInt32.lt_iff_toNat_lt, ← UInt32.toNat_inj,
    UInt16.le_iff_toNat_le, UInt16.lt_iff_toNat_lt, ← UInt16.toNat_inj,
    UInt8.le_iff_toNat_le, UInt8.lt_iff_toNat_lt, ← UInt8.toNat_inj,
    UInt64.toNat_ofNat, UInt64.reduceToNat, UInt32.toNat_ofNat, UInt32.reduceToNat,
    UInt16.toNat_ofNat, UInt16.reduceToNat, UInt8.toNat_ofNat, UInt8.reduceToNat,
    Nat.not_le, Nat.not_lt, Int.not_le, Int.not_lt, List.length_cons, List.length_nil,
    Nat.reducePow, Nat.reduceMod, Nat.reduceAdd] at *))

/-- Compare two results `(count, buffer after a chain of single-byte stores)` component by component,
leaving one goal per count / index / stored byte that is not syntactically equal. -/
macro "stores_eq" : tactic => `(tactic| (
  repeat' (first | (with_reducible rfl) | (with_reducible apply pair_eq) | (with_reducible apply set_eq))))

/-! ### bit operations as arithmetic -/

/-- `A | B = A + B` when the set bits cannot overlap: `A` is a multiple of `2^k` and `B < 2^k` -/
theorem or_eq_add (k : Nat) (A B : Nat) (hA : 2 ^ k ∣ A) (hB : B < 2 ^ k) : A ||| B = A + B := by
  obtain ⟨a, rfl⟩ := hA
  rw [Nat.mul_comm, ← Nat.shiftLeft_eq, Nat.shiftLeft_add_eq_or_of_lt hB]
theorem or_add8 (A B : Nat) (hA : 256 ∣ A) (hB : B < 256) : A ||| B = A + B := or_eq_add 8 A B hA hB
theorem or_add16 (A B : Nat) (hA : 65536 ∣ A) (hB : B < 65536) : A ||| B = A + B := or_eq_add 16 A B hA hB
theorem or_add24 (A B : Nat) (hA : 16777216 ∣ A) (hB : B < 16777216) : A ||| B = A + B := or_eq_add 24 A B hA hB
theorem or_add32 (A B : Nat) (hA : 4294967296 ∣ A) (hB : B < 4294967296) : A ||| B = A + B := or_eq_add 32 A B hA hB
theorem or_add40 (A B : Nat) (hA : 1099511627776 ∣ A) (hB : B < 1099511627776) : A ||| B = A + B := or_eq_add 40 A B hA hB
theorem or_add48 (A B : Nat) (hA : 281474976710656 ∣ A) (hB : B < 281474976710656) : A ||| B = A + B := or_eq_add 48 A B hA hB
theorem or_add56 (A B : Nat) (hA : 72057594037927936 ∣ A) (hB : B < 72057594037927936) : A ||| B = A + B := or_eq_add 56 A B hA hB

/-- After pushing a fixed-width expression to `Nat`: drop every `% m` that `omega` can show to be vacuous and turn
every `A ||| B` with provably disjoint bits (byte-aligned) into `A + B`, so that `omega` can finish.  Handles
`(b0 << 8) | b1`, `(b0 << 8) + b1`, and mixtures alike. -/
macro "bits_to_arith" : tactic => `(tactic| (
  try simp (disch := omega) only [Nat.mod_eq_of_lt, Nat.shiftLeft_eq, Nat.shiftRight_eq_div_pow,
    or_add8, or_add16, or_add24, or_add32, or_add40, or_add48, or_add56] at *))

end Lemmas

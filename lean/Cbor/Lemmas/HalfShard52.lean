import Cbor.Lemmas.Half
/-! shard 52 of the exhaustive binary16 table check (patterns 53248 .. 54271), kernel-evaluated -/
namespace Lemmas
theorem half_shard_52 : halfShardOk 52 = true := by decide +kernel
end Lemmas

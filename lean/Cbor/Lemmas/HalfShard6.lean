import Cbor.Lemmas.Half
/-! shard 6 of the exhaustive binary16 table check (patterns 6144 .. 7167), kernel-evaluated -/
namespace Lemmas
theorem half_shard_6 : halfShardOk 6 = true := by decide +kernel
end Lemmas

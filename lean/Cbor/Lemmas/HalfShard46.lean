import Cbor.Lemmas.Half
/-! shard 46 of the exhaustive binary16 table check (patterns 47104 .. 48127), kernel-evaluated -/
namespace Lemmas
theorem half_shard_46 : halfShardOk 46 = true := by decide +kernel
end Lemmas

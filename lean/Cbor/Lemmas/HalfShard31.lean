import Cbor.Lemmas.Half
/-! shard 31 of the exhaustive binary16 table check (patterns 31744 .. 32767), kernel-evaluated -/
namespace Lemmas
theorem half_shard_31 : halfShardOk 31 = true := by decide +kernel
end Lemmas

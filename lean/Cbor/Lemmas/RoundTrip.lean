import Cbor.Spec.RoundTrip
import Cbor.Lemmas.Refine
import Cbor.Lemmas.Ser
/-! Round trip through the model: `Model.load` of the bytes `Model.serialize` writes gives the tree back. -/
namespace Lemmas.RoundTrip
open Spec Spec.RT Model Lemmas

/-- libcbor's overflow guard grants every slot array of fewer than 2^56 members -/
theorem okAll_guard : OkAll Lemmas.Refine.okGuard := by
  intro tok hs
  cases tok <;> simp [Lemmas.Refine.okGuard, Small] at hs ⊢
  · exact Lemmas.Refine.mul_guard 8 _ (by omega) (by omega) (by omega)
  · exact Lemmas.Refine.mul_guard 16 _ (by omega) (by omega) (by omega)

theorem canonHalf_idem (h : Nat) : Spec.Float.canonHalf (Spec.Float.canonHalf h) = Spec.Float.canonHalf h := by
  unfold Spec.Float.canonHalf
  by_cases c : Spec.Float.isNaN 5 10 h = true
  · simp only [c, if_true]; decide
  · simp [c]

theorem canonHalf_lt (h : Nat) (hh : h < 65536) : Spec.Float.canonHalf h < 65536 := by
  unfold Spec.Float.canonHalf; split <;> omega

theorem canonSingle_idem (b : Nat) : Spec.Float.canonSingle (Spec.Float.canonSingle b) = Spec.Float.canonSingle b := by
  unfold Spec.Float.canonSingle
  by_cases c : Spec.Float.isNaN 8 23 b = true
  · simp only [c, if_true]; decide
  · simp [c]

theorem canonDouble_idem (b : Nat) : Spec.Float.canonDouble (Spec.Float.canonDouble b) = Spec.Float.canonDouble b := by
  unfold Spec.Float.canonDouble
  by_cases c : Spec.Float.isNaN 11 52 b = true
  · simp only [c, if_true]; decide
  · simp [c]

/-- a half item holding a half-representable value (what `Lemmas.Ser.Valid` demands) re-encodes to the same two bytes after a round trip -/
theorem half_stable (f : Nat) (hv : ∃ h, h < 65536 ∧ f = (Ext.decodeHalfBits h).toNat) :
    Spec.Float.singleToHalf f < 65536 ∧ Spec.Float.singleToHalf (halfToSingle (Spec.Float.singleToHalf f)) = Spec.Float.singleToHalf f := by
  obtain ⟨h, hh, rfl⟩ := hv
  rw [singleToHalf_decode h hh]
  have hc := canonHalf_lt h hh
  refine ⟨hc, ?_⟩
  rw [← decodeHalf_spec _ hc, singleToHalf_decode _ hc, canonHalf_idem]

mutual
/-- **Re-serialization is identical**: the tree a round trip yields has the same encoding as the original -/
theorem encode_renorm : ∀ t : Item, Lemmas.Ser.Valid t → encode (renorm t) = encode t
  | .uint _ _, _ => rfl
  | .negint _ _, _ => rfl
  | .bytes _, _ => rfl
  | .text _, _ => rfl
  | .bytesI _, _ => rfl
  | .textI _, _ => rfl
  | .array xs, hv => by
    simp only [Lemmas.Ser.Valid] at hv
    simp only [renorm, encode, encodeList_renorm xs hv, renormL_length]
  | .arrayI xs, hv => by
    simp only [Lemmas.Ser.Valid] at hv
    simp only [renorm, encode, encodeList_renorm xs hv]
  | .map kvs, hv => by
    simp only [Lemmas.Ser.Valid] at hv
    simp only [renorm, encode, encodePairs_renorm kvs hv, renormP_length]
  | .mapI kvs, hv => by
    simp only [Lemmas.Ser.Valid] at hv
    simp only [renorm, encode, encodePairs_renorm kvs hv]
  | .tag n x, hv => by
    simp only [Lemmas.Ser.Valid] at hv
    simp only [renorm, encode, encode_renorm x hv.2]
  | .simple _, _ => rfl
  | .half f, hv => by
    simp only [Lemmas.Ser.Valid] at hv
    simp only [renorm, encode, (half_stable f hv).2]
  | .single b, _ => by simp only [renorm, encode, canonSingle_idem]
  | .double b, _ => by simp only [renorm, encode, canonDouble_idem]
theorem encodeList_renorm : ∀ xs : List Item, Lemmas.Ser.ValidL xs → encodeList (renormL xs) = encodeList xs
  | [], _ => rfl
  | x :: xs, hv => by
    simp only [Lemmas.Ser.ValidL] at hv
    simp only [renormL, encodeList, encode_renorm x hv.1, encodeList_renorm xs hv.2]
theorem encodePairs_renorm : ∀ kvs : List (Item × Item), Lemmas.Ser.ValidP kvs → encodePairs (renormP kvs) = encodePairs kvs
  | [], _ => rfl
  | (k, v) :: r, hv => by
    simp only [Lemmas.Ser.ValidP] at hv
    simp only [renormP, encodePairs, encode_renorm k hv.1, encode_renorm v hv.2.1, encodePairs_renorm r hv.2.2]
theorem renormL_length : ∀ xs : List Item, (renormL xs).length = xs.length
  | [] => rfl
  | _ :: xs => by simp [renormL, renormL_length xs]
theorem renormP_length : ∀ kvs : List (Item × Item), (renormP kvs).length = kvs.length
  | [] => rfl
  | (_, _) :: r => by simp [renormP, renormP_length r]
end

theorem at_toArray (bs : List UInt8) : At (Lemmas.Refine.getOf bs.toArray) 0 bs := by
  intro i hi
  simp [Lemmas.Refine.getOf, hi]

end Lemmas.RoundTrip

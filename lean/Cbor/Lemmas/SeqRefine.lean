import Cbor.Props.C12
import Cbor.Lemmas.CountsOps
/-!
# C12 for arbitrary operation sequences: containers refine abstract sequences

`Props/C12.lean` proves what a *single* push / set / replace / get / add-pair / add-chunk does.  Here the
step is made from single operations to **every sequence of operations**:

* `AbsSeq α` is an abstract bounded (definite) or unbounded (indefinite) list with a capacity and a count of
  allocator requests; `AbsSeq.push` is its only way to get longer.
* `AOp`, `ARes`, `runArr` / `AbsSeq.runArr` are the array operation language, the concrete run on the heap model
  (`arrPush`, `arrSet`, `arrReplace`, `arrGet`) and the abstract run; `runArr_refines_aux` says that they agree on every
  result and on the final contents, capacity and request count, for every oracle and every operation list.
* `runMap` / `runChunks` and `runMap_refines_aux` / `runChunks_refines_aux`: the same for `mapAdd` and `addChunk`.
* `AbsSeq.Geometric`: with an allocator that grants everything, an indefinite container that starts empty has,
  after any sequence, capacity `capFor n` and has made `reallocs n` requests, `n` its final size.
* The user-facing statements `C12_array_sequences`, `C12_array_size_le_cap_every_step`, `C12_array_definite_pushes`,
  `C12_array_refused_untouched`, `C12_map_sequences`, `C12_map_definite_adds`, `C12_chunk_sequences`,
  `C12_array_growth_sequences`, `C12_map_growth_sequences`, `C12_chunk_growth_sequences` are at the end.
-/
namespace Props.C12
open Heap

/-! ## the abstract machine -/

/-- an abstract container: a list with a capacity.  `definite` ones never grow; indefinite ones grow by the
doubling rule when the allocator (the oracle, asked request number `reqs`) grants it. -/
structure AbsSeq (α : Type) where
  definite : Bool
  cap : Nat
  items : List α
  /-- allocator requests made so far = index of the next request put to the oracle -/
  reqs : Nat

namespace AbsSeq
variable {α : Type}

/-- append `x` if there is room, or — indefinite only — if the allocator grants the doubled capacity -/
def push (ω : Oracle) (s : AbsSeq α) (x : α) : AbsSeq α × Bool :=
  if s.items.length < s.cap then ({ s with items := s.items ++ [x] }, true)
  else if s.definite then (s, false)
  else if ω s.reqs then ({ s with items := s.items ++ [x], cap := growTo s.cap, reqs := s.reqs + 1 }, true)
  else ({ s with reqs := s.reqs + 1 }, false)

/-- overwrite position `i`, refused beyond the end -/
def replace (s : AbsSeq α) (i : Nat) (x : α) : AbsSeq α × Bool :=
  if i < s.items.length then ({ s with items := s.items.set i x }, true) else (s, false)

/-- push a list of elements one after the other, collecting the answers -/
def pushAll (ω : Oracle) (s : AbsSeq α) : List α → AbsSeq α × List Bool
  | [] => (s, [])
  | x :: xs => let r := s.push ω x; let rs := pushAll ω r.1 xs; (rs.1, r.2 :: rs.2)

/-- same container, possibly after some refused requests: kind, capacity and contents agree -/
def Same (s t : AbsSeq α) : Prop := t.definite = s.definite ∧ t.cap = s.cap ∧ t.items = s.items

theorem growTo_gt (c : Nat) : c < growTo c := by unfold growTo; split <;> omega

theorem push_definite_eq (ω : Oracle) (s : AbsSeq α) (x : α) : (s.push ω x).1.definite = s.definite := by
  unfold push; repeat' split
  all_goals rfl

/-- **size never exceeds capacity** -/
theorem push_le_cap (ω : Oracle) (s : AbsSeq α) (x : α) (h : s.items.length ≤ s.cap) :
    (s.push ω x).1.items.length ≤ (s.push ω x).1.cap := by
  unfold push; repeat' split
  all_goals simp only [List.length_append, List.length_singleton]
  all_goals first | omega | (have := growTo_gt s.cap; omega)

theorem push_length_le (ω : Oracle) (s : AbsSeq α) (x : α) : (s.push ω x).1.items.length ≤ s.items.length + 1 := by
  unfold push; repeat' split
  all_goals simp only [List.length_append, List.length_singleton]
  all_goals omega

/-- a push is accepted exactly when there is room or (indefinite) the growth is granted; then it appends -/
theorem push_ok_iff (ω : Oracle) (s : AbsSeq α) (x : α) :
    (s.push ω x).2 = true ↔ (s.items.length < s.cap ∨ (s.definite = false ∧ ω s.reqs = true)) := by
  unfold push; repeat' split
  all_goals simp_all

theorem push_ok_items (ω : Oracle) (s : AbsSeq α) (x : α) (h : (s.push ω x).2 = true) :
    (s.push ω x).1.items = s.items ++ [x] := by
  unfold push at h ⊢; repeat' split
  all_goals simp_all

/-- **a refused push changes nothing** (but the request count) -/
theorem push_refused (ω : Oracle) (s : AbsSeq α) (x : α) (h : (s.push ω x).2 = false) : Same s (s.push ω x).1 := by
  unfold push at h ⊢; repeat' split
  all_goals simp_all [Same]

/-- **definite containers never reallocate**: capacity and request count are fixed, and a push is accepted
exactly when `size < cap` -/
theorem push_definite (ω : Oracle) (s : AbsSeq α) (x : α) (hd : s.definite = true) :
    (s.push ω x).1.cap = s.cap ∧ (s.push ω x).1.reqs = s.reqs ∧ ((s.push ω x).2 = true ↔ s.items.length < s.cap) := by
  unfold push; repeat' split
  all_goals simp_all

theorem replace_definite_eq (s : AbsSeq α) (i : Nat) (x : α) : (s.replace i x).1.definite = s.definite := by
  unfold replace; split <;> rfl
theorem replace_cap (s : AbsSeq α) (i : Nat) (x : α) : (s.replace i x).1.cap = s.cap := by
  unfold replace; split <;> rfl
theorem replace_reqs (s : AbsSeq α) (i : Nat) (x : α) : (s.replace i x).1.reqs = s.reqs := by
  unfold replace; split <;> rfl
theorem replace_length (s : AbsSeq α) (i : Nat) (x : α) : (s.replace i x).1.items.length = s.items.length := by
  unfold replace; split <;> simp
theorem replace_refused (s : AbsSeq α) (i : Nat) (x : α) (h : (s.replace i x).2 = false) : (s.replace i x).1 = s := by
  unfold replace at h ⊢; split <;> simp_all

end AbsSeq

/-! ## arrays: the operation language, the abstract run, the concrete run -/

inductive AOp
  | push (x : Ref)
  | set (i : Nat) (x : Ref)
  | replace (i : Nat) (x : Ref)
  | get (i : Nat)
deriving Repr, DecidableEq

inductive ARes
  | ok
  | refused
  | item (x : Ref)
  | null
deriving Repr, DecidableEq

def ARes.ofBool : Bool → ARes
  | true => .ok
  | false => .refused

def ARes.ofOption : Option Ref → ARes
  | some x => .item x
  | none => .null

/-- the reference an operation hands to the array -/
def AOp.operand : AOp → Option Ref
  | .push x => some x
  | .set _ x => some x
  | .replace _ x => some x
  | .get _ => none

/-- the references the client received from `get`s (each is a new reference the client now owns) -/
def gotten : List ARes → List Ref
  | [] => []
  | .item x :: rs => x :: gotten rs
  | _ :: rs => gotten rs

abbrev AbsArr := AbsSeq Ref

/-- one operation on the abstract list: `set` at `size` is a push, below it a replace, beyond it refused;
`get` reads `items[i]` or answers null -/
def AbsSeq.stepArr (ω : Oracle) (s : AbsArr) : AOp → AbsArr × ARes
  | .push x => let r := s.push ω x; (r.1, .ofBool r.2)
  | .set i x => let r := (if i = s.items.length then s.push ω x else s.replace i x); (r.1, .ofBool r.2)
  | .replace i x => let r := s.replace i x; (r.1, .ofBool r.2)
  | .get i => (s, .ofOption s.items[i]?)

def AbsSeq.runArr (ω : Oracle) (s : AbsArr) : List AOp → AbsArr × List ARes
  | [] => (s, [])
  | op :: ops => let r := s.stepArr ω op; let rs := AbsSeq.runArr ω r.1 ops; (rs.1, r.2 :: rs.2)

/-- one operation on the array at `a` in the heap model -/
def stepArr (ω : Oracle) (h : H) (a : Ref) : AOp → H × ARes
  | .push x => let r := arrPush ω h a x; (r.2, .ofBool r.1)
  | .set i x => let r := arrSet ω h a i x; (r.2, .ofBool r.1)
  | .replace i x => let r := arrReplace h a i x; (r.2, .ofBool r.1)
  | .get i => let r := arrGet h a i; (r.2, .ofOption r.1)

def runArr (ω : Oracle) (h : H) (a : Ref) : List AOp → H × List ARes
  | [] => (h, [])
  | op :: ops => let r := stepArr ω h a op; let rs := runArr ω r.1 a ops; (rs.1, r.2 :: rs.2)

namespace AbsSeq

theorem stepArr_definite_eq (ω : Oracle) (s : AbsArr) (op : AOp) : (s.stepArr ω op).1.definite = s.definite := by
  cases op <;> simp only [stepArr]
  · exact push_definite_eq ω s _
  · split
    · exact push_definite_eq ω s _
    · exact replace_definite_eq s _ _
  · exact replace_definite_eq s _ _

theorem stepArr_le_cap (ω : Oracle) (s : AbsArr) (op : AOp) (h : s.items.length ≤ s.cap) :
    (s.stepArr ω op).1.items.length ≤ (s.stepArr ω op).1.cap := by
  cases op <;> simp only [stepArr]
  · exact push_le_cap ω s _ h
  · split
    · exact push_le_cap ω s _ h
    · rw [replace_length, replace_cap]; exact h
  · rw [replace_length, replace_cap]; exact h
  · exact h

theorem stepArr_length_le (ω : Oracle) (s : AbsArr) (op : AOp) : (s.stepArr ω op).1.items.length ≤ s.items.length + 1 := by
  cases op <;> simp only [stepArr]
  · exact push_length_le ω s _
  · split
    · exact push_length_le ω s _
    · rw [replace_length]; omega
  · rw [replace_length]; omega
  · omega

/-- **a refused operation and a null read change nothing** -/
theorem stepArr_refused (ω : Oracle) (s : AbsArr) (op : AOp)
    (h : (s.stepArr ω op).2 = .refused ∨ (s.stepArr ω op).2 = .null) : Same s (s.stepArr ω op).1 := by
  have ob : ∀ b, (ARes.ofBool b = .refused ∨ ARes.ofBool b = .null) → b = false := by
    intro b hb; cases b <;> simp [ARes.ofBool] at hb ⊢
  have hs : Same s s := ⟨rfl, rfl, rfl⟩
  cases op <;> simp only [stepArr] at h ⊢
  · exact push_refused ω s _ (ob _ h)
  · split
    · rename_i e; rw [if_pos e] at h; exact push_refused ω s _ (ob _ h)
    · rename_i e; rw [if_neg e] at h; rw [replace_refused s _ _ (ob _ h)]; exact hs
  · rw [replace_refused s _ _ (ob _ h)]; exact hs
  · exact hs

/-- **a definite array never reallocates** -/
theorem stepArr_definite (ω : Oracle) (s : AbsArr) (op : AOp) (hd : s.definite = true) :
    (s.stepArr ω op).1.cap = s.cap ∧ (s.stepArr ω op).1.reqs = s.reqs := by
  cases op <;> simp only [stepArr]
  · exact ⟨(push_definite ω s _ hd).1, (push_definite ω s _ hd).2.1⟩
  · split
    · exact ⟨(push_definite ω s _ hd).1, (push_definite ω s _ hd).2.1⟩
    · exact ⟨replace_cap s _ _, replace_reqs s _ _⟩
  · exact ⟨replace_cap s _ _, replace_reqs s _ _⟩
  · exact ⟨trivial, trivial⟩

theorem runArr_le_cap (ω : Oracle) : ∀ (ops : List AOp) (s : AbsArr), s.items.length ≤ s.cap →
    (s.runArr ω ops).1.items.length ≤ (s.runArr ω ops).1.cap
  | [], _, h => h
  | op :: ops, s, h => runArr_le_cap ω ops _ (stepArr_le_cap ω s op h)

theorem runArr_length_le (ω : Oracle) : ∀ (ops : List AOp) (s : AbsArr),
    (s.runArr ω ops).1.items.length ≤ s.items.length + ops.length
  | [], _ => Nat.le_refl _
  | op :: ops, s => by
    have h1 := runArr_length_le ω ops (s.stepArr ω op).1
    have h2 := stepArr_length_le ω s op
    simp only [runArr, List.length_cons]; omega

theorem runArr_definite (ω : Oracle) : ∀ (ops : List AOp) (s : AbsArr), s.definite = true →
    (s.runArr ω ops).1.definite = true ∧ (s.runArr ω ops).1.cap = s.cap ∧ (s.runArr ω ops).1.reqs = s.reqs
  | [], _, h => ⟨h, rfl, rfl⟩
  | op :: ops, s, h => by
    have h1 := runArr_definite ω ops (s.stepArr ω op).1 ((stepArr_definite_eq ω s op).trans h)
    have h2 := stepArr_definite ω s op h
    simp only [runArr]
    exact ⟨h1.1, h1.2.1.trans h2.1, h1.2.2.trans h2.2⟩

theorem runArr_append (ω : Oracle) : ∀ (ops ops' : List AOp) (s : AbsArr),
    s.runArr ω (ops ++ ops') = (((s.runArr ω ops).1.runArr ω ops').1, (s.runArr ω ops).2 ++ ((s.runArr ω ops).1.runArr ω ops').2)
  | [], _, _ => rfl
  | op :: ops, ops', s => by
    simp only [List.cons_append, runArr, runArr_append ω ops ops']

end AbsSeq

theorem runArr_append (ω : Oracle) (a : Ref) : ∀ (ops ops' : List AOp) (h : H),
    runArr ω h a (ops ++ ops') = ((runArr ω (runArr ω h a ops).1 a ops').1, (runArr ω h a ops).2 ++ (runArr ω (runArr ω h a ops).1 a ops').2)
  | [], _, _ => rfl
  | op :: ops, ops', h => by
    simp only [List.cons_append, runArr, runArr_append ω a ops ops']

/-! ## the heap side: what each operation does to the observed array -/

/-- the node stored at `r`, whatever its reference count -/
def nodeOf (h : H) (r : Ref) : Option Node := (h.get r).map Cell.node

theorem nodeOf_incref (h : H) (x r : Ref) : nodeOf (h.incref x) r = nodeOf h r := by
  unfold nodeOf
  by_cases e : r = x
  · subst e
    cases hg : h.get r with
    | none =>
      have : (h.incref r).get r = h.get r := by simp only [H.incref, hg]; exact hg
      rw [this, hg]
    | some c => rw [incref_get_same h r c hg]; rfl
  · rw [incref_get_other _ _ _ e]

theorem nodeOf_put_same (h : H) (r : Ref) (c : Cell) (hr : r < h.cells.length) : nodeOf (h.put r (some c)) r = some c.node := by
  unfold nodeOf; rw [get_put_same _ _ _ hr]; rfl

theorem arrOf_eq_node (h : H) (a : Ref) :
    arrOf h a = match nodeOf h a with | some (.arr d xs al) => some (d, xs, al) | _ => none := by
  unfold arrOf nodeOf
  cases h.get a with
  | none => rfl
  | some c => obtain ⟨n, rc⟩ := c; cases n <;> rfl

theorem arrOf_congr {h h' : H} {a : Ref} (e : nodeOf h' a = nodeOf h a) : arrOf h' a = arrOf h a := by
  rw [arrOf_eq_node, arrOf_eq_node, e]

theorem arrOf_some {h : H} {a : Ref} {d : Bool} {xs : List Ref} {al : Nat} (ha : arrOf h a = some (d, xs, al)) :
    ∃ rc, h.get a = some ⟨.arr d xs al, rc⟩ := by
  unfold arrOf at ha
  cases hg : h.get a with
  | none => simp [hg] at ha
  | some c =>
    obtain ⟨n, rc⟩ := c
    cases n <;> simp [hg] at ha
    obtain ⟨rfl, rfl, rfl⟩ := ha
    exact ⟨rc, rfl⟩

theorem arrOf_put_incref' (h : H) (a x : Ref) (d : Bool) (xs : List Ref) (al rc : Nat) (ha : a < h.cells.length) :
    arrOf ((h.put a (some ⟨.arr d xs al, rc⟩)).incref x) a = some (d, xs, al) := by
  rw [arrOf_eq_node, nodeOf_incref, nodeOf_put_same _ _ _ ha]

/-- the abstract list `s` describes the array at `a`: kind, members, capacity, and allocator requests so far -/
def RelArr (h : H) (a : Ref) (s : AbsArr) : Prop :=
  arrOf h a = some (s.definite, s.items, s.cap) ∧ h.reqs = s.reqs

/-- `arrPush` is the abstract push — for any operand whatsoever -/
theorem arrPush_refines (ω : Oracle) (h : H) (a x : Ref) (s : AbsArr) (hR : RelArr h a s)
    (hsz : s.items.length ≤ s.cap) (hb : s.definite = false → s.items.length < 2 ^ 58) :
    (arrPush ω h a x).1 = (s.push ω x).2 ∧ RelArr (arrPush ω h a x).2 a (s.push ω x).1 := by
  obtain ⟨d, cap, items, reqs⟩ := s
  obtain ⟨hA, hq⟩ := hR
  simp only at hA hq hsz hb
  obtain ⟨rc, hg⟩ := arrOf_some hA
  have hl := get_lt hg
  unfold arrPush AbsSeq.push RelArr
  rw [hg]
  by_cases hlt : items.length < cap
  · have hn : ¬ items.length ≥ cap := by omega
    cases d <;> simp only [hn, hlt, if_true, if_false] <;>
      exact ⟨trivial, arrOf_put_incref' h a x _ _ _ _ hl, by rw [incref_reqs]; exact hq⟩
  · have hn : items.length ≥ cap := by omega
    cases d
    · have hcap : cap < 2 ^ 58 := by have := hb rfl; omega
      simp only [hn, hlt, if_true, if_false, grow_spec ω h 8 cap (Or.inl rfl) hcap, Bool.false_eq_true, hq]
      cases hω : ω reqs
      · simp only [Bool.false_eq_true, if_false]
        exact ⟨trivial, hA, by simp⟩
      · simp only [if_true]
        refine ⟨trivial, arrOf_put_incref' _ a x _ _ _ _ hl, ?_⟩
        rw [incref_reqs]; simp
    · simp only [hn, hlt, if_true, if_false]
      exact ⟨trivial, hA, hq⟩

/-! ## the client's side: the books balance, no rule is broken, the client holds the array -/

theorem counts_live {h : H} {own : Ref → Nat} (hc : Counts h own) {x : Ref} (hx : 1 ≤ own x) : ∃ c, h.get x = some c := by
  have := hc x
  cases hg : h.get x with
  | none => rw [hg] at this; omega
  | some c => exact ⟨c, rfl⟩

theorem counts_member_live {h : H} {own : Ref → Nat} (hc : Counts h own) {a x : Ref} {c : Cell} (hg : h.get a = some c)
    (hx : x ∈ c.node.children) : ∃ cx, h.get x = some cx := by
  have h1 := count_children_le h a c hg x
  have h2 : 0 < c.node.children.count x := List.count_pos_iff.mpr hx
  have := hc x
  cases hgx : h.get x with
  | none => rw [hgx] at this; omega
  | some cx => exact ⟨cx, rfl⟩

theorem put_get_live {h : H} {a x : Ref} {c cx : Cell} (c' : Cell) (hg : h.get a = some c) (hx : h.get x = some cx) :
    ∃ cx', (h.put a (some c')).get x = some cx' := by
  by_cases e : x = a
  · subst e; exact ⟨c', get_put_same _ _ _ (get_lt hg)⟩
  · exact ⟨cx, by rw [get_put_other _ _ _ _ e]; exact hx⟩

theorem link_fault {h : H} {a x : Ref} {c cx : Cell} (c' : Cell) (hg : h.get a = some c) (hx : h.get x = some cx) :
    ((h.put a (some c')).incref x).fault = h.fault := by
  obtain ⟨cx', hx'⟩ := put_get_live c' hg hx
  rw [incref_fault _ _ _ hx']; rfl

/-- pushing a live item breaks no rule -/
theorem arrPush_fault (ω : Oracle) {h : H} {a x : Ref} {d : Bool} {items : List Ref} {al rc : Nat} {cx : Cell}
    (hg : h.get a = some ⟨.arr d items al, rc⟩) (hx : h.get x = some cx) : (arrPush ω h a x).2.fault = h.fault := by
  unfold arrPush; rw [hg]
  cases d <;> simp only
  · split
    · have hs := grow_same ω h 8 al
      cases hgr : grow ω h 8 al with
      | mk o h1 =>
        rw [hgr] at hs
        cases o with
        | none => exact hs.2
        | some na =>
          simp only
          have hg1 : h1.get a = some ⟨.arr false items al, rc⟩ := by rw [get_congr hs.1]; exact hg
          have hx1 : h1.get x = some cx := by rw [get_congr hs.1]; exact hx
          rw [link_fault _ hg1 hx1]; exact hs.2
    · exact link_fault _ hg hx
  · split
    · rfl
    · exact link_fault _ hg hx

/-- **replace inside the array**: position `i` is overwritten; the old member loses the array's reference —
which may release it and, in cascade, whatever it alone kept alive — yet the books stay balanced, no rule is
broken, and whatever survives at `a` is the overwritten array -/
theorem arrReplace_inside {h : H} {own : Ref → Nat} {a x old : Ref} {i : Nat} {d : Bool} {items : List Ref} {al rc : Nat} {cx : Cell}
    (hc : Counts h own) (hg : h.get a = some ⟨.arr d items al, rc⟩) (hi : items[i]? = some old) (hx : h.get x = some cx) :
    (arrReplace h a i x).1 = true ∧ Counts (arrReplace h a i x).2 own ∧ (arrReplace h a i x).2.fault = h.fault ∧
    (arrReplace h a i x).2.reqs = h.reqs ∧
    ∀ c', (arrReplace h a i x).2.get a = some c' → c'.node = .arr d (items.set i x) al := by
  have hil : i < items.length := by
    cases Nat.lt_or_ge i items.length with
    | inl h => exact h
    | inr h => rw [List.getElem?_eq_none h] at hi; cases hi
  have hio : items[i] = old := by rw [List.getElem?_eq_getElem hil] at hi; exact Option.some.inj hi
  unfold arrReplace; rw [hg]; simp only [hi]
  obtain ⟨cx', hgx⟩ := put_get_live (⟨.arr d (items.set i x) al, rc⟩ : Cell) hg hx
  have hp := pending_put (own := own) (c' := ⟨.arr d (items.set i x) al, rc⟩) [old] [x] hc hg rfl
    (by intro r; simpa [Node.children] using count_set_add items i x old r hil hio)
    (by intro y hy; simp at hy; subst hy; rw [hx]; rfl)
  rw [bumpL_single] at hp
  have hc1 := pending_nil (pending_incref hp hgx)
  have hd := H.decref_counts _ old own hc1
  have hs := H.decref_shrinks ((h.put a (some ⟨.arr d (items.set i x) al, rc⟩)).incref x) old
  refine ⟨trivial, hd.1, hd.2.trans (link_fault _ hg hx), ?_, ?_⟩
  · rw [hs.2.1, incref_reqs]; rfl
  · intro c' hc'
    obtain ⟨c1, hg1, hn, _⟩ := hs.2.2 a c' hc'
    have hnode := nodeOf_incref (h.put a (some ⟨.arr d (items.set i x) al, rc⟩)) x a
    rw [nodeOf_put_same _ _ _ (get_lt hg)] at hnode
    unfold nodeOf at hnode
    rw [hg1] at hnode
    rw [hn]; exact Option.some.inj hnode

/-- what is asked of the client: every reference count is the number of references held by live containers
plus the number the client owns (`Counts`), no rule has been broken so far, and the client itself owns a
reference to the array `a` it operates on -/
structure Client (h : H) (own : Ref → Nat) (a : Ref) : Prop where
  counts : Counts h own
  nofault : h.fault = false
  holds : 1 ≤ own a

theorem arrPush_step (ω : Oracle) {h : H} {a x : Ref} {own : Ref → Nat} {s : AbsArr} (hC : Client h own a) (hR : RelArr h a s)
    (hsz : s.items.length ≤ s.cap) (hb : s.definite = false → s.items.length < 2 ^ 58) (hx : 1 ≤ own x) :
    (arrPush ω h a x).1 = (s.push ω x).2 ∧ RelArr (arrPush ω h a x).2 a (s.push ω x).1 ∧ Client (arrPush ω h a x).2 own a := by
  obtain ⟨h1, h2⟩ := arrPush_refines ω h a x s hR hsz hb
  obtain ⟨rc, hg⟩ := arrOf_some hR.1
  obtain ⟨cx, hgx⟩ := counts_live hC.counts hx
  have hf : (arrPush ω h a x).2.fault = false := (arrPush_fault ω hg hgx).trans hC.nofault
  exact ⟨h1, h2, arrPush_counts hC.counts hf, hf, hC.holds⟩

theorem arrReplace_step {h : H} {a x : Ref} {i : Nat} {own : Ref → Nat} {s : AbsArr} (hC : Client h own a) (hR : RelArr h a s)
    (hx : 1 ≤ own x) :
    (arrReplace h a i x).1 = (s.replace i x).2 ∧ RelArr (arrReplace h a i x).2 a (s.replace i x).1 ∧
    Client (arrReplace h a i x).2 own a := by
  obtain ⟨rc, hg⟩ := arrOf_some hR.1
  obtain ⟨cx, hgx⟩ := counts_live hC.counts hx
  unfold AbsSeq.replace
  by_cases hi : i < s.items.length
  · simp only [hi, if_true]
    have hio : s.items[i]? = some s.items[i] := List.getElem?_eq_getElem hi
    obtain ⟨r1, r2, r3, r4, r5⟩ := arrReplace_inside hC.counts hg hio hgx
    obtain ⟨ca, hga⟩ := counts_live r2 hC.holds
    refine ⟨r1, ⟨?_, r4.trans hR.2⟩, r2, r3.trans hC.nofault, hC.holds⟩
    have hn := r5 ca hga
    obtain ⟨n, rc'⟩ := ca
    simp only at hn; subst hn
    simp [arrOf, hga]
  · simp only [hi, if_false]
    rw [replace_out_of_range h a _ _ _ i x hR.1 (by omega)]
    exact ⟨rfl, hR, hC⟩

theorem arrSet_step (ω : Oracle) {h : H} {a x : Ref} {i : Nat} {own : Ref → Nat} {s : AbsArr} (hC : Client h own a) (hR : RelArr h a s)
    (hsz : s.items.length ≤ s.cap) (hb : s.definite = false → s.items.length < 2 ^ 58) (hx : 1 ≤ own x) :
    let r := if i = s.items.length then s.push ω x else s.replace i x
    (arrSet ω h a i x).1 = r.2 ∧ RelArr (arrSet ω h a i x).2 a r.1 ∧ Client (arrSet ω h a i x).2 own a := by
  rw [set_spec ω h a _ _ _ i x hR.1]
  by_cases e : i = s.items.length
  · simp only [e, if_true]; exact arrPush_step ω hC hR hsz hb hx
  · simp only [e, if_false]
    by_cases hi : i < s.items.length
    · simp only [hi, if_true]; exact arrReplace_step hC hR hx
    · simp only [hi, if_false, AbsSeq.replace]; exact ⟨trivial, hR, hC⟩

theorem arrGet_step {h : H} {a : Ref} {i : Nat} {own : Ref → Nat} {s : AbsArr} (hC : Client h own a) (hR : RelArr h a s) :
    (arrGet h a i).1 = s.items[i]? ∧ RelArr (arrGet h a i).2 a s ∧ Client (arrGet h a i).2 (bumpL own (arrGet h a i).1.toList) a := by
  rw [get_spec h a _ _ _ i hR.1]
  obtain ⟨rc, hg⟩ := arrOf_some hR.1
  cases hi : s.items[i]? with
  | none => simp only [Option.toList, bumpL_nil]; exact ⟨trivial, hR, hC⟩
  | some x =>
    simp only [Option.toList, bumpL_single]
    have hm : x ∈ s.items := List.mem_of_getElem? hi
    obtain ⟨cx, hgx⟩ := counts_member_live hC.counts hg (by simpa [Node.children] using hm)
    refine ⟨trivial, ⟨?_, by rw [incref_reqs]; exact hR.2⟩, counts_incref h own x cx hgx hC.counts, ?_, ?_⟩
    · rw [arrOf_congr (nodeOf_incref h x a)]; exact hR.1
    · rw [incref_fault h x cx hgx]; exact hC.nofault
    · have := hC.holds; simp only [bump]; omega

theorem gotten_ofBool (b : Bool) : gotten [ARes.ofBool b] = [] := by cases b <;> rfl
theorem gotten_ofOption (o : Option Ref) : gotten [ARes.ofOption o] = o.toList := by cases o <;> rfl
theorem gotten_cons (r : ARes) (rs : List ARes) : gotten (r :: rs) = gotten [r] ++ gotten rs := by
  cases r <;> rfl

theorem bumpL_append (own : Ref → Nat) (xs ys : List Ref) : bumpL (bumpL own xs) ys = bumpL own (xs ++ ys) := by
  funext r; simp only [bumpL, List.count_append]; omega

/-- **one operation**: the heap model and the abstract list give the same answer and stay related; the
client's books stay balanced, with one more owned reference for every item a `get` returned -/
theorem stepArr_refines (ω : Oracle) {h : H} {a : Ref} {own : Ref → Nat} {s : AbsArr} (op : AOp)
    (hC : Client h own a) (hR : RelArr h a s) (hsz : s.items.length ≤ s.cap) (hb : s.definite = false → s.items.length < 2 ^ 58)
    (hop : ∀ x, op.operand = some x → 1 ≤ own x) :
    (stepArr ω h a op).2 = (s.stepArr ω op).2 ∧ RelArr (stepArr ω h a op).1 a (s.stepArr ω op).1 ∧
    Client (stepArr ω h a op).1 (bumpL own (gotten [(stepArr ω h a op).2])) a := by
  cases op with
  | push x =>
    simp only [stepArr, AbsSeq.stepArr, gotten_ofBool, bumpL_nil]
    obtain ⟨h1, h2, h3⟩ := arrPush_step ω hC hR hsz hb (hop x rfl)
    exact ⟨by rw [h1], h2, h3⟩
  | set i x =>
    simp only [stepArr, AbsSeq.stepArr, gotten_ofBool, bumpL_nil]
    obtain ⟨h1, h2, h3⟩ := arrSet_step (i := i) ω hC hR hsz hb (hop x rfl)
    exact ⟨by rw [h1], h2, h3⟩
  | replace i x =>
    simp only [stepArr, AbsSeq.stepArr, gotten_ofBool, bumpL_nil]
    obtain ⟨h1, h2, h3⟩ := arrReplace_step (i := i) hC hR (hop x rfl)
    exact ⟨by rw [h1], h2, h3⟩
  | get i =>
    simp only [stepArr, AbsSeq.stepArr, gotten_ofOption]
    obtain ⟨h1, h2, h3⟩ := arrGet_step (i := i) hC hR
    exact ⟨by rw [h1], h2, h3⟩

/-- **every sequence of operations** (induction on the sequence, the abstract list and the client's
holdings generalised) -/
theorem runArr_refines_aux (ω : Oracle) (a : Ref) : ∀ (ops : List AOp) (h : H) (own : Ref → Nat) (s : AbsArr),
    Client h own a → RelArr h a s → s.items.length ≤ s.cap → (s.definite = false → s.items.length + ops.length ≤ 2 ^ 58) →
    (∀ op ∈ ops, ∀ x, op.operand = some x → 1 ≤ own x) →
    (runArr ω h a ops).2 = (s.runArr ω ops).2 ∧ RelArr (runArr ω h a ops).1 a (s.runArr ω ops).1 ∧
    Client (runArr ω h a ops).1 (bumpL own (gotten (runArr ω h a ops).2)) a
  | [], h, own, s, hC, hR, _, _, _ => ⟨rfl, hR, by simp only [runArr, gotten, bumpL_nil]; exact hC⟩
  | op :: ops, h, own, s, hC, hR, hsz, hb, hop => by
    simp only [List.length_cons] at hb
    obtain ⟨e1, e2, e3⟩ := stepArr_refines ω op hC hR hsz (fun hd => by have := hb hd; omega) (hop op List.mem_cons_self)
    have hlen := AbsSeq.stepArr_length_le ω s op
    have ih := runArr_refines_aux ω a ops _ _ _ e3 e2 (AbsSeq.stepArr_le_cap ω s op hsz)
      (fun hd => by have := hb ((AbsSeq.stepArr_definite_eq ω s op).symm.trans hd); omega)
      (fun op' hm x hx => by have := hop op' (List.mem_cons_of_mem _ hm) x hx; simp only [bumpL]; omega)
    simp only [runArr, AbsSeq.runArr]
    rw [gotten_cons, ← bumpL_append]
    exact ⟨by rw [e1, ih.1], ih.2.1, ih.2.2⟩

/-! ## refused operations do not touch memory (no hypothesis at all) -/

theorem arrPush_false_cells (ω : Oracle) (h : H) (a x : Ref) (hr : (arrPush ω h a x).1 = false) :
    (arrPush ω h a x).2.cells = h.cells := by
  unfold arrPush at hr ⊢
  cases hg : h.get a with
  | none => rfl
  | some c =>
    obtain ⟨n, rc⟩ := c
    cases n with
    | arr d items alloc =>
      cases d with
      | true =>
        simp only [hg] at hr ⊢
        split
        · rfl
        · rename_i hlt; simp [hlt] at hr
      | false =>
        simp only [hg] at hr ⊢
        split
        · rename_i hge
          simp only [hge, if_true] at hr
          have hs := grow_same ω h 8 alloc
          cases hgr : grow ω h 8 alloc with
          | mk o h1 =>
            rw [hgr] at hr hs
            cases o with
            | none => exact hs.1
            | some na => simp at hr
        · rename_i hlt; simp [hlt] at hr
    | _ => rfl

theorem arrReplace_false_cells (h : H) (a : Ref) (i : Nat) (x : Ref) (hr : (arrReplace h a i x).1 = false) :
    (arrReplace h a i x).2.cells = h.cells := by
  unfold arrReplace at hr ⊢
  cases hg : h.get a with
  | none => rfl
  | some c =>
    obtain ⟨n, rc⟩ := c
    cases n with
    | arr d items alloc =>
      simp only [hg] at hr ⊢
      cases hi : items[i]? with
      | none => rfl
      | some old => simp [hi] at hr
    | _ => rfl

theorem arrSet_false_cells (ω : Oracle) (h : H) (a : Ref) (i : Nat) (x : Ref) (hr : (arrSet ω h a i x).1 = false) :
    (arrSet ω h a i x).2.cells = h.cells := by
  unfold arrSet at hr ⊢
  cases hg : h.get a with
  | none => rfl
  | some c =>
    obtain ⟨n, rc⟩ := c
    cases n with
    | arr d items alloc =>
      simp only [hg] at hr ⊢
      by_cases e : i = items.length
      · simp only [e, if_true] at hr ⊢; exact arrPush_false_cells ω h a x hr
      · simp only [e, if_false] at hr ⊢
        by_cases e2 : i < items.length
        · simp only [e2, if_true] at hr ⊢; exact arrReplace_false_cells h a i x hr
        · simp only [e2, if_false]
    | _ => rfl

theorem arrGet_none_cells (h : H) (a : Ref) (i : Nat) (hr : (arrGet h a i).1 = none) : (arrGet h a i).2.cells = h.cells := by
  unfold arrGet at hr ⊢
  cases hg : h.get a with
  | none => rfl
  | some c =>
    obtain ⟨n, rc⟩ := c
    cases n with
    | arr d items alloc =>
      simp only [hg] at hr ⊢
      cases hi : items[i]? with
      | none => rfl
      | some old => simp [hi] at hr
    | _ => rfl

/-- **an operation that is refused (`false`) or answers NULL leaves every cell of the heap as it was** —
contents, capacities and reference counts of every item; for any heap, any operand, any oracle -/
theorem stepArr_refused_untouched (ω : Oracle) (h : H) (a : Ref) (op : AOp)
    (hr : (stepArr ω h a op).2 = .refused ∨ (stepArr ω h a op).2 = .null) : (stepArr ω h a op).1.cells = h.cells := by
  have ob : ∀ b, (ARes.ofBool b = .refused ∨ ARes.ofBool b = .null) → b = false := by
    intro b hb; cases b <;> simp [ARes.ofBool] at hb ⊢
  have oo : ∀ o, (ARes.ofOption o = .refused ∨ ARes.ofOption o = .null) → o = none := by
    intro o ho; cases o <;> simp [ARes.ofOption] at ho ⊢
  cases op <;> simp only [stepArr] at hr ⊢
  · exact arrPush_false_cells ω h a _ (ob _ hr)
  · exact arrSet_false_cells ω h a _ _ (ob _ hr)
  · exact arrReplace_false_cells h a _ _ (ob _ hr)
  · exact arrGet_none_cells h a _ (oo _ hr)

theorem arrOf_cells_congr {h h' : H} (e : h'.cells = h.cells) (a : Ref) : arrOf h' a = arrOf h a := by
  unfold arrOf; rw [get_congr e]

/-! ## definite containers accept exactly `cap - size` further pushes, then refuse -/

namespace AbsSeq
variable {α : Type}

theorem pushAll_definite (ω : Oracle) : ∀ (xs : List α) (s : AbsSeq α), s.definite = true → s.items.length ≤ s.cap →
    (s.pushAll ω xs).1.items = s.items ++ xs.take (s.cap - s.items.length) ∧
    (s.pushAll ω xs).1.cap = s.cap ∧ (s.pushAll ω xs).1.reqs = s.reqs ∧
    (s.pushAll ω xs).2 = List.replicate (min xs.length (s.cap - s.items.length)) true ++
      List.replicate (xs.length - (s.cap - s.items.length)) false
  | [], s, _, _ => by simp [pushAll]
  | x :: xs, s, hd, hsz => by
    simp only [pushAll]
    by_cases hlt : s.items.length < s.cap
    · have e : s.push ω x = ({ s with items := s.items ++ [x] }, true) := by simp [push, hlt]
      obtain ⟨i1, i2, i3, i4⟩ := pushAll_definite ω xs { s with items := s.items ++ [x] } hd
        (by simp only [List.length_append, List.length_singleton]; omega)
      rw [e]
      simp only [List.length_append, List.length_singleton] at i1 i4
      obtain ⟨k, hk⟩ : ∃ k, s.cap - s.items.length = k + 1 := ⟨s.cap - s.items.length - 1, by omega⟩
      have hk' : s.cap - (s.items.length + 1) = k := by omega
      rw [hk'] at i1 i4
      refine ⟨?_, i2, i3, ?_⟩
      · rw [i1, hk]; simp
      · rw [i4, hk]
        simp only [List.length_cons, Nat.add_sub_add_right, Nat.add_min_add_right, List.replicate_succ, List.cons_append]
    · have e : s.push ω x = (s, false) := by simp [push, hlt, hd]
      obtain ⟨i1, i2, i3, i4⟩ := pushAll_definite ω xs s hd hsz
      rw [e]
      have hk : s.cap - s.items.length = 0 := by omega
      rw [hk] at i1 i4 ⊢
      refine ⟨?_, i2, i3, ?_⟩
      · rw [i1]; simp
      · rw [i4]; simp [List.replicate_succ]

/-- a run of pushes is `pushAll` -/
theorem runArr_pushes (ω : Oracle) : ∀ (xs : List Ref) (s : AbsArr),
    s.runArr ω (xs.map .push) = ((s.pushAll ω xs).1, (s.pushAll ω xs).2.map ARes.ofBool)
  | [], _ => rfl
  | x :: xs, s => by simp only [List.map_cons, runArr, stepArr, pushAll, runArr_pushes ω xs]

theorem runArr_definite_eq (ω : Oracle) : ∀ (ops : List AOp) (s : AbsArr), (s.runArr ω ops).1.definite = s.definite
  | [], _ => rfl
  | op :: ops, s => (runArr_definite_eq ω ops _).trans (stepArr_definite_eq ω s op)

end AbsSeq

/-! ## maps (`mapAdd`) and chunked strings (`addChunk`) -/

namespace AbsSeq
variable {α : Type}

/-- the elements of `xs` that were accepted, in order -/
def accepted (xs : List α) (rs : List Bool) : List α := ((xs.zip rs).filter (·.2)).map (·.1)

/-- **contents = what was there ++ the successful additions, in order** -/
theorem pushAll_items (ω : Oracle) : ∀ (xs : List α) (s : AbsSeq α),
    (s.pushAll ω xs).1.items = s.items ++ accepted xs (s.pushAll ω xs).2
  | [], s => by simp [pushAll, accepted]
  | x :: xs, s => by
    have ih := pushAll_items ω xs (s.push ω x).1
    simp only [pushAll, accepted, List.zip_cons_cons] at ih ⊢
    cases hr : (s.push ω x).2 with
    | true => rw [ih, push_ok_items ω s x hr]; simp
    | false => rw [ih, (push_refused ω s x hr).2.2]; simp

theorem pushAll_le_cap (ω : Oracle) : ∀ (xs : List α) (s : AbsSeq α), s.items.length ≤ s.cap →
    (s.pushAll ω xs).1.items.length ≤ (s.pushAll ω xs).1.cap
  | [], _, h => h
  | x :: xs, s, h => pushAll_le_cap ω xs _ (push_le_cap ω s x h)

theorem pushAll_definite_eq (ω : Oracle) : ∀ (xs : List α) (s : AbsSeq α), (s.pushAll ω xs).1.definite = s.definite
  | [], _ => rfl
  | x :: xs, s => (pushAll_definite_eq ω xs _).trans (push_definite_eq ω s x)

end AbsSeq

theorem nodeOf_put_other (h : H) (r r' : Ref) (c : Option Cell) (hne : r' ≠ r) : nodeOf (h.put r c) r' = nodeOf h r' := by
  unfold nodeOf; rw [get_put_other _ _ _ _ hne]

theorem nodeOf_some {h : H} {r : Ref} {n : Node} (hn : nodeOf h r = some n) : ∃ rc, h.get r = some ⟨n, rc⟩ := by
  unfold nodeOf at hn
  cases hg : h.get r with
  | none => simp [hg] at hn
  | some c =>
    obtain ⟨n', rc⟩ := c
    simp [hg] at hn; subst hn; exact ⟨rc, rfl⟩

theorem mapOf_eq_node (h : H) (m : Ref) :
    mapOf h m = match nodeOf h m with | some (.map d ps al) => some (d, ps, al) | _ => none := by
  unfold mapOf nodeOf
  cases h.get m with
  | none => rfl
  | some c => obtain ⟨n, rc⟩ := c; cases n <;> rfl

theorem mapOf_some {h : H} {m : Ref} {d : Bool} {ps : List (Ref × Ref)} {al : Nat} (hm : mapOf h m = some (d, ps, al)) :
    ∃ rc, h.get m = some ⟨.map d ps al, rc⟩ := by
  unfold mapOf at hm
  cases hg : h.get m with
  | none => simp [hg] at hm
  | some c =>
    obtain ⟨n, rc⟩ := c
    cases n <;> simp [hg] at hm
    obtain ⟨rfl, rfl, rfl⟩ := hm
    exact ⟨rc, rfl⟩

theorem mapOf_put_incref' (h : H) (m k v : Ref) (d : Bool) (ps : List (Ref × Ref)) (al rc : Nat) (hm : m < h.cells.length) :
    mapOf (((h.put m (some ⟨.map d ps al, rc⟩)).incref k).incref v) m = some (d, ps, al) := by
  rw [mapOf_eq_node, nodeOf_incref, nodeOf_incref, nodeOf_put_same _ _ _ hm]

abbrev AbsMap := AbsSeq (Ref × Ref)

def RelMap (h : H) (m : Ref) (s : AbsMap) : Prop :=
  mapOf h m = some (s.definite, s.items, s.cap) ∧ h.reqs = s.reqs

/-- `mapAdd` is the abstract push of the pair — for any key and value whatsoever -/
theorem mapAdd_refines (ω : Oracle) (h : H) (m k v : Ref) (s : AbsMap) (hR : RelMap h m s)
    (hsz : s.items.length ≤ s.cap) (hb : s.definite = false → s.items.length < 2 ^ 58) :
    (mapAdd ω h m k v).1 = (s.push ω (k, v)).2 ∧ RelMap (mapAdd ω h m k v).2 m (s.push ω (k, v)).1 := by
  obtain ⟨d, cap, items, reqs⟩ := s
  obtain ⟨hA, hq⟩ := hR
  simp only at hA hq hsz hb
  obtain ⟨rc, hg⟩ := mapOf_some hA
  have hl := get_lt hg
  unfold mapAdd AbsSeq.push RelMap
  rw [hg]
  by_cases hlt : items.length < cap
  · have hn : ¬ items.length ≥ cap := by omega
    cases d <;> simp only [hn, hlt, if_true, if_false] <;>
      exact ⟨trivial, mapOf_put_incref' h m k v _ _ _ _ hl, by rw [incref_reqs, incref_reqs]; exact hq⟩
  · have hn : items.length ≥ cap := by omega
    cases d
    · have hcap : cap < 2 ^ 58 := by have := hb rfl; omega
      simp only [hn, hlt, if_true, if_false, grow_spec ω h 16 cap (Or.inr rfl) hcap, Bool.false_eq_true, hq]
      cases hω : ω reqs
      · simp only [Bool.false_eq_true, if_false]
        exact ⟨trivial, hA, by simp⟩
      · simp only [if_true]
        refine ⟨trivial, mapOf_put_incref' _ m k v _ _ _ _ hl, ?_⟩
        rw [incref_reqs, incref_reqs]; simp
    · simp only [hn, hlt, if_true, if_false]
      exact ⟨trivial, hA, hq⟩

/-- add the pairs one after the other to the map at `m`, collecting the answers -/
def runMap (ω : Oracle) (h : H) (m : Ref) : List (Ref × Ref) → H × List Bool
  | [] => (h, [])
  | kv :: ps => let r := mapAdd ω h m kv.1 kv.2; let rs := runMap ω r.2 m ps; (rs.1, r.1 :: rs.2)

theorem runMap_refines_aux (ω : Oracle) (m : Ref) : ∀ (ps : List (Ref × Ref)) (h : H) (s : AbsMap),
    RelMap h m s → s.items.length ≤ s.cap → (s.definite = false → s.items.length + ps.length ≤ 2 ^ 58) →
    (runMap ω h m ps).2 = (s.pushAll ω ps).2 ∧ RelMap (runMap ω h m ps).1 m (s.pushAll ω ps).1
  | [], _, _, hR, _, _ => ⟨rfl, hR⟩
  | (k, v) :: ps, h, s, hR, hsz, hb => by
    simp only [List.length_cons] at hb
    obtain ⟨e1, e2⟩ := mapAdd_refines ω h m k v s hR hsz (fun hd => by have := hb hd; omega)
    have hlen := AbsSeq.push_length_le ω s (k, v)
    have ih := runMap_refines_aux ω m ps _ _ e2 (AbsSeq.push_le_cap ω s (k, v) hsz)
      (fun hd => by have := hb ((AbsSeq.push_definite_eq ω s (k, v)).symm.trans hd); omega)
    simp only [runMap, AbsSeq.pushAll]
    exact ⟨by rw [e1, ih.1], ih.2⟩

/-! chunked strings: a chunk must be a live definite string of the same kind (bytes / text) -/

/-- `c` is a live definite string of kind `t` -/
def IsChunk (h : H) (t : Bool) (c : Ref) : Prop := ∃ b, nodeOf h c = some (.str t b)

/-- the abstract list `s` describes the chunked string of kind `t` at `st` -/
def RelChunks (h : H) (st : Ref) (t : Bool) (s : AbsSeq Ref) : Prop :=
  nodeOf h st = some (.strI t s.items s.cap) ∧ h.reqs = s.reqs ∧ s.definite = false

theorem chunksOf_of_rel {h : H} {st : Ref} {t : Bool} {s : AbsSeq Ref} (hR : RelChunks h st t s) :
    chunksOf h st = some (s.items, s.cap) := by
  obtain ⟨rc, hg⟩ := nodeOf_some hR.1
  simp [chunksOf, hg]

theorem addChunk_refines (ω : Oracle) (h : H) (st c : Ref) (t : Bool) (s : AbsSeq Ref) (hR : RelChunks h st t s)
    (hc : IsChunk h t c) (hsz : s.items.length ≤ s.cap) (hb : s.items.length < 2 ^ 58) :
    (addChunk ω h st c).1 = (s.push ω c).2 ∧ RelChunks (addChunk ω h st c).2 st t (s.push ω c).1 ∧
    ∀ c', IsChunk h t c' → IsChunk (addChunk ω h st c).2 t c' := by
  obtain ⟨d, cap, items, reqs⟩ := s
  obtain ⟨hA, hq, hd⟩ := hR
  simp only at hA hq hsz hb hd
  subst hd
  obtain ⟨rc, hg⟩ := nodeOf_some hA
  obtain ⟨b, hcn⟩ := hc
  obtain ⟨rc', hgc⟩ := nodeOf_some hcn
  have hl := get_lt hg
  -- storing into the string and counting the chunk keeps every chunk a chunk
  have keep : ∀ (h1 : H) (n : Node), h1.cells = h.cells → ∀ c', IsChunk h t c' →
      IsChunk ((h1.put st (some ⟨n, rc⟩)).incref c) t c' := by
    intro h1 n e c' ⟨b', hc'⟩
    have hne : c' ≠ st := by intro e'; subst e'; rw [hA] at hc'; cases hc'
    refine ⟨b', ?_⟩
    rw [nodeOf_incref, nodeOf_put_other _ _ _ _ hne]
    unfold nodeOf at hc' ⊢; rw [get_congr e]; exact hc'
  unfold addChunk AbsSeq.push RelChunks
  rw [hg, hgc]
  simp only [ne_eq, not_true_eq_false, if_false]
  by_cases hlt : items.length < cap
  · have hn : ¬ items.length = cap := by omega
    simp only [hn, hlt, if_true, if_false]
    refine ⟨trivial, ⟨?_, by rw [incref_reqs]; exact hq, trivial⟩, keep h _ rfl⟩
    rw [nodeOf_incref, nodeOf_put_same _ _ _ hl]
  · have hn : items.length = cap := by omega
    have hcap : cap < 2 ^ 58 := by omega
    simp only [hn, Nat.lt_irrefl, if_true, if_false, grow_spec ω h 8 cap (Or.inl rfl) hcap, Bool.false_eq_true, hq]
    cases hω : ω reqs
    · simp only [Bool.false_eq_true, if_false]
      exact ⟨trivial, ⟨hn ▸ hA, by simp, trivial⟩, fun c' hc' => hc'⟩
    · simp only [if_true]
      refine ⟨trivial, ⟨?_, by rw [incref_reqs]; simp, trivial⟩, keep _ _ rfl⟩
      rw [nodeOf_incref]; exact nodeOf_put_same _ _ _ hl

/-- add the chunks one after the other to the chunked string at `st`, collecting the answers -/
def runChunks (ω : Oracle) (h : H) (st : Ref) : List Ref → H × List Bool
  | [] => (h, [])
  | c :: cs => let r := addChunk ω h st c; let rs := runChunks ω r.2 st cs; (rs.1, r.1 :: rs.2)

theorem runChunks_refines_aux (ω : Oracle) (st : Ref) (t : Bool) : ∀ (cs : List Ref) (h : H) (s : AbsSeq Ref),
    RelChunks h st t s → (∀ c ∈ cs, IsChunk h t c) → s.items.length ≤ s.cap → s.items.length + cs.length ≤ 2 ^ 58 →
    (runChunks ω h st cs).2 = (s.pushAll ω cs).2 ∧ RelChunks (runChunks ω h st cs).1 st t (s.pushAll ω cs).1
  | [], _, _, hR, _, _, _ => ⟨rfl, hR⟩
  | c :: cs, h, s, hR, hcs, hsz, hb => by
    simp only [List.length_cons] at hb
    obtain ⟨e1, e2, e3⟩ := addChunk_refines ω h st c t s hR (hcs c List.mem_cons_self) hsz (by omega)
    have hlen := AbsSeq.push_length_le ω s c
    have ih := runChunks_refines_aux ω st t cs _ _ e2 (fun c' hm => e3 c' (hcs c' (List.mem_cons_of_mem _ hm)))
      (AbsSeq.push_le_cap ω s c hsz) (by omega)
    simp only [runChunks, AbsSeq.pushAll]
    exact ⟨by rw [e1, ih.1], ih.2⟩

/-! ## geometric growth along any sequence (an allocator that grants everything) -/

/-- the allocator that grants every request -/
def grantAll : Oracle := fun _ => true

namespace AbsSeq
variable {α : Type}

/-- the state of an indefinite container that started empty when `r0` requests had been made and has been
granted every growth since: capacity and requests are functions of the size alone -/
def Geometric (r0 : Nat) (s : AbsSeq α) : Prop :=
  s.definite = false ∧ s.cap = capFor s.items.length ∧ s.reqs = r0 + reallocs s.items.length

theorem geometric_empty (r0 : Nat) : Geometric r0 (⟨false, 0, [], r0⟩ : AbsSeq α) := ⟨rfl, rfl, rfl⟩

theorem push_geometric {r0 : Nat} {s : AbsSeq α} (x : α) (hG : Geometric r0 s) :
    Geometric r0 (s.push grantAll x).1 ∧ (s.push grantAll x).2 = true := by
  obtain ⟨d, cap, items, reqs⟩ := s
  obtain ⟨hd, hc, hr⟩ := hG
  simp only at hd hc hr
  subst hd
  unfold push Geometric
  by_cases hlt : items.length < cap
  · simp only [hlt, if_true, List.length_append, List.length_singleton, capFor, reallocs]
    have hn : ¬ capFor items.length ≤ items.length := by omega
    simp only [hn, if_false]
    exact ⟨⟨trivial, hc, hr⟩, trivial⟩
  · simp only [hlt, if_false, grantAll, if_true, Bool.false_eq_true, List.length_append, List.length_singleton, capFor, reallocs]
    have hn : capFor items.length ≤ items.length := by omega
    simp only [hn, if_true]
    refine ⟨⟨trivial, ?_, by omega⟩, trivial⟩
    rw [hc]; rfl

theorem replace_geometric {r0 : Nat} {s : AbsSeq α} (i : Nat) (x : α) (hG : Geometric r0 s) : Geometric r0 (s.replace i x).1 := by
  unfold Geometric
  rw [replace_definite_eq, replace_cap, replace_reqs, replace_length]; exact hG

theorem stepArr_geometric {r0 : Nat} {s : AbsArr} (op : AOp) (hG : Geometric r0 s) : Geometric r0 (s.stepArr grantAll op).1 := by
  cases op <;> simp only [stepArr]
  · exact (push_geometric _ hG).1
  · split
    · exact (push_geometric _ hG).1
    · exact replace_geometric _ _ hG
  · exact replace_geometric _ _ hG
  · exact hG

theorem runArr_geometric {r0 : Nat} : ∀ (ops : List AOp) (s : AbsArr), Geometric r0 s → Geometric r0 (s.runArr grantAll ops).1
  | [], _, hG => hG
  | op :: ops, _, hG => runArr_geometric ops _ (stepArr_geometric op hG)

/-- with an allocator that grants everything every addition is accepted -/
theorem pushAll_geometric {r0 : Nat} : ∀ (xs : List α) (s : AbsSeq α), Geometric r0 s →
    Geometric r0 (s.pushAll grantAll xs).1 ∧ (s.pushAll grantAll xs).1.items = s.items ++ xs ∧
    (s.pushAll grantAll xs).2 = List.replicate xs.length true
  | [], s, hG => by simp [pushAll, hG]
  | x :: xs, s, hG => by
    obtain ⟨g1, g2⟩ := push_geometric x hG
    obtain ⟨i1, i2, i3⟩ := pushAll_geometric xs _ g1
    simp only [pushAll]
    refine ⟨i1, ?_, ?_⟩
    · rw [i2, push_ok_items _ s x g2]; simp
    · rw [i3, g2]; rfl

/-- **logarithmic cost**: in a geometric state of size `n ≥ 1` the number `r` of requests made since the
container was empty satisfies `2 ^ r < 4 n` -/
theorem Geometric.logarithmic {r0 : Nat} {s : AbsSeq α} (hG : Geometric r0 s) (hn : 1 ≤ s.items.length) :
    2 ^ (s.reqs - r0) < 4 * s.items.length := by
  have : s.reqs - r0 = reallocs s.items.length := by rw [hG.2.2]; omega
  rw [this]; exact C12_logarithmic _ hn

end AbsSeq

/-! ## C12 for every operation sequence: the statements -/

/-- **Arrays refine abstract lists, for every operation sequence.**

Let `a` be a live array `(d, xs, al)` with `xs.length ≤ al`, in a heap whose books balance (`Counts h own`:
every reference count = references held by live containers + references the client owns), in which no rule
has been broken, and let the client own a reference to `a` and to every item it passes to push / set /
replace (`x = a` is allowed; nothing else is asked of the members of `a` or of the rest of the heap).
For an indefinite array the total number of elements stays at most `2 ^ 58` (beyond, `8 * capacity`
overflows `size_t` and the library's overflow guard refuses to grow).

Then for **every oracle and every operation list**, running the operations on the heap model and on the
abstract list `⟨d, al, xs⟩` gives
* the same results, operation by operation;
* the final array `(d, abs.items, abs.cap)` — the contents and capacity of the abstract list — and the same
  number of allocator requests;
* size ≤ capacity (this is the state after *any* sequence, hence after every prefix: at every step);
* a definite array keeps its capacity and never consults the allocator;
* no rule is broken, and the books balance again, the client owning one more reference for every item a
  `get` returned. -/
theorem C12_array_sequences (ω : Oracle) (h : H) (a : Ref) (d : Bool) (xs : List Ref) (al : Nat) (own : Ref → Nat)
    (ops : List AOp)
    (harr : arrOf h a = some (d, xs, al)) (hsz : xs.length ≤ al)
    (hcounts : Counts h own) (hfault : h.fault = false) (hown : 1 ≤ own a)
    (hops : ∀ op ∈ ops, ∀ x, op.operand = some x → 1 ≤ own x)
    (hbound : d = false → xs.length + ops.length ≤ 2 ^ 58) :
    let abs := AbsSeq.runArr ω ⟨d, al, xs, h.reqs⟩ ops
    let con := runArr ω h a ops
    con.2 = abs.2 ∧
    arrOf con.1 a = some (d, abs.1.items, abs.1.cap) ∧
    con.1.reqs = abs.1.reqs ∧
    abs.1.items.length ≤ abs.1.cap ∧
    (d = true → abs.1.cap = al ∧ con.1.reqs = h.reqs) ∧
    con.1.fault = false ∧ Counts con.1 (bumpL own (gotten con.2)) := by
  intro abs con
  obtain ⟨e1, ⟨e2, e3⟩, e4⟩ := runArr_refines_aux ω a ops h own ⟨d, al, xs, h.reqs⟩ ⟨hcounts, hfault, hown⟩ ⟨harr, rfl⟩ hsz hbound hops
  have hd := AbsSeq.runArr_definite_eq ω ops ⟨d, al, xs, h.reqs⟩
  refine ⟨e1, ?_, e3, AbsSeq.runArr_le_cap ω ops _ hsz, ?_, e4.nofault, e4.counts⟩
  · rw [e2, hd]
  · intro hdt
    have := AbsSeq.runArr_definite ω ops ⟨d, al, xs, h.reqs⟩ hdt
    exact ⟨this.2.1, e3.trans this.2.2⟩

/-- **Size never exceeds capacity, at every step**: after every prefix of the operation list the array at `a`
is a live array of the same kind whose size is at most its capacity. -/
theorem C12_array_size_le_cap_every_step (ω : Oracle) (h : H) (a : Ref) (d : Bool) (xs : List Ref) (al : Nat) (own : Ref → Nat)
    (ops : List AOp)
    (harr : arrOf h a = some (d, xs, al)) (hsz : xs.length ≤ al)
    (hcounts : Counts h own) (hfault : h.fault = false) (hown : 1 ≤ own a)
    (hops : ∀ op ∈ ops, ∀ x, op.operand = some x → 1 ≤ own x)
    (hbound : d = false → xs.length + ops.length ≤ 2 ^ 58) :
    ∀ pre post, ops = pre ++ post →
      ∃ items cap, arrOf (runArr ω h a pre).1 a = some (d, items, cap) ∧ items.length ≤ cap := by
  intro pre post e
  subst e
  obtain ⟨-, e2, -, e4, -⟩ := C12_array_sequences ω h a d xs al own pre harr hsz hcounts hfault hown
    (fun op hm => hops op (List.mem_append_left _ hm))
    (fun hd => by have := hbound hd; simp only [List.length_append] at this; omega)
  exact ⟨_, _, e2, e4⟩

/-- **A definite array accepts exactly `al - size` further pushes and then refuses**: pushing `ys` (items the
client owns) one after the other is answered by `min |ys| (al - size)` times ok and then only refusals; the
array ends up holding `xs` followed by the first `al - size` of `ys`, its capacity unchanged, the allocator
never consulted. -/
theorem C12_array_definite_pushes (ω : Oracle) (h : H) (a : Ref) (xs : List Ref) (al : Nat) (own : Ref → Nat) (ys : List Ref)
    (harr : arrOf h a = some (true, xs, al)) (hsz : xs.length ≤ al)
    (hcounts : Counts h own) (hfault : h.fault = false) (hown : 1 ≤ own a) (hys : ∀ y ∈ ys, 1 ≤ own y) :
    let con := runArr ω h a (ys.map .push)
    con.2 = List.replicate (min ys.length (al - xs.length)) .ok ++ List.replicate (ys.length - (al - xs.length)) .refused ∧
    arrOf con.1 a = some (true, xs ++ ys.take (al - xs.length), al) ∧ con.1.reqs = h.reqs := by
  intro con
  have hops : ∀ op ∈ ys.map AOp.push, ∀ x, op.operand = some x → 1 ≤ own x := by
    intro op hm x hx
    obtain ⟨y, hy, rfl⟩ := List.mem_map.mp hm
    simp only [AOp.operand, Option.some.injEq] at hx; subst hx; exact hys _ hy
  obtain ⟨e1, e2, e3, -⟩ := C12_array_sequences ω h a true xs al own (ys.map .push) harr hsz hcounts hfault hown hops (by simp)
  simp only [AbsSeq.runArr_pushes] at e1 e2 e3
  obtain ⟨i1, i2, i3, i4⟩ := AbsSeq.pushAll_definite ω ys (⟨true, al, xs, h.reqs⟩ : AbsArr) rfl hsz
  simp only at i1 i2 i3 i4
  refine ⟨?_, ?_, e3.trans i3⟩
  · rw [e1, i4]; simp [ARes.ofBool]
  · rw [e2, i1, i2]

/-- **Out of range / refused ⇒ memory untouched**, anywhere in any sequence: if the operation that follows
`pre` is refused or answers NULL, every cell of the heap (every item, every reference count, hence `arrOf`
of every array) is as it was before it.  No hypothesis on the heap, the operands or the oracle. -/
theorem C12_array_refused_untouched (ω : Oracle) (h : H) (a : Ref) (pre : List AOp) (op : AOp)
    (hr : (stepArr ω (runArr ω h a pre).1 a op).2 = .refused ∨ (stepArr ω (runArr ω h a pre).1 a op).2 = .null) :
    (runArr ω h a (pre ++ [op])).1.cells = (runArr ω h a pre).1.cells ∧
    ∀ b, arrOf (runArr ω h a (pre ++ [op])).1 b = arrOf (runArr ω h a pre).1 b := by
  have e : (runArr ω h a (pre ++ [op])).1 = (stepArr ω (runArr ω h a pre).1 a op).1 := by
    rw [runArr_append]; rfl
  rw [e]
  have hc := stepArr_refused_untouched ω _ a op hr
  exact ⟨hc, fun b => arrOf_cells_congr hc b⟩

/-- **Maps refine abstract lists of pairs, for every sequence of `mapAdd`**: the answers are those of the
abstract bounded / unbounded list, the final contents are the initial pairs followed by the accepted pairs
in order, size ≤ capacity.  Nothing is asked of the keys and values. -/
theorem C12_map_sequences (ω : Oracle) (h : H) (m : Ref) (d : Bool) (ps : List (Ref × Ref)) (al : Nat) (adds : List (Ref × Ref))
    (hmap : mapOf h m = some (d, ps, al)) (hsz : ps.length ≤ al)
    (hbound : d = false → ps.length + adds.length ≤ 2 ^ 58) :
    let abs := AbsSeq.pushAll ω ⟨d, al, ps, h.reqs⟩ adds
    let con := runMap ω h m adds
    con.2 = abs.2 ∧
    mapOf con.1 m = some (d, abs.1.items, abs.1.cap) ∧
    con.1.reqs = abs.1.reqs ∧
    abs.1.items = ps ++ AbsSeq.accepted adds con.2 ∧
    abs.1.items.length ≤ abs.1.cap := by
  intro abs con
  obtain ⟨e1, e2, e3⟩ := runMap_refines_aux ω m adds h ⟨d, al, ps, h.reqs⟩ ⟨hmap, rfl⟩ hsz hbound
  have hd := AbsSeq.pushAll_definite_eq ω adds (⟨d, al, ps, h.reqs⟩ : AbsMap)
  refine ⟨e1, ?_, e3, ?_, AbsSeq.pushAll_le_cap ω adds _ hsz⟩
  · rw [e2, hd]
  · show abs.1.items = ps ++ AbsSeq.accepted adds (runMap ω h m adds).2
    rw [e1]; exact AbsSeq.pushAll_items ω adds _

/-- **A definite map accepts exactly `al - size` further pairs** (`al` pairs when it starts empty), then refuses,
never consulting the allocator. -/
theorem C12_map_definite_adds (ω : Oracle) (h : H) (m : Ref) (ps : List (Ref × Ref)) (al : Nat) (adds : List (Ref × Ref))
    (hmap : mapOf h m = some (true, ps, al)) (hsz : ps.length ≤ al) :
    let con := runMap ω h m adds
    con.2 = List.replicate (min adds.length (al - ps.length)) true ++ List.replicate (adds.length - (al - ps.length)) false ∧
    mapOf con.1 m = some (true, ps ++ adds.take (al - ps.length), al) ∧ con.1.reqs = h.reqs := by
  intro con
  obtain ⟨e1, e2, e3, -⟩ := C12_map_sequences ω h m true ps al adds hmap hsz (by simp)
  obtain ⟨i1, i2, i3, i4⟩ := AbsSeq.pushAll_definite ω adds (⟨true, al, ps, h.reqs⟩ : AbsMap) rfl hsz
  simp only at i1 i2 i3 i4
  exact ⟨e1.trans i4, by rw [e2, i1, i2], e3.trans i3⟩

/-- **Chunked strings refine abstract lists, for every sequence of `addChunk`** of live definite strings of
the same kind (bytes / text) as the chunked string. -/
theorem C12_chunk_sequences (ω : Oracle) (h : H) (st : Ref) (t : Bool) (cs : List Ref) (cap rc : Nat) (adds : List Ref)
    (hstr : h.get st = some ⟨.strI t cs cap, rc⟩) (hsz : cs.length ≤ cap)
    (hadds : ∀ c ∈ adds, ∃ b rc', h.get c = some ⟨.str t b, rc'⟩)
    (hbound : cs.length + adds.length ≤ 2 ^ 58) :
    let abs := AbsSeq.pushAll ω ⟨false, cap, cs, h.reqs⟩ adds
    let con := runChunks ω h st adds
    con.2 = abs.2 ∧
    chunksOf con.1 st = some (abs.1.items, abs.1.cap) ∧
    con.1.reqs = abs.1.reqs ∧
    abs.1.items = cs ++ AbsSeq.accepted adds con.2 ∧
    abs.1.items.length ≤ abs.1.cap := by
  intro abs con
  have hR : RelChunks h st t ⟨false, cap, cs, h.reqs⟩ := ⟨by unfold nodeOf; rw [hstr]; rfl, rfl, rfl⟩
  have hcs : ∀ c ∈ adds, IsChunk h t c := by
    intro c hm; obtain ⟨b, rc', hg⟩ := hadds c hm; exact ⟨b, by unfold nodeOf; rw [hg]; rfl⟩
  obtain ⟨e1, e2⟩ := runChunks_refines_aux ω st t adds h _ hR hcs hsz hbound
  refine ⟨e1, chunksOf_of_rel e2, e2.2.1, ?_, AbsSeq.pushAll_le_cap ω adds _ hsz⟩
  show abs.1.items = cs ++ AbsSeq.accepted adds (runChunks ω h st adds).2
  rw [e1]; exact AbsSeq.pushAll_items ω adds _

/-- **Logarithmic growth along any operation sequence (arrays)**: an indefinite array that starts empty, with
an allocator that grants everything, has after *any* sequence of push / set / replace / get that leaves it with
`n` members capacity `capFor n` and has made exactly `reallocs n` allocator requests, so `2 ^ requests < 4 n`. -/
theorem C12_array_growth_sequences (h : H) (a : Ref) (own : Ref → Nat) (ops : List AOp)
    (harr : arrOf h a = some (false, [], 0))
    (hcounts : Counts h own) (hfault : h.fault = false) (hown : 1 ≤ own a)
    (hops : ∀ op ∈ ops, ∀ x, op.operand = some x → 1 ≤ own x) (hbound : ops.length ≤ 2 ^ 58) :
    let con := runArr grantAll h a ops
    ∃ items, arrOf con.1 a = some (false, items, capFor items.length) ∧
      con.1.reqs = h.reqs + reallocs items.length ∧
      (1 ≤ items.length → 2 ^ (con.1.reqs - h.reqs) < 4 * items.length) := by
  intro con
  obtain ⟨-, e2, e3, -⟩ := C12_array_sequences grantAll h a false [] 0 own ops harr (Nat.le_refl _) hcounts hfault hown hops
    (fun _ => by simpa using hbound)
  have hG := AbsSeq.runArr_geometric ops _ (AbsSeq.geometric_empty (α := Ref) h.reqs)
  refine ⟨_, ?_, e3.trans hG.2.2, fun hn => ?_⟩
  · rw [e2, hG.2.1]
  · have := hG.logarithmic hn
    rw [← e3] at this; exact this

/-- **Logarithmic growth (maps)**: `n` pairs added to an empty indefinite map are all accepted, leave capacity
`capFor n` and cost `reallocs n` allocator requests. -/
theorem C12_map_growth_sequences (h : H) (m : Ref) (adds : List (Ref × Ref))
    (hmap : mapOf h m = some (false, [], 0)) (hbound : adds.length ≤ 2 ^ 58) :
    let con := runMap grantAll h m adds
    con.2 = List.replicate adds.length true ∧
    mapOf con.1 m = some (false, adds, capFor adds.length) ∧
    con.1.reqs = h.reqs + reallocs adds.length ∧
    (1 ≤ adds.length → 2 ^ reallocs adds.length < 4 * adds.length) := by
  intro con
  obtain ⟨e1, e2, e3, -⟩ := C12_map_sequences grantAll h m false [] 0 adds hmap (Nat.le_refl _) (fun _ => by simpa using hbound)
  obtain ⟨g1, g2, g3⟩ := AbsSeq.pushAll_geometric adds _ (AbsSeq.geometric_empty (α := Ref × Ref) h.reqs)
  simp only [List.nil_append] at g2
  refine ⟨e1.trans g3, ?_, ?_, C12_logarithmic _⟩
  · rw [e2, g1.2.1, g2]
  · rw [e3, g1.2.2, g2]

/-- **Logarithmic growth (chunked strings)**: `n` chunks added to an empty chunked string are all accepted, leave
chunk capacity `capFor n` and cost `reallocs n` allocator requests. -/
theorem C12_chunk_growth_sequences (h : H) (st : Ref) (t : Bool) (rc : Nat) (adds : List Ref)
    (hstr : h.get st = some ⟨.strI t [] 0, rc⟩)
    (hadds : ∀ c ∈ adds, ∃ b rc', h.get c = some ⟨.str t b, rc'⟩) (hbound : adds.length ≤ 2 ^ 58) :
    let con := runChunks grantAll h st adds
    con.2 = List.replicate adds.length true ∧
    chunksOf con.1 st = some (adds, capFor adds.length) ∧
    con.1.reqs = h.reqs + reallocs adds.length ∧
    (1 ≤ adds.length → 2 ^ reallocs adds.length < 4 * adds.length) := by
  intro con
  obtain ⟨e1, e2, e3, -⟩ := C12_chunk_sequences grantAll h st t [] 0 rc adds hstr (Nat.le_refl _) hadds (by simpa using hbound)
  obtain ⟨g1, g2, g3⟩ := AbsSeq.pushAll_geometric adds _ (AbsSeq.geometric_empty (α := Ref) h.reqs)
  simp only [List.nil_append] at g2
  refine ⟨e1.trans g3, ?_, ?_, C12_logarithmic _⟩
  · rw [e2, g1.2.1, g2]
  · rw [e3, g1.2.2, g2]

/-! ## non-vacuity, and why the client must hold the array -/

/-- the two runs compute, and agree, on a sample: growth, set-as-push, set-as-replace, out-of-range get /
replace / set, on an indefinite array with a granting and with an alternating allocator, and on a definite
array of capacity 2 -/
example :
    let h0 : H := { cells := [some ⟨.arr false [] 0, 1⟩, some ⟨.int false .w8 7, 1⟩, some ⟨.int false .w8 9, 1⟩,
                              some ⟨.arr true [] 2, 1⟩] }
    let ops : List AOp := [.push 1, .get 0, .set 1 2, .set 0 2, .get 5, .replace 3 1, .push 1, .push 2, .replace 1 1, .get 1, .set 9 1]
    (runArr grantAll h0 0 ops).2 = [.ok, .item 1, .ok, .ok, .null, .refused, .ok, .ok, .ok, .item 1, .refused] ∧
    (AbsSeq.runArr grantAll ⟨false, 0, [], 0⟩ ops).2 = (runArr grantAll h0 0 ops).2 ∧
    arrOf (runArr grantAll h0 0 ops).1 0 = some (false, [2, 1, 1, 2], 4) ∧
    (runArr grantAll h0 0 ops).1.reqs = 3 ∧ (runArr grantAll h0 0 ops).1.fault = false ∧
    (runArr (fun n => n % 2 == 1) h0 0 ops).2 = (AbsSeq.runArr (fun n => n % 2 == 1) ⟨false, 0, [], 0⟩ ops).2 ∧
    (runArr grantAll h0 3 ops).2 = (AbsSeq.runArr grantAll ⟨true, 2, [], 0⟩ ops).2 ∧
    arrOf (runArr grantAll h0 3 ops).1 3 = some (true, [2, 1], 2) := by decide

/-- without a reference owned by the client the statement is false: here the arrays 0 and 1 hold the only
references to each other; replacing member 0 of array 0 releases array 1, whose release drops the last
reference to array 0 — the array the client is operating on is gone -/
example :
    let h : H := { cells := [some ⟨.arr false [1] 1, 1⟩, some ⟨.arr false [0] 1, 1⟩, some ⟨.int false .w8 7, 1⟩] }
    arrOf h 0 = some (false, [1], 1) ∧ (arrReplace h 0 0 2).1 = true ∧ arrOf (arrReplace h 0 0 2).2 0 = none := by decide

end Props.C12

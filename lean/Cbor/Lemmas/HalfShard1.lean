import Cbor.Lemmas.Half
/-! shard 1 of the exhaustive binary16 table check (patterns 1024 .. 2047), kernel-evaluated -/
namespace Lemmas
theorem half_shard_1 : halfShardOk 1 = true := by decide +kernel
end Lemmas

import Cbor.Lemmas.Half
/-! shard 13 of the exhaustive binary16 table check (patterns 13312 .. 14335), kernel-evaluated -/
namespace Lemmas
theorem half_shard_13 : halfShardOk 13 = true := by decide +kernel
end Lemmas

import Cbor.Model.Builder
import Cbor.Lemmas.SdSpec
import Cbor.Props.C08
import Cbor.Props.C20
/-!
# `cbor_load` under an arbitrary allocator: no internal fault, two outcomes

For **every** oracle (every choice of which allocator requests are refused) the model of `cbor_load` finishes
with its fault flag clear and with exactly one of "an item, code NONE" / "no item, an error code".
-/
namespace Lemmas.Safe
open Model

/-- frames the builder itself pushed are well formed -/
def WFF : Frame → Prop
  | ⟨.arrD alloc xs, sub⟩ => 1 ≤ sub.toNat ∧ xs.length + sub.toNat = alloc
  | ⟨.mapD alloc kvs key, sub⟩ =>
      1 ≤ sub.toNat ∧ (key.isSome ↔ sub.toNat % 2 = 1) ∧ 2 * kvs.length + (if key.isSome then 1 else 0) + sub.toNat = 2 * alloc
  | ⟨.mapI _ _ key, sub⟩ => (sub = 0 ∨ sub = 1) ∧ (key.isSome ↔ sub = 1)
  | ⟨.tag _ _, sub⟩ => sub = 1
  | _ => True

def AllWF (s : List Frame) : Prop := ∀ f ∈ s, WFF f

/-- after delivering an item / handling a head: no fault, and either an error flag is up or the stack is well formed
and an empty stack means the root has been delivered -/
def Post (c : Ctx) : Prop :=
  c.fault = false ∧ (c.creationFailed = true ∨ c.syntaxError = true ∨ (AllWF c.stack ∧ (c.stack = [] → c.root.isSome)))

theorem sub_toNat (s : UInt64) (h : 1 ≤ s.toNat) : (s - 1).toNat = s.toNat - 1 := by
  have := s.toNat_lt
  rw [UInt64.toNat_sub_of_le]
  · rfl
  · exact UInt64.le_iff_toNat_le.mpr (by simpa using h)

theorem ne_zero_of (s : UInt64) (h : 1 ≤ s.toNat) : ¬ s = 0 := by
  intro e; subst e; simp at h

theorem mod2 (s : UInt64) : (s % 2 = 1) ↔ s.toNat % 2 = 1 := by
  constructor
  · intro h; have := congrArg UInt64.toNat h; simpa [UInt64.toNat_mod] using this
  · intro h; apply UInt64.toNat_inj.mp; simpa [UInt64.toNat_mod] using h

theorem eq_zero_iff (s : UInt64) : s = 0 ↔ s.toNat = 0 := by
  constructor
  · intro h; subst h; rfl
  · intro h; exact UInt64.toNat_inj.mp (by simpa using h)

theorem alloc_eq (c : Ctx) (ω : Oracle) (b : Nat) : (c.alloc ω b).2 = { c with reqs := c.reqs + 1 } := rfl

theorem allocMultiple_eq (c : Ctx) (ω : Oracle) (a b : Nat) :
    (c.allocMultiple ω a b).2 = c ∨ (c.allocMultiple ω a b).2 = { c with reqs := c.reqs + 1 } := by
  unfold Ctx.allocMultiple; split
  · right; rfl
  · left; rfl

theorem growAlloc_eq (c : Ctx) (ω : Oracle) (a b : Nat) :
    (c.growAlloc ω a b).2 = c ∨ (c.growAlloc ω a b).2 = { c with reqs := c.reqs + 1 } := by
  unfold Ctx.growAlloc; split
  · exact allocMultiple_eq c ω a _
  · left; rfl

theorem post_failed' {c : Ctx} (hf : c.fault = false) (h : c.creationFailed = true) : Post c := ⟨hf, Or.inl h⟩
theorem post_syntax' {c : Ctx} (hf : c.fault = false) (h : c.syntaxError = true) : Post c := ⟨hf, Or.inr (Or.inl h)⟩
theorem post_stack' {c : Ctx} (hf : c.fault = false) (hs : AllWF c.stack) (hne : c.stack ≠ []) : Post c :=
  ⟨hf, Or.inr (Or.inr ⟨hs, fun e => absurd e hne⟩)⟩

/-- an allocator request changes nothing but the request counter -/
def Same (c c' : Ctx) : Prop :=
  c'.stack = c.stack ∧ c'.fault = c.fault ∧ c'.root = c.root ∧ c'.creationFailed = c.creationFailed ∧ c'.syntaxError = c.syntaxError

theorem same_alloc (c : Ctx) (ω : Oracle) (b : Nat) : Same c (c.alloc ω b).2 := ⟨rfl, rfl, rfl, rfl, rfl⟩
theorem same_allocMultiple (c : Ctx) (ω : Oracle) (a b : Nat) : Same c (c.allocMultiple ω a b).2 := by
  rcases allocMultiple_eq c ω a b with e | e <;> rw [e] <;> exact ⟨rfl, rfl, rfl, rfl, rfl⟩
theorem same_growAlloc (c : Ctx) (ω : Oracle) (a b : Nat) : Same c (c.growAlloc ω a b).2 := by
  rcases growAlloc_eq c ω a b with e | e <;> rw [e] <;> exact ⟨rfl, rfl, rfl, rfl, rfl⟩

theorem allwf_cons {f : Frame} {s : List Frame} (hf : WFF f) (hs : AllWF s) : AllWF (f :: s) := by
  intro g hg; rcases List.mem_cons.mp hg with e | e
  · subst e; exact hf
  · exact hs g e

theorem allwf_tail {f : Frame} {s : List Frame} (h : AllWF (f :: s)) : AllWF s := fun g hg => h g (by simp [hg])
theorem allwf_head {f : Frame} {s : List Frame} (h : AllWF (f :: s)) : WFF f := h f (by simp)

/-- **Delivering an item never trips an assertion**, whatever the allocator does -/
theorem append_post (ω : Oracle) : ∀ (fuel : Nat) (item : Spec.Item) (c : Ctx), c.fault = false → AllWF c.stack →
    c.stack.length + 1 ≤ fuel → Post (append ω fuel item c)
  | 0, _, c, _, _, hl => by omega
  | fuel+1, item, c, hf, hw, hl => by
    unfold append
    cases hs : c.stack with
    | nil => exact ⟨hf, Or.inr (Or.inr ⟨by simp [AllWF], fun _ => rfl⟩)⟩
    | cons top rest =>
      rw [hs] at hw hl
      have hwr := allwf_tail hw
      have hwt := allwf_head hw
      obtain ⟨it, sub⟩ := top
      cases it with
      | arrD alloc xs =>
        simp only [WFF] at hwt
        simp only
        rw [if_neg (ne_zero_of sub hwt.1), if_neg (by omega)]
        have hsub := sub_toNat sub hwt.1
        by_cases h0 : sub - 1 = 0
        · simp only [h0, if_true]
          exact append_post ω fuel _ { c with stack := rest } hf hwr (by simp at hl ⊢; omega)
        · simp only [h0, if_false]
          have : (sub - 1).toNat ≠ 0 := fun e => h0 ((eq_zero_iff _).mpr e)
          exact post_stack' hf (allwf_cons (by simp only [WFF, List.length_append, List.length_cons, List.length_nil]; omega) hwr) (by simp)
      | arrI alloc xs =>
        simp only
        split
        · have hsame := same_growAlloc c ω szPtr alloc
          cases hg : c.growAlloc ω szPtr alloc with
          | mk ok c' =>
            rw [hg] at hsame
            simp only
            cases ok with
            | true => simp only [if_true]; exact post_stack' (by rw [hsame.2.1]; exact hf) (allwf_cons (by simp [WFF]) hwr) (by simp)
            | false => simp only [Bool.false_eq_true, if_false]; exact post_failed' (by rw [hsame.2.1]; exact hf) rfl
        · exact post_stack' hf (allwf_cons (by simp [WFF]) hwr) (by simp)
      | mapD alloc kvs key =>
        simp only [WFF] at hwt
        obtain ⟨h1, h2, h3⟩ := hwt
        simp only
        by_cases hodd : sub % 2 = 1
        · have hodd' := (mod2 sub).mp hodd
          simp only [hodd, if_true]
          cases key with
          | none => have := h2.mpr hodd'; simp at this
          | some k =>
            simp only
            rw [if_neg (ne_zero_of sub h1)]
            have hsub := sub_toNat sub h1
            by_cases h0 : sub - 1 = 0
            · simp only [h0, if_true]
              exact append_post ω fuel _ { c with stack := rest } hf hwr (by simp at hl ⊢; omega)
            · simp only [h0, if_false]
              simp only [Option.isSome_some, if_true] at h3
              refine post_stack' hf (allwf_cons ?_ hwr) (by simp)
              have hne : (sub - 1).toNat ≠ 0 := fun e => h0 ((eq_zero_iff _).mpr e)
              simp only [WFF, List.length_append, List.length_cons, List.length_nil, Option.isSome_none, Bool.false_eq_true, if_false]
              refine ⟨by omega, ?_, by omega⟩
              constructor
              · intro hh; cases hh
              · intro hh; omega
        · have hodd' : ¬ sub.toNat % 2 = 1 := fun e => hodd ((mod2 sub).mpr e)
          simp only [hodd, if_false]
          have hk : key = none := by
            cases key with
            | none => rfl
            | some k => have := h2.mp rfl; exact absurd this hodd'
          subst hk
          simp only [Option.isSome_none, Bool.false_eq_true, if_false, Nat.add_zero] at h3
          split
          · exact post_failed' hf rfl
          · rw [if_neg (ne_zero_of sub h1)]
            have hsub := sub_toNat sub h1
            have hne : ¬ sub - 1 = 0 := by
              intro e; have := (eq_zero_iff _).mp e; omega
            simp only [hne, if_false]
            refine post_stack' hf (allwf_cons ?_ hwr) (by simp)
            simp only [WFF, Option.isSome_some, if_true]
            refine ⟨by omega, ?_, by omega⟩
            constructor
            · intro _; omega
            · intro _; trivial
      | mapI alloc kvs key =>
        simp only [WFF] at hwt
        obtain ⟨h1, h2⟩ := hwt
        simp only
        by_cases hodd : sub % 2 = 1
        · simp only [hodd, if_true]
          have hs1 : sub = 1 := by
            rcases h1 with e | e
            · subst e; simp at hodd
            · exact e
          cases key with
          | none => have := h2.mpr hs1; simp at this
          | some k =>
            simp only
            subst hs1
            exact post_stack' hf (allwf_cons (by simp only [WFF]; exact ⟨Or.inl (by decide), by simp⟩) hwr) (by simp)
        · simp only [hodd, if_false]
          have hs0 : sub = 0 := by
            rcases h1 with e | e
            · exact e
            · subst e; simp at hodd
          subst hs0
          split
          · have hsame := same_growAlloc c ω szPair alloc
            cases hg : c.growAlloc ω szPair alloc with
            | mk ok c' =>
              rw [hg] at hsame
              simp only
              cases ok with
              | true =>
                simp only [if_true]
                exact post_stack' (by rw [hsame.2.1]; exact hf) (allwf_cons (by simp only [WFF]; exact ⟨Or.inr (by decide), by simp⟩) hwr) (by simp)
              | false => simp only [Bool.false_eq_true, if_false]; exact post_failed' (by rw [hsame.2.1]; exact hf) rfl
          · exact post_stack' hf (allwf_cons (by simp only [WFF]; exact ⟨Or.inr (by decide), by simp⟩) hwr) (by simp)
      | tag n x =>
        simp only [WFF] at hwt
        simp only
        rw [if_neg (by simp [hwt])]
        exact append_post ω fuel _ { c with stack := rest } hf hwr (by simp at hl ⊢; omega)
      | bstrI cap cs => exact post_syntax' hf rfl
      | tstrI cap cs => exact post_syntax' hf rfl

theorem post_of_same {c c' : Ctx} (hs : Same c c') (hp : Post c) : Post c' := by
  obtain ⟨h1, h2, h3, h4, h5⟩ := hs
  unfold Post at *
  rw [h2, h4, h5, h1, h3]; exact hp

/-- pushing a well-formed frame -/
theorem pushFrame_post (ω : Oracle) (L : Nat) (c : Ctx) (it : PItem) (sub : UInt64) (hf : c.fault = false) (hw : AllWF c.stack)
    (hwf : WFF ⟨it, sub⟩) : Post (pushFrame ω L c it sub) := by
  unfold pushFrame
  split
  · exact post_failed' hf rfl
  · have hsame := same_alloc c ω szStackRec
    cases hg : c.alloc ω szStackRec with
    | mk ok c' =>
      rw [hg] at hsame
      simp only
      cases ok with
      | true =>
        simp only [if_true]
        exact post_stack' (by rw [hsame.2.1]; exact hf) (allwf_cons hwf (by rw [hsame.1]; exact hw)) (by simp)
      | false => simp only [Bool.false_eq_true, if_false]; exact post_failed' (by rw [hsame.2.1]; exact hf) rfl

theorem scalar_post (ω : Oracle) (c : Ctx) (extra : Nat) (it : Spec.Item) (hf : c.fault = false) (hw : AllWF c.stack) :
    Post (scalar ω c extra it) := by
  unfold scalar
  have hsame := same_alloc c ω (szItem + extra)
  cases hg : c.alloc ω (szItem + extra) with
  | mk ok c' =>
    rw [hg] at hsame
    simp only
    cases ok with
    | true =>
      simp only [if_true]
      exact append_post ω _ it c' (by rw [hsame.2.1]; exact hf) (by rw [hsame.1]; exact hw) (by simp [fuelOf])
    | false => simp only [Bool.false_eq_true, if_false]; exact post_failed' (by rw [hsame.2.1]; exact hf) rfl

theorem stringCb_post (ω : Oracle) (c : Ctx) (isText : Bool) (data : List UInt8) (hf : c.fault = false) (hw : AllWF c.stack) :
    Post (stringCb ω c isText data) := by
  unfold stringCb
  have hs1 := same_alloc c ω data.length
  cases hg1 : c.alloc ω data.length with
  | mk ok1 c1 =>
    rw [hg1] at hs1
    simp only
    cases ok1 with
    | false => simp only [Bool.not_false, if_true]; exact post_failed' (by rw [hs1.2.1]; exact hf) rfl
    | true =>
      simp only [Bool.not_true, Bool.false_eq_true, if_false]
      have hs2 := same_alloc c1 ω szItem
      cases hg2 : c1.alloc ω szItem with
      | mk ok2 c2 =>
        rw [hg2] at hs2
        simp only
        have hf2 : c2.fault = false := by rw [hs2.2.1, hs1.2.1]; exact hf
        have hw2 : AllWF c2.stack := by rw [hs2.1, hs1.1]; exact hw
        cases ok2 with
        | false => simp only [Bool.not_false, if_true]; exact post_failed' hf2 rfl
        | true =>
          simp only [Bool.not_true, Bool.false_eq_true, if_false]
          cases hst : c2.stack with
          | nil => simp only; exact append_post ω _ _ c2 hf2 hw2 (by simp [fuelOf])
          | cons top rest =>
            rw [hst] at hw2
            have hwr := allwf_tail hw2
            obtain ⟨it, sub⟩ := top
            have happ : Post (append ω (fuelOf c2) (if isText = true then Spec.Item.text data else Spec.Item.bytes data) c2) :=
              append_post ω _ _ c2 hf2 (by rw [hst]; exact hw2) (by simp [fuelOf])
            cases it with
            | bstrI cap cs =>
              cases isText with
              | true => simpa using happ
              | false =>
                simp only
                split
                · have hsame := same_growAlloc c2 ω szPtr cap
                  cases hg : c2.growAlloc ω szPtr cap with
                  | mk ok c' =>
                    rw [hg] at hsame
                    simp only
                    cases ok with
                    | true => simp only [if_true]; exact post_stack' (by rw [hsame.2.1]; exact hf2) (allwf_cons (by simp [WFF]) hwr) (by simp)
                    | false => simp only [Bool.false_eq_true, if_false]; exact post_failed' (by rw [hsame.2.1]; exact hf2) rfl
                · exact post_stack' hf2 (allwf_cons (by simp [WFF]) hwr) (by simp)
            | tstrI cap cs =>
              cases isText with
              | false => simpa using happ
              | true =>
                simp only
                split
                · have hsame := same_growAlloc c2 ω szPtr cap
                  cases hg : c2.growAlloc ω szPtr cap with
                  | mk ok c' =>
                    rw [hg] at hsame
                    simp only
                    cases ok with
                    | true => simp only [if_true]; exact post_stack' (by rw [hsame.2.1]; exact hf2) (allwf_cons (by simp [WFF]) hwr) (by simp)
                    | false => simp only [Bool.false_eq_true, if_false]; exact post_failed' (by rw [hsame.2.1]; exact hf2) rfl
                · exact post_stack' hf2 (allwf_cons (by simp [WFF]) hwr) (by simp)
            | arrD _ _ => cases isText <;> simpa using happ
            | arrI _ _ => cases isText <;> simpa using happ
            | mapD _ _ _ => cases isText <;> simpa using happ
            | mapI _ _ _ => cases isText <;> simpa using happ
            | tag _ _ => cases isText <;> simpa using happ

theorem indefString_post (ω : Oracle) (L : Nat) (c : Ctx) (isText : Bool) (hf : c.fault = false) (hw : AllWF c.stack) :
    Post (indefString ω L c isText) := by
  unfold indefString
  have hs1 := same_alloc c ω szItem
  cases hg1 : c.alloc ω szItem with
  | mk ok1 c1 =>
    rw [hg1] at hs1
    simp only
    cases ok1 with
    | false => simp only [Bool.not_false, if_true]; exact post_failed' (by rw [hs1.2.1]; exact hf) rfl
    | true =>
      simp only [Bool.not_true, Bool.false_eq_true, if_false]
      have hs2 := same_alloc c1 ω szIndefStr
      cases hg2 : c1.alloc ω szIndefStr with
      | mk ok2 c2 =>
        rw [hg2] at hs2
        simp only
        have hf2 : c2.fault = false := by rw [hs2.2.1, hs1.2.1]; exact hf
        have hw2 : AllWF c2.stack := by rw [hs2.1, hs1.1]; exact hw
        cases ok2 with
        | false => simp only [Bool.not_false, if_true]; exact post_failed' hf2 rfl
        | true =>
          simp only [Bool.not_true, Bool.false_eq_true, if_false]
          exact pushFrame_post ω L c2 _ 0 hf2 hw2 (by cases isText <;> simp [WFF])

theorem mulOk_sound' (a : Nat) (n : UInt64) (ha : a < 2 ^ 64)
    (h : Gen._cbor_safe_to_multiply (UInt64.ofNat a) (UInt64.ofNat n.toNat) = true) : a * n.toNat < 2 ^ 64 := by
  have := Props.C20.C20_mul_sound _ _ h
  have e1 : (UInt64.ofNat a).toNat = a := by simp [UInt64.toNat_ofNat']; omega
  have e2 : (UInt64.ofNat n.toNat).toNat = n.toNat := by simp
  rw [e1, e2] at this; exact this

theorem arrayStart_post (ω : Oracle) (L : Nat) (c : Ctx) (n : UInt64) (hf : c.fault = false) (hw : AllWF c.stack) :
    Post (arrayStart ω L c n) := by
  unfold arrayStart
  have hs1 := same_alloc c ω szItem
  cases hg1 : c.alloc ω szItem with
  | mk ok1 c1 =>
    rw [hg1] at hs1
    simp only
    cases ok1 with
    | false => simp only [Bool.not_false, if_true]; exact post_failed' (by rw [hs1.2.1]; exact hf) rfl
    | true =>
      simp only [Bool.not_true, Bool.false_eq_true, if_false]
      have hs2 := same_allocMultiple c1 ω szPtr n.toNat
      cases hg2 : c1.allocMultiple ω szPtr n.toNat with
      | mk ok2 c2 =>
        rw [hg2] at hs2
        simp only
        have hf2 : c2.fault = false := by rw [hs2.2.1, hs1.2.1]; exact hf
        have hw2 : AllWF c2.stack := by rw [hs2.1, hs1.1]; exact hw
        cases ok2 with
        | false => simp only [Bool.not_false, if_true]; exact post_failed' hf2 rfl
        | true =>
          simp only [Bool.not_true, Bool.false_eq_true, if_false]
          split
          · rename_i hpos
            have : 1 ≤ n.toNat := by
              have := UInt64.lt_iff_toNat_lt.mp hpos; simp at this; omega
            exact pushFrame_post ω L c2 _ n hf2 hw2 (by simp only [WFF, List.length_nil]; omega)
          · exact append_post ω _ _ c2 hf2 hw2 (by simp [fuelOf])

theorem allocMultiple_ok {c : Ctx} {ω : Oracle} {a b : Nat} (h : (c.allocMultiple ω a b).1 = true) :
    Gen._cbor_safe_to_multiply (UInt64.ofNat a) (UInt64.ofNat b) = true := by
  unfold Ctx.allocMultiple at h
  split at h
  · assumption
  · simp at h

theorem mapStart_post (ω : Oracle) (L : Nat) (c : Ctx) (n : UInt64) (hf : c.fault = false) (hw : AllWF c.stack) :
    Post (mapStart ω L c n) := by
  unfold mapStart
  have hs1 := same_alloc c ω szItem
  cases hg1 : c.alloc ω szItem with
  | mk ok1 c1 =>
    rw [hg1] at hs1
    simp only
    cases ok1 with
    | false => simp only [Bool.not_false, if_true]; exact post_failed' (by rw [hs1.2.1]; exact hf) rfl
    | true =>
      simp only [Bool.not_true, Bool.false_eq_true, if_false]
      have hs2 := same_allocMultiple c1 ω szPair n.toNat
      have hok := @allocMultiple_ok c1 ω szPair n.toNat
      cases hg2 : c1.allocMultiple ω szPair n.toNat with
      | mk ok2 c2 =>
        rw [hg2] at hs2 hok
        simp only
        have hf2 : c2.fault = false := by rw [hs2.2.1, hs1.2.1]; exact hf
        have hw2 : AllWF c2.stack := by rw [hs2.1, hs1.1]; exact hw
        cases ok2 with
        | false => simp only [Bool.not_false, if_true]; exact post_failed' hf2 rfl
        | true =>
          simp only [Bool.not_true, Bool.false_eq_true, if_false]
          split
          · rename_i hpos
            have h1 : 1 ≤ n.toNat := by
              have := UInt64.lt_iff_toNat_lt.mp hpos; simp at this; omega
            have hm := mulOk_sound' szPair n (by simp [szPair]) (hok rfl)
            have h2 : (n * 2).toNat = 2 * n.toNat := by
              rw [UInt64.toNat_mul]; simp only [szPair] at hm
              have : (2 : UInt64).toNat = 2 := rfl
              rw [this]; omega
            refine pushFrame_post ω L c2 _ (n * 2) hf2 hw2 ?_
            simp only [WFF, List.length_nil, Option.isSome_none, Bool.false_eq_true, if_false, h2]
            refine ⟨by omega, ?_, by omega⟩
            constructor
            · intro hh; cases hh
            · intro hh; omega
          · exact append_post ω _ _ c2 hf2 hw2 (by simp [fuelOf])

theorem indefContainer_post (ω : Oracle) (L : Nat) (c : Ctx) (it : PItem) (hf : c.fault = false) (hw : AllWF c.stack)
    (hit : WFF ⟨it, 0⟩) : Post (indefContainer ω L c it) := by
  unfold indefContainer
  have hs1 := same_alloc c ω szItem
  cases hg1 : c.alloc ω szItem with
  | mk ok1 c1 =>
    rw [hg1] at hs1
    simp only
    cases ok1 with
    | false => simp only [Bool.not_false, if_true]; exact post_failed' (by rw [hs1.2.1]; exact hf) rfl
    | true =>
      simp only [Bool.not_true, Bool.false_eq_true, if_false]
      exact pushFrame_post ω L c1 it 0 (by rw [hs1.2.1]; exact hf) (by rw [hs1.1]; exact hw) hit

theorem tagCb_post (ω : Oracle) (L : Nat) (c : Ctx) (v : UInt64) (hf : c.fault = false) (hw : AllWF c.stack) :
    Post (tagCb ω L c v) := by
  unfold tagCb
  have hs1 := same_alloc c ω szItem
  cases hg1 : c.alloc ω szItem with
  | mk ok1 c1 =>
    rw [hg1] at hs1
    simp only
    cases ok1 with
    | false => simp only [Bool.not_false, if_true]; exact post_failed' (by rw [hs1.2.1]; exact hf) rfl
    | true =>
      simp only [Bool.not_true, Bool.false_eq_true, if_false]
      exact pushFrame_post ω L c1 _ 1 (by rw [hs1.2.1]; exact hf) (by rw [hs1.1]; exact hw) (by simp [WFF])

theorem breakCb_post (ω : Oracle) (c : Ctx) (hf : c.fault = false) (hw : AllWF c.stack) : Post (breakCb ω c) := by
  unfold breakCb
  cases hs : c.stack with
  | nil => exact post_syntax' hf rfl
  | cons top rest =>
    rw [hs] at hw
    have happ : ∀ it, Post (append ω (fuelOf c) it { c with stack := rest }) :=
      fun it => append_post ω _ it { c with stack := rest } hf (allwf_tail hw) (by simp [fuelOf, hs])
    obtain ⟨it, sub⟩ := top
    cases it with
    | arrD a b => simp only [Bool.false_and, Bool.false_eq_true, if_false]; exact post_syntax' hf rfl
    | mapD a b k => simp only [Bool.false_and, Bool.false_eq_true, if_false]; exact post_syntax' hf rfl
    | tag a b => simp only [Bool.false_and, Bool.false_eq_true, if_false]; exact post_syntax' hf rfl
    | arrI a b => simp only [Bool.true_and, Bool.not_false, Bool.true_or, if_true]; exact happ _
    | bstrI a b => simp only [Bool.true_and, Bool.not_false, Bool.true_or, if_true]; exact happ _
    | tstrI a b => simp only [Bool.true_and, Bool.not_false, Bool.true_or, if_true]; exact happ _
    | mapI a b k =>
      simp only [Bool.true_and, Bool.not_true, Bool.false_or]
      split
      · exact happ _
      · exact post_syntax' hf rfl

/-- an event is admissible for a buffer when a string payload it points at lies inside the buffer -/
def EventOK (src : Array UInt8) : Gen.Event → Prop
  | .byte_string off len => off + len.toNat ≤ src.size
  | .string off len => off + len.toNat ≤ src.size
  | _ => True

/-- **One callback never trips an assertion**, whatever the allocator does -/
theorem callback_post (ω : Oracle) (L : Nat) (src : Array UInt8) (c : Ctx) (e : Gen.Event) (hf : c.fault = false) (hw : AllWF c.stack)
    (he : EventOK src e) : Post (callback ω L src c e) := by
  cases e <;> simp only [callback]
  case byte_string off len => simp only [EventOK] at he; rw [if_pos he]; exact stringCb_post ω c _ _ hf hw
  case string off len => simp only [EventOK] at he; rw [if_pos he]; exact stringCb_post ω c _ _ hf hw
  case byte_string_start => exact indefString_post ω L c _ hf hw
  case string_start => exact indefString_post ω L c _ hf hw
  case array_start n => exact arrayStart_post ω L c n hf hw
  case map_start n => exact mapStart_post ω L c n hf hw
  case indef_array_start => exact indefContainer_post ω L c _ hf hw (by simp [WFF])
  case indef_map_start => exact indefContainer_post ω L c _ hf hw (by simp [WFF])
  case tag v => exact tagCb_post ω L c v hf hw
  case indef_break => exact breakCb_post ω c hf hw
  all_goals exact scalar_post ω c _ _ hf hw

open Gen Lemmas in
theorem event_ok (src : Array UInt8) (read : Nat) (e : Event) (t : Spec.Tok) (hm : tokMatch read e t = true)
    (hp : ∀ o pl, t.payload = some (o, pl) → 1 ≤ o ∧ read + o + pl ≤ src.size) : EventOK src e := by
  cases e <;> simp only [EventOK]
  case byte_string off len =>
    simp only [tokMatch, toTok, beq_iff_eq] at hm
    subst hm
    have := hp _ _ rfl
    omega
  case string off len =>
    simp only [tokMatch, toTok, beq_iff_eq] at hm
    subst hm
    have := hp _ _ rfl
    omega

/-- the two possible outcomes of a load -/
def TwoOutcomes (o : LoadOut) : Prop :=
  o.fault = false ∧ ((∃ x, o.item = some x ∧ o.result.code = .none) ∨ (o.item = none ∧ o.result.code ≠ .none))

open Gen Lemmas in
theorem loop_safe (ω : Oracle) (L : Nat) (src : Array UInt8) (hsz : src.size < 2 ^ 64 - 1) :
    ∀ (fuel : Nat) (c : Ctx) (read : Nat), c.fault = false → AllWF c.stack → src.size - read < fuel → read ≤ src.size →
      TwoOutcomes (loadLoop ω L src fuel c read)
  | 0, _, _, _, _, hl, _ => by omega
  | fuel+1, c, read, hf, hw, hl, hr => by
    unfold loadLoop
    by_cases hmore : src.size > read
    · rw [if_pos hmore]
      have hn : (UInt64.ofNat (src.size - read)).toNat = src.size - read := by simp [UInt64.toNat_ofNat']; omega
      have hrel := sd_spec src read (UInt64.ofNat (src.size - read)) (by rw [hn]; omega)
      rw [hn] at hrel
      simp only
      cases hd : Spec.decodeHead (Spec.getA src read) (src.size - read) with
      | ok t l =>
        rw [hd] at hrel
        obtain ⟨h1, h2, _, e, h4, h5⟩ := hrel
        have hok := Spec.decodeHead_ok hd
        have heok : EventOK src e := event_ok src read e t h5 (fun o pl hp => by have := hok.2.2 o pl hp; omega)
        have hpost := callback_post ω L src c e hf hw heok
        rw [h4]
        have hfold : List.foldl (callback ω L src) c [e] = callback ω L src c e := rfl
        rw [hfold]
        have hfin : (cbor_stream_decode src read (UInt64.ofNat (src.size - read))).1.status = CBOR_DECODER_FINISHED := by rw [h1]; rfl
        rw [if_pos hfin, h2]
        obtain ⟨pf, pr⟩ := hpost
        split
        · exact ⟨pf, Or.inr ⟨rfl, by simp⟩⟩
        · rename_i hcf
          split
          · exact ⟨pf, Or.inr ⟨rfl, by simp⟩⟩
          · rename_i hse
            have hgood : AllWF (callback ω L src c e).stack ∧ ((callback ω L src c e).stack = [] → (callback ω L src c e).root.isSome) := by
              rcases pr with h | h | h
              · exact absurd h hcf
              · exact absurd h hse
              · exact h
            split
            · exact loop_safe ω L src hsz fuel _ (read + l) pf hgood.1 (by omega) (by omega)
            · rename_i hst
              have hnil : (callback ω L src c e).stack = [] := by
                cases hh : (callback ω L src c e).stack with
                | nil => rfl
                | cons a b => rw [hh] at hst; simp at hst
              have hroot := hgood.2 hnil
              cases hrt : (callback ω L src c e).root with
              | none => rw [hrt] at hroot; simp at hroot
              | some x => exact ⟨by simp [pf], Or.inl ⟨x, rfl, rfl⟩⟩
      | nedata need =>
        rw [hd] at hrel
        obtain ⟨h1, _, h3, _⟩ := hrel
        rw [h3]
        have hfold : List.foldl (callback ω L src) c [] = c := rfl
        rw [hfold]
        have hnf : ¬ (cbor_stream_decode src read (UInt64.ofNat (src.size - read))).1.status = CBOR_DECODER_FINISHED := by rw [h1]; decide
        have hne : (cbor_stream_decode src read (UInt64.ofNat (src.size - read))).1.status = CBOR_DECODER_NEDATA := by rw [h1]; rfl
        rw [if_neg hnf, if_pos hne]
        exact ⟨hf, Or.inr ⟨rfl, by simp⟩⟩
      | error =>
        rw [hd] at hrel
        obtain ⟨h1, _, _, h4⟩ := hrel
        rw [h4]
        have hfold : List.foldl (callback ω L src) c [] = c := rfl
        rw [hfold]
        have hnf : ¬ (cbor_stream_decode src read (UInt64.ofNat (src.size - read))).1.status = CBOR_DECODER_FINISHED := by rw [h1]; decide
        have hne : ¬ (cbor_stream_decode src read (UInt64.ofNat (src.size - read))).1.status = CBOR_DECODER_NEDATA := by rw [h1]; decide
        rw [if_neg hnf, if_neg hne]
        exact ⟨hf, Or.inr ⟨rfl, by simp⟩⟩
    · rw [if_neg hmore]
      exact ⟨hf, Or.inr ⟨rfl, by simp⟩⟩

/-- **Every allocation schedule.**  For every allocator oracle — every choice of which requests are refused — every
buffer and every nesting limit, the model of `cbor_load` finishes with its internal-consistency flag clear and with
exactly one of the two outcomes: an item and code NONE, or no item and an error code. -/
theorem load_safe (ω : Oracle) (L : Nat) (r0 : LoadResult) (src : Array UInt8) (hsz : src.size < 2 ^ 64 - 1) :
    TwoOutcomes (load ω L r0 src) := by
  unfold load
  split
  · exact ⟨rfl, Or.inr ⟨rfl, by simp⟩⟩
  · exact loop_safe ω L src hsz (src.size + 1) {} 0 rfl (by simp [AllWF]) (by omega) (by omega)

end Lemmas.Safe

import Cbor.Lemmas.Half
/-! shard 22 of the exhaustive binary16 table check (patterns 22528 .. 23551), kernel-evaluated -/
namespace Lemmas
theorem half_shard_22 : halfShardOk 22 = true := by decide +kernel
end Lemmas

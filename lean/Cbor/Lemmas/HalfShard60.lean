import Cbor.Lemmas.Half
/-! shard 60 of the exhaustive binary16 table check (patterns 61440 .. 62463), kernel-evaluated -/
namespace Lemmas
theorem half_shard_60 : halfShardOk 60 = true := by decide +kernel
end Lemmas

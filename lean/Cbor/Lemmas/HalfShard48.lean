import Cbor.Lemmas.Half
/-! shard 48 of the exhaustive binary16 table check (patterns 49152 .. 50175), kernel-evaluated -/
namespace Lemmas
theorem half_shard_48 : halfShardOk 48 = true := by decide +kernel
end Lemmas

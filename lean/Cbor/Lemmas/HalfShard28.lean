import Cbor.Lemmas.Half
/-! shard 28 of the exhaustive binary16 table check (patterns 28672 .. 29695), kernel-evaluated -/
namespace Lemmas
theorem half_shard_28 : halfShardOk 28 = true := by decide +kernel
end Lemmas

import Cbor.Lemmas.Half
/-! shard 20 of the exhaustive binary16 table check (patterns 20480 .. 21503), kernel-evaluated -/
namespace Lemmas
theorem half_shard_20 : halfShardOk 20 = true := by decide +kernel
end Lemmas

import Cbor.Lemmas.Half
/-! shard 3 of the exhaustive binary16 table check (patterns 3072 .. 4095), kernel-evaluated -/
namespace Lemmas
theorem half_shard_3 : halfShardOk 3 = true := by decide +kernel
end Lemmas

import Cbor.Props.C03
import Cbor.Props.C16
/-!
# Text content never decides acceptance, and is preserved (the last two clauses of C16)

`Spec.RT.Canon` and `Lemmas.Ser.Valid` put **no** condition on the bytes of a text string (only that its length fits the
head), so the round-trip theorem `Props.C03.C03_roundtrip` already says: whatever bytes a definite text string, or the chunks
of an indefinite one, contain — valid UTF-8 or not — the encoding is accepted by the model of `cbor_load` and the decoded item
holds exactly those bytes, with exactly that length.  Spelled out here for the string cases.
-/
namespace Props.C16
open Spec Model

/-- **A definite text string is never rejected because of its content, and its bytes are preserved**: for *every* byte
sequence `bs` (no UTF-8 condition whatsoever) the model of `cbor_load` accepts the text string carrying `bs`, consumes
exactly its encoding, and the decoded item holds exactly `bs` -/
theorem C16_never_rejects (bs : List UInt8) (L : Nat) (r0 : LoadResult) (hsz : (encode (.text bs)).length < 2 ^ 56) :
    let o := Model.load Lemmas.Refine.ωT L r0 (encode (.text bs)).toArray
    o.item = some (.text bs) ∧ o.result.code = .none ∧ o.result.read = (encode (.text bs)).length ∧ o.fault = false := by
  have hlen : bs.length < 2 ^ 64 := by
    have : bs.length ≤ (encode (.text bs)).length := by simp [encode]
    omega
  have h := Props.C03.C03_roundtrip (.text bs) (by simp [Lemmas.Ser.Valid]) (by simpa [Spec.RT.Canon] using hlen) L
    (by simp [openDepth]) hsz r0
  simp only [Spec.RT.renorm] at h
  exact ⟨h.1, h.2.1, h.2.2.1, h.2.2.2.1⟩

/-- the same for an indefinite text string with arbitrary chunks (needs one open level) -/
theorem C16_never_rejects_chunked (cs : List (List UInt8)) (L : Nat) (hL : 1 ≤ L) (r0 : LoadResult)
    (hsz : (encode (.textI cs)).length < 2 ^ 56) (hc : ∀ c ∈ cs, c.length < 2 ^ 64) :
    let o := Model.load Lemmas.Refine.ωT L r0 (encode (.textI cs)).toArray
    o.item = some (.textI cs) ∧ o.result.code = .none ∧ o.result.read = (encode (.textI cs)).length ∧ o.fault = false := by
  have h := Props.C03.C03_roundtrip (.textI cs) (by simp [Lemmas.Ser.Valid]) (by simpa [Spec.RT.Canon] using hc) L
    (by simpa [openDepth] using hL) hsz r0
  simp only [Spec.RT.renorm] at h
  exact ⟨h.1, h.2.1, h.2.2.1, h.2.2.2.1⟩

/-- non-vacuity: a text string holding the lone continuation byte 0x80 and an overlong encoding is accepted as is -/
example : (Model.load Lemmas.Refine.ωT 2048 ⟨.none, 0, 0⟩ (encode (.text [0x80, 0xc0, 0xaf])).toArray).item.isSome = true := by
  decide +kernel

end Props.C16

import Cbor.Lemmas.Half
/-! shard 47 of the exhaustive binary16 table check (patterns 48128 .. 49151), kernel-evaluated -/
namespace Lemmas
theorem half_shard_47 : halfShardOk 47 = true := by decide +kernel
end Lemmas

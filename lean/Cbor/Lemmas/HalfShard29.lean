import Cbor.Lemmas.Half
/-! shard 29 of the exhaustive binary16 table check (patterns 29696 .. 30719), kernel-evaluated -/
namespace Lemmas
theorem half_shard_29 : halfShardOk 29 = true := by decide +kernel
end Lemmas

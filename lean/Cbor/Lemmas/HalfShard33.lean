import Cbor.Lemmas.Half
/-! shard 33 of the exhaustive binary16 table check (patterns 33792 .. 34815), kernel-evaluated -/
namespace Lemmas
theorem half_shard_33 : halfShardOk 33 = true := by decide +kernel
end Lemmas

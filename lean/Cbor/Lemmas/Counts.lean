import Cbor.Lemmas.Heap
/-!
# Reference counts equal references (the invariant behind C04)

`Counts h own`: every live item's reference count is the number of references live containers hold to it
plus the number the client owns (`own`); nothing refers to, and the client owns nothing of, a released item.
-/
namespace Heap

def cellRefs : Option Cell → List Ref
  | some c => c.node.children
  | none => []

/-- all references held by live items -/
def H.refs (h : H) : List Ref := h.cells.flatMap cellRefs

def Counts (h : H) (own : Ref → Nat) : Prop :=
  ∀ r, match h.get r with
    | some c => c.rc = h.refs.count r + own r
    | none => h.refs.count r = 0 ∧ own r = 0

/-- the client (or a pending release) owns `k` more references to `x` -/
def bump (own : Ref → Nat) (x : Ref) (k : Nat) : Ref → Nat := fun r => own r + if r = x then k else 0
def bumpL (own : Ref → Nat) (xs : List Ref) : Ref → Nat := fun r => own r + xs.count r

theorem bumpL_nil (own : Ref → Nat) : bumpL own [] = own := by funext r; simp [bumpL]
theorem bumpL_cons (own : Ref → Nat) (x : Ref) (xs : List Ref) : bumpL own (x :: xs) = bump (bumpL own xs) x 1 := by
  funext r; simp only [bumpL, bump, List.count_cons]
  by_cases e : x = r
  · subst e; simp; omega
  · have : ¬ r = x := fun h => e h.symm
    simp [e, this]

theorem count_flatMap_set (l : List (Option Cell)) (a : Nat) (v : Option Cell) (r : Ref) (ha : a < l.length) :
    ((l.set a v).flatMap cellRefs).count r + (cellRefs l[a]).count r = (l.flatMap cellRefs).count r + (cellRefs v).count r := by
  induction l generalizing a with
  | nil => simp at ha
  | cons x xs ih =>
    cases a with
    | zero => simp [List.count_append]; omega
    | succ a =>
      simp only [List.set_cons_succ, List.flatMap_cons, List.count_append, List.getElem_cons_succ]
      have := ih a (by simpa using ha)
      omega

theorem get_eq_getElem (h : H) (a : Ref) (ha : a < h.cells.length) : h.get a = h.cells[a] := by
  simp [H.get, ha]

/-- references after overwriting one cell -/
theorem refs_put (h : H) (a : Ref) (v : Option Cell) (r : Ref) (ha : a < h.cells.length) :
    (h.put a v).refs.count r + (cellRefs (h.get a)).count r = h.refs.count r + (cellRefs v).count r := by
  rw [get_eq_getElem h a ha]
  exact count_flatMap_set h.cells a v r ha

theorem refs_new (h : H) (n : Node) : (h.new n).2.refs = h.refs ++ n.children := by
  simp [H.new, H.refs, cellRefs]

theorem get_new_same (h : H) (n : Node) : (h.new n).2.get h.cells.length = some ⟨n, 1⟩ := by
  simp [H.new, H.get]

theorem get_new_other (h : H) (n : Node) (r : Ref) (hr : r ≠ h.cells.length) : (h.new n).2.get r = h.get r := by
  simp only [H.new, H.get]
  by_cases hl : r < h.cells.length
  · rw [List.getElem?_append_left hl]
  · have : h.cells.length < r := Nat.lt_of_le_of_ne (Nat.le_of_not_lt hl) (Ne.symm hr)
    rw [List.getElem?_eq_none (by simp only [List.length_append, List.length_cons, List.length_nil]; omega), List.getElem?_eq_none (by omega)]

theorem get_none_of_ge (h : H) (r : Ref) (hr : h.cells.length ≤ r) : h.get r = none := by
  simp [H.get, List.getElem?_eq_none hr]

/-- a new childless item: the client owns its single reference -/
theorem counts_new (h : H) (own : Ref → Nat) (n : Node) (hn : n.children = []) (hc : Counts h own) :
    Counts (h.new n).2 (bump own h.cells.length 1) := by
  intro r
  have hfresh := hc h.cells.length
  rw [get_none_of_ge h _ (Nat.le_refl _)] at hfresh
  by_cases e : r = h.cells.length
  · subst e
    rw [get_new_same, refs_new, hn]
    simp [bump, hfresh.1, hfresh.2]
  · rw [get_new_other h n r e, refs_new, hn, List.append_nil]
    have := hc r
    simp only [bump, e, if_false, Nat.add_zero]
    exact this

theorem counts_incref (h : H) (own : Ref → Nat) (x : Ref) (c : Cell) (hg : h.get x = some c) (hc : Counts h own) :
    Counts (h.incref x) (bump own x 1) := by
  have hl := get_lt hg
  have hrefs : ∀ r, (h.incref x).refs.count r = h.refs.count r := by
    intro r
    have := refs_put h x (some { c with rc := c.rc + 1 }) r hl
    simp only [hg, cellRefs] at this
    simp only [H.incref, hg]; omega
  intro r
  rw [hrefs]
  by_cases e : r = x
  · subst e
    rw [incref_get_same h r c hg]
    have := hc r; rw [hg] at this
    simp [bump]; omega
  · rw [incref_get_other h x r e]
    have := hc r
    simp only [bump, e, if_false, Nat.add_zero]; exact this

theorem count_children_le (h : H) (a : Ref) (c : Cell) (hg : h.get a = some c) (r : Ref) :
    c.node.children.count r ≤ h.refs.count r := by
  have hl := get_lt hg
  have := refs_put h a none r hl
  simp only [hg, cellRefs, List.count_nil] at this
  omega

theorem liveCells_le_of_shrinks {h h' : H} (hs : Shrinks h h') : h'.liveCells ≤ h.liveCells := by
  obtain ⟨hl, _, hp⟩ := hs
  have key : ∀ (l l' : List (Option Cell)), l'.length = l.length →
      (∀ i : Nat, (l'[i]?).join.isSome → (l[i]?).join.isSome) → (l'.filter Option.isSome).length ≤ (l.filter Option.isSome).length := by
    intro l
    induction l with
    | nil => intro l' hl' _; cases l' with | nil => simp | cons _ _ => simp at hl'
    | cons x xs ih =>
      intro l' hl' hi
      cases l' with
      | nil => simp at hl'
      | cons y ys =>
        have h0 := hi 0
        have ht := ih ys (by simpa using hl') (fun i hh => by simpa using hi (i + 1) (by simpa using hh))
        simp only [List.getElem?_cons_zero, Option.join_some] at h0
        cases y with
        | none =>
          cases x with
          | none => simpa using ht
          | some w => simp only [List.filter_cons, Option.isSome_none, Option.isSome_some]; simp; omega
        | some v =>
          have := h0 rfl
          cases x with
          | none => simp at this
          | some w => simp only [List.filter_cons, Option.isSome_some]; simp; omega
  apply key h.cells h'.cells hl
  intro i hi
  cases hh : h'.get i with
  | none => simp [H.get] at hh; rw [hh] at hi; simp at hi
  | some c' =>
    obtain ⟨c, hg, _⟩ := hp i c' hh
    simp [H.get] at hg; rw [hg]; rfl

theorem liveCells_put_none (h : H) (r : Ref) (c : Cell) (hg : h.get r = some c) : (h.put r none).liveCells + 1 = h.liveCells := by
  have hl := get_lt hg
  have he : h.cells[r] = some c := by rw [← get_eq_getElem h r hl, hg]
  unfold H.liveCells H.put
  simp only
  have key : ∀ (l : List (Option Cell)) (r : Nat) (hr : r < l.length), l[r] = some c →
      ((l.set r none).filter Option.isSome).length + 1 = (l.filter Option.isSome).length := by
    intro l
    induction l with
    | nil => intro r hr; simp at hr
    | cons x xs ih =>
      intro r hr he
      cases r with
      | zero => simp at he; subst he; simp
      | succ r =>
        have := ih r (by simpa using hr) (by simpa using he)
        cases x with
        | none => simpa using this
        | some w => simp only [List.set_cons_succ, List.filter_cons, Option.isSome_some]; simp; omega
  exact key h.cells r hl he

mutual
/-- **Releasing a reference keeps the books**: if the counts are right when one more reference to `r` is
owned, they are right after `decref`, with that reference gone; no rule is broken. -/
theorem decref_counts : ∀ (f : Nat) (h : H) (r : Ref) (own : Ref → Nat), Counts h (bump own r 1) → h.liveCells ≤ f →
    Counts (decref f h r) own ∧ (decref f h r).fault = h.fault
  | 0, h, r, own, hc, hf => by
    exfalso
    have := hc r
    cases hg : h.get r with
    | none => rw [hg] at this; simp [bump] at this
    | some c =>
      have hl := get_lt hg
      have : 0 < h.liveCells := by
        have := liveCells_put_none h r c hg; omega
      omega
  | f+1, h, r, own, hc, hf => by
    have hr := hc r
    unfold decref
    cases hg : h.get r with
    | none => rw [hg] at hr; simp [bump] at hr
    | some c =>
      rw [hg] at hr
      simp only [bump, if_true] at hr
      simp only
      have h0 : ¬ c.rc = 0 := by omega
      simp only [h0, if_false]
      have hl := get_lt hg
      by_cases h1 : c.rc = 1
      · simp only [h1, if_true]
        have hcnt : h.refs.count r = 0 := by omega
        have hown : own r = 0 := by omega
        -- after the cell is released, its children are references owned by the cascade
        have hc1 : Counts (h.put r none) (bumpL own c.node.children) := by
          intro x
          have hp := refs_put h r none x hl
          simp only [hg, cellRefs, List.count_nil, Nat.add_zero] at hp
          by_cases e : x = r
          · subst e
            rw [get_put_same _ _ _ hl]
            have := count_children_le h x c hg x
            simp only [bumpL]
            omega
          · rw [get_put_other _ _ _ _ e]
            have hx := hc x
            cases hgx : h.get x with
            | none =>
              rw [hgx] at hx
              simp only [bump, e, if_false, Nat.add_zero] at hx
              have := count_children_le h r c hg x
              simp only [bumpL]; omega
            | some cx =>
              rw [hgx] at hx
              simp only [bump, e, if_false, Nat.add_zero] at hx
              simp only [bumpL]; omega
        have hlive : (h.put r none).liveCells ≤ f := by
          have := liveCells_put_none h r c hg; omega
        have := decrefs_counts f c.node.children (h.put r none) own hc1 hlive
        exact ⟨this.1, this.2⟩
      · simp only [h1, if_false]
        refine ⟨?_, rfl⟩
        intro x
        have hp := refs_put h r (some { c with rc := c.rc - 1 }) x hl
        simp only [hg, cellRefs] at hp
        by_cases e : x = r
        · subst e
          rw [get_put_same _ _ _ hl]
          simp only; omega
        · rw [get_put_other _ _ _ _ e]
          have hx := hc x
          simp only [bump, e, if_false, Nat.add_zero] at hx
          cases hgx : h.get x with
          | none => rw [hgx] at hx; simp only; omega
          | some cx => rw [hgx] at hx; simp only; omega
theorem decrefs_counts : ∀ (f : Nat) (xs : List Ref) (h : H) (own : Ref → Nat), Counts h (bumpL own xs) → h.liveCells ≤ f →
    Counts (xs.foldl (decref f) h) own ∧ (xs.foldl (decref f) h).fault = h.fault
  | _, [], h, own, hc, _ => by rw [bumpL_nil] at hc; exact ⟨hc, rfl⟩
  | f, x :: xs, h, own, hc, hf => by
    rw [bumpL_cons] at hc
    have h1 := decref_counts f h x (bumpL own xs) hc hf
    have hl := liveCells_le_of_shrinks (decref_shrinks f h x)
    have h2 := decrefs_counts f xs (decref f h x) own h1.1 (by omega)
    simp only [List.foldl_cons]
    exact ⟨h2.1, h2.2.trans h1.2⟩
end

theorem liveCells_lt_fuel (h : H) : h.liveCells ≤ h.fuel := by
  unfold H.liveCells H.fuel
  have := List.length_filter_le Option.isSome h.cells
  omega

theorem H.decref_counts (h : H) (r : Ref) (own : Ref → Nat) (hc : Counts h (bump own r 1)) :
    Counts (h.decref r) own ∧ (h.decref r).fault = h.fault :=
  Heap.decref_counts h.fuel h r own hc (liveCells_lt_fuel h)

end Heap

import Cbor.Lemmas.Half
/-! shard 17 of the exhaustive binary16 table check (patterns 17408 .. 18431), kernel-evaluated -/
namespace Lemmas
theorem half_shard_17 : halfShardOk 17 = true := by decide +kernel
end Lemmas

import Cbor.Lemmas.PubEncoders
import Cbor.Spec.Float
import Cbor.Spec.Decode
/-!
Half-precision floats: the generated `cbor_encode_half`, the hand-modelled `_cbor_decode_half`
(`Ext.decodeHalfBits`), and the IEEE 754 value semantics of `Spec.Float`.
-/
set_option linter.unusedSimpArgs false
namespace Lemmas
open Gen

/-- the 16-bit pattern `cbor_encode_half` puts after the 0xF9 byte, read off the generated function itself -/
def halfRes (v : UInt32) : UInt16 :=
  let r := cbor_encode_half v #[0, 0, 0] 0 3
  UInt16.ofNat ((r.2.getD 1 0).toNat * 256 + (r.2.getD 2 0).toNat)

theorem recover16 (res : UInt16) :
    (let r := _cbor_encode_uint16 res #[0, 0, 0] 0 3 (224 : UInt8)
     UInt16.ofNat ((r.2.getD 1 0).toNat * 256 + (r.2.getD 2 0).toNat)) = res := by
  have hv := res.toNat_lt
  rw [o7, enc16 _ _ _ _ 7 (by omega), hb_25]   -- via the specification lemma: independent of the generated text
  apply UInt16.toNat_inj.mp
  simp [encRes, writeList]
  omega

/-- whatever the float, `cbor_encode_half` ends in one call of the 16-bit head encoder with offset 0xE0 -/
theorem half_struct (v : UInt32) (buf : Array UInt8) (off : Nat) (n : UInt64) :
    cbor_encode_half v buf off n = _cbor_encode_uint16 (halfRes v) buf off n (224 : UInt8) := by
  unfold halfRes cbor_encode_half
  simp only []
  repeat' split
  all_goals simp only [recover16]

theorem pub_half (v : UInt32) (buf : Array UInt8) (off : Nat) (n : UInt64) :
    cbor_encode_half v buf off n = encRes buf off n (Spec.headBytes 7 25 (halfRes v).toNat) := by
  rw [half_struct, o7, enc16 _ _ _ _ 7 (by omega)]

/-- force `n` to a numeral before continuing (kernel evaluation is call-by-name; this avoids re-evaluating
the same sub-term once per use) -/
def strict {α : Type} (n : Nat) (f : Nat → α) : α :=
  match n with
  | 0 => f 0
  | m+1 => f (m+1)

theorem strict_eq {α : Type} (n : Nat) (f : Nat → α) : strict n f = f n := by
  cases n <;> rfl

/-- per-pattern check: (1) the decoded binary32 denotes exactly the value the binary16 pattern denotes,
(2) re-encoding it gives the pattern back, or the canonical quiet NaN for a NaN;
also: the hand-written model of `_cbor_decode_half` agrees with the Spec's conversion, and the Spec's
single→half conversion inverts it -/
def halfCheck (h : Nat) : Bool :=
  strict (Ext.decodeHalfBits h).toNat fun f =>
    f == Spec.halfToSingle h &&
    Spec.Float.singleToHalf f == Spec.Float.canonHalf h &&
    Spec.Float.singleValue f == Spec.Float.halfValue h &&
    strict (halfRes (UInt32.ofNat f)).toNat fun r => r == Spec.Float.canonHalf h

def halfShardOk (i : Nat) : Bool := (List.range 1024).all fun k => halfCheck (i * 1024 + k)

end Lemmas

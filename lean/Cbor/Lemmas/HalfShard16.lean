import Cbor.Lemmas.Half
/-! shard 16 of the exhaustive binary16 table check (patterns 16384 .. 17407), kernel-evaluated -/
namespace Lemmas
theorem half_shard_16 : halfShardOk 16 = true := by decide +kernel
end Lemmas

import Cbor.Lemmas.Half
/-! shard 18 of the exhaustive binary16 table check (patterns 18432 .. 19455), kernel-evaluated -/
namespace Lemmas
theorem half_shard_18 : halfShardOk 18 = true := by decide +kernel
end Lemmas

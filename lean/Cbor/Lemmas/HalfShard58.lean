import Cbor.Lemmas.Half
/-! shard 58 of the exhaustive binary16 table check (patterns 59392 .. 60415), kernel-evaluated -/
namespace Lemmas
theorem half_shard_58 : halfShardOk 58 = true := by decide +kernel
end Lemmas

import Cbor.Model.Abs
/-!
# The fundamental lemma: the stack machine `Abs.run` computes the reference decoder `Spec.item`

For every buffer, offset, nesting limit and allocation predicate: running the stack machine from stack `s`
over the bytes of an item the reference decoder accepts delivers exactly that item to `s` and stops at the
same offset; and where the reference decoder reports an error, the machine stops with the same error at
the same offset (lazy reporting inside chunked strings).  One induction on the fuel of the reference
decoder, simultaneously for items and for the five kinds of member sequences.
-/
namespace Lemmas.Fund
open Spec Abs

variable {L : Nat} {okA : AllocOk} {get : Nat → UInt8} {len : Nat}

theorem headAt_ok {p : Nat} {tok : Tok} {l : Nat} (h : headAt get len p = .ok tok l) : 1 ≤ l ∧ p + l ≤ len := by
  have := decodeHead_ok h
  omega

/-- fuel beyond the number of remaining bytes is irrelevant -/
theorem run_fuel : ∀ (F1 F2 : Nat) (s : List Frame) (p : Nat), F1 > len - p → F2 > len - p →
    run L okA get len F1 s p = run L okA get len F2 s p := by
  intro F1
  induction F1 with
  | zero => intro F2 s p h; omega
  | succ F1 ih =>
    intro F2 s p h1 h2
    obtain ⟨F2, rfl⟩ : ∃ k, F2 = k + 1 := ⟨F2 - 1, by omega⟩
    rw [run_succ, run_succ]
    cases hh : headAt get len p with
    | nedata n => rfl
    | error => rfl
    | ok tok l =>
      have hl := headAt_ok hh
      simp only
      cases stepTok L okA get p tok s with
      | cont s' => simp only [resume]; exact ih F2 s' (p + l) (by omega) (by omega)
      | done x => rfl
      | syn => rfl
      | mem => rfl

/-- from stack `s` at offset `p` the machine gets to outcome `out` at offset `q` -/
def RunsTo (L : Nat) (okA : AllocOk) (get : Nat → UInt8) (len : Nat) (s : List Frame) (p : Nat) (out : Out) (q : Nat) : Prop :=
  ∀ F F', F > len - p → F' > len - q → run L okA get len F s p = resume L okA get len F' out q

/-- from stack `s` at offset `p` the machine stops with error `e` at `r` -/
def RunsErr (L : Nat) (okA : AllocOk) (get : Nat → UInt8) (len : Nat) (s : List Frame) (p : Nat) (e : Err) (r : Nat) : Prop :=
  ∀ F, F > len - p → run L okA get len F s p = .err e r

theorem resume_fuel (F1 F2 : Nat) (out : Out) (q : Nat) (h1 : F1 > len - q) (h2 : F2 > len - q) :
    resume L okA get len F1 out q = resume L okA get len F2 out q := by
  cases out with
  | cont s => simp only [resume]; exact run_fuel F1 F2 s q h1 h2
  | done x => rfl
  | syn => rfl
  | mem => rfl

theorem step_runs {s : List Frame} {p : Nat} {tok : Tok} {l : Nat} (h : headAt get len p = .ok tok l) :
    RunsTo L okA get len s p (stepTok L okA get p tok s) (p + l) := by
  intro F F' hF hF'
  have hl := headAt_ok h
  obtain ⟨F, rfl⟩ : ∃ k, F = k + 1 := ⟨F - 1, by omega⟩
  rw [run_succ, h]
  exact resume_fuel F F' _ _ (by omega) hF'

theorem runsTo_trans {s s' : List Frame} {p q r : Nat} {out : Out} (hpq : p ≤ q)
    (h1 : RunsTo L okA get len s p (.cont s') q) (h2 : RunsTo L okA get len s' q out r) :
    RunsTo L okA get len s p out r := by
  intro F F' hF hF'
  rw [h1 F (len - q + 1) hF (by omega)]
  simp only [resume]
  exact h2 _ F' (by omega) hF'

theorem runsTo_err {s s' : List Frame} {p q r : Nat} {e : Err}
    (h1 : RunsTo L okA get len s p (.cont s') q) (h2 : RunsErr L okA get len s' q e r) :
    RunsErr L okA get len s p e r := by
  intro F hF
  rw [h1 F (len - q + 1) hF (by omega)]
  simp only [resume]
  exact h2 _ (by omega)

theorem runsTo_syn {s : List Frame} {p q : Nat} (h1 : RunsTo L okA get len s p .syn q) :
    RunsErr L okA get len s p .syntax q := by
  intro F hF
  rw [h1 F (len - q + 1) hF (by omega)]; rfl

theorem runsTo_mem {s : List Frame} {p q : Nat} (h1 : RunsTo L okA get len s p .mem q) :
    RunsErr L okA get len s p .mem q := by
  intro F hF
  rw [h1 F (len - q + 1) hF (by omega)]; rfl

theorem head_nedata {s : List Frame} {p n : Nat} (h : headAt get len p = .nedata n) :
    RunsErr L okA get len s p .notEnough p := by
  intro F hF
  obtain ⟨F, rfl⟩ : ∃ k, F = k + 1 := ⟨F - 1, by omega⟩
  rw [run_succ, h]

theorem head_error {s : List Frame} {p : Nat} (h : headAt get len p = .error) :
    RunsErr L okA get len s p .malformed p := by
  intro F hF
  obtain ⟨F, rfl⟩ : ∃ k, F = k + 1 := ⟨F - 1, by omega⟩
  rw [run_succ, h]

/-- the head `tok` is not one the top frame of `s` treats specially (a break closing it, or a chunk of it) -/
def Plain (s : List Frame) (tok : Tok) : Prop :=
  match s, tok with
  | .arrI _ :: _, .brk => False
  | .mapI _ none :: _, .brk => False
  | .bstr _ :: _, .brk => False
  | .tstr _ :: _, .brk => False
  | .bstr _ :: _, .bytes _ _ => False
  | .tstr _ :: _, .text _ _ => False
  | _, _ => True

/-- what the reference decoder's verdict on an item means for the machine -/
def ItemOK (L : Nat) (okA : AllocOk) (get : Nat → UInt8) (len : Nat) (f : Nat) : Prop :=
  ∀ p d s, List.length s = d → f ≥ 2 * (len - p) + 2 → (∀ tok l, headAt get len p = .ok tok l → Plain s tok) →
    match item true L okA get len f p d with
    | .ok x q => p < q ∧ q ≤ len ∧ RunsTo L okA get len s p (deliver x s) q
    | .err e r => RunsErr L okA get len s p e r

def ElemsOK (L : Nat) (okA : AllocOk) (get : Nat → UInt8) (len : Nat) (f : Nat) : Prop :=
  ∀ n p d s acc, List.length s + 1 = d → f ≥ 2 * (len - p) + 3 → n ≥ 1 →
    match elems true L okA get len f n p d acc with
    | .ok all q => p < q ∧ q ≤ len ∧ RunsTo L okA get len (.arr n acc.reverse :: s) p (deliver (.array all) s) q
    | .err e r => RunsErr L okA get len (.arr n acc.reverse :: s) p e r

def ElemsIOK (L : Nat) (okA : AllocOk) (get : Nat → UInt8) (len : Nat) (f : Nat) : Prop :=
  ∀ p d s acc, List.length s + 1 = d → f ≥ 2 * (len - p) + 3 →
    match elemsI true L okA get len f p d acc with
    | .ok all q => p < q ∧ q ≤ len ∧ RunsTo L okA get len (.arrI acc.reverse :: s) p (deliver (.arrayI all) s) q
    | .err e r => RunsErr L okA get len (.arrI acc.reverse :: s) p e r

def PairsOK (L : Nat) (okA : AllocOk) (get : Nat → UInt8) (len : Nat) (f : Nat) : Prop :=
  ∀ n p d s acc, List.length s + 1 = d → f ≥ 2 * (len - p) + 3 → n ≥ 1 →
    match pairs true L okA get len f n p d acc with
    | .ok all q => p < q ∧ q ≤ len ∧ RunsTo L okA get len (.map (2 * n) acc.reverse none :: s) p (deliver (.map all) s) q
    | .err e r => RunsErr L okA get len (.map (2 * n) acc.reverse none :: s) p e r

def PairsIOK (L : Nat) (okA : AllocOk) (get : Nat → UInt8) (len : Nat) (f : Nat) : Prop :=
  ∀ p d s acc, List.length s + 1 = d → f ≥ 2 * (len - p) + 3 →
    match pairsI true L okA get len f p d acc with
    | .ok all q => p < q ∧ q ≤ len ∧ RunsTo L okA get len (.mapI acc.reverse none :: s) p (deliver (.mapI all) s) q
    | .err e r => RunsErr L okA get len (.mapI acc.reverse none :: s) p e r

/-- the frame of a chunked string of major type `mt` -/
def strFrame (mt : Nat) (cs : List (List UInt8)) : Frame := if mt = 2 then .bstr cs else .tstr cs
def strItem (mt : Nat) (cs : List (List UInt8)) : Item := if mt = 2 then .bytesI cs else .textI cs

def ChunksOK (L : Nat) (okA : AllocOk) (get : Nat → UInt8) (len : Nat) (f : Nat) : Prop :=
  ∀ mt p d s acc, (mt = 2 ∨ mt = 3) → List.length s + 1 = d → f ≥ 2 * (len - p) + 3 →
    match chunks true L okA get len f mt p d acc with
    | .ok all q => p < q ∧ q ≤ len ∧ RunsTo L okA get len (strFrame mt acc.reverse :: s) p (deliver (strItem mt all) s) q
    | .err e r => RunsErr L okA get len (strFrame mt acc.reverse :: s) p e r

/-- delivering a scalar-like finished item after its single head -/
theorem scalar_case {s : List Frame} {p l : Nat} {tok : Tok} {x : Item}
    (h : headAt get len p = .ok tok l) (hs : stepTok L okA get p tok s = deliver x s) :
    p < p + l ∧ p + l ≤ len ∧ RunsTo L okA get len s p (deliver x s) (p + l) := by
  have hl := headAt_ok h
  refine ⟨by omega, hl.2, ?_⟩
  have := step_runs (L := L) (okA := okA) (s := s) h
  rwa [hs] at this

theorem item_step (f : Nat)
    (hI : ItemOK L okA get len f) (hE : ElemsOK L okA get len f) (hEI : ElemsIOK L okA get len f)
    (hP : PairsOK L okA get len f) (hPI : PairsIOK L okA get len f) (hC : ChunksOK L okA get len f) :
    ItemOK L okA get len (f + 1) := by
  intro p d s hd hf hplain
  rw [item]
  cases hh : headAt get len p with
  | nedata n => exact head_nedata hh
  | error => exact head_error hh
  | ok tok l =>
    have hl := headAt_ok hh
    have hpl := hplain tok l hh
    have hstep := step_runs (L := L) (okA := okA) (s := s) hh
    simp only
    by_cases hok : okA tok = true
    · simp only [hok, Bool.not_true, Bool.false_eq_true, if_false]
      cases tok with
      | uint w v => exact scalar_case hh (by simp [stepTok, hok])
      | negint w v => exact scalar_case hh (by simp [stepTok, hok])
      | half h => exact scalar_case hh (by simp [stepTok, hok])
      | single b => exact scalar_case hh (by simp [stepTok, hok])
      | double b => exact scalar_case hh (by simp [stepTok, hok])
      | bool b => exact scalar_case hh (by simp [stepTok, hok])
      | null => exact scalar_case hh (by simp [stepTok, hok])
      | undefined => exact scalar_case hh (by simp [stepTok, hok])
      | bytes o n =>
        apply scalar_case hh
        cases s with
        | nil => simp [stepTok, hok]
        | cons fr rest => cases fr <;> simp_all [stepTok, Plain]
      | text o n =>
        apply scalar_case hh
        cases s with
        | nil => simp [stepTok, hok]
        | cons fr rest => cases fr <;> simp_all [stepTok, Plain]
      | brk =>
        apply runsTo_syn
        have : stepTok L okA get p .brk s = .syn := by
          cases s with
          | nil => simp [stepTok, hok]
          | cons fr rest =>
            cases fr with
            | mapI kvs key => cases key <;> simp_all [stepTok, Plain]
            | _ => simp_all [stepTok, Plain]
        rwa [this] at hstep
      | tag n =>
        have hst : stepTok L okA get p (.tag n) s = push L (.tag n) s := by simp [stepTok, hok]
        rw [hst] at hstep
        by_cases hdl : d ≥ L
        · simp only [hdl, if_true]
          apply runsTo_mem
          have : push L (.tag n) s = .mem := by simp [push, hd, hdl]
          rwa [this] at hstep
        · simp only [hdl, if_false]
          have hpush : push L (.tag n) s = .cont (.tag n :: s) := by simp [push, hd, hdl]
          rw [hpush] at hstep
          have := hI (p + l) (d + 1) (.tag n :: s) (by simp [hd]) (by omega) (by intro t l' _; cases t <;> simp [Plain])
          cases hr : item true L okA get len f (p + l) (d + 1) with
          | ok x r =>
            rw [hr] at this
            simp only
            obtain ⟨h1, h2, h3⟩ := this
            exact ⟨by omega, h2, runsTo_trans (by omega) hstep (by simpa [deliver] using h3)⟩
          | err e r =>
            rw [hr] at this
            exact runsTo_err hstep this
      | array n =>
        by_cases hn : n = 0
        · subst hn
          simp only [if_true]
          exact scalar_case hh (by simp [stepTok, hok])
        · simp only [hn, if_false]
          have hst : stepTok L okA get p (.array n) s = push L (.arr n []) s := by simp [stepTok, hok, hn]
          rw [hst] at hstep
          by_cases hdl : d ≥ L
          · simp only [hdl, if_true]
            apply runsTo_mem
            have : push L (.arr n []) s = .mem := by simp [push, hd, hdl]
            rwa [this] at hstep
          · simp only [hdl, if_false]
            have hpush : push L (.arr n []) s = .cont (.arr n [] :: s) := by simp [push, hd, hdl]
            rw [hpush] at hstep
            have := hE n (p + l) (d + 1) s [] (by simp [hd]) (by omega) (by omega)
            cases hr : elems true L okA get len f n (p + l) (d + 1) [] with
            | ok xs r =>
              rw [hr] at this
              simp only
              obtain ⟨h1, h2, h3⟩ := this
              exact ⟨by omega, h2, runsTo_trans (by omega) hstep (by simpa using h3)⟩
            | err e r =>
              rw [hr] at this
              exact runsTo_err hstep (by simpa using this)
      | arrayStart =>
        have hst : stepTok L okA get p .arrayStart s = push L (.arrI []) s := by simp [stepTok, hok]
        rw [hst] at hstep
        by_cases hdl : d ≥ L
        · simp only [hdl, if_true]
          apply runsTo_mem
          have : push L (.arrI []) s = .mem := by simp [push, hd, hdl]
          rwa [this] at hstep
        · simp only [hdl, if_false]
          have hpush : push L (.arrI []) s = .cont (.arrI [] :: s) := by simp [push, hd, hdl]
          rw [hpush] at hstep
          have := hEI (p + l) (d + 1) s [] (by simp [hd]) (by omega)
          cases hr : elemsI true L okA get len f (p + l) (d + 1) [] with
          | ok xs r =>
            rw [hr] at this
            simp only
            obtain ⟨h1, h2, h3⟩ := this
            exact ⟨by omega, h2, runsTo_trans (by omega) hstep (by simpa using h3)⟩
          | err e r =>
            rw [hr] at this
            exact runsTo_err hstep (by simpa using this)
      | map n =>
        by_cases hn : n = 0
        · subst hn
          simp only [if_true]
          exact scalar_case hh (by simp [stepTok, hok])
        · simp only [hn, if_false]
          have hst : stepTok L okA get p (.map n) s = push L (.map (2 * n) [] none) s := by simp [stepTok, hok, hn]
          rw [hst] at hstep
          by_cases hdl : d ≥ L
          · simp only [hdl, if_true]
            apply runsTo_mem
            have : push L (.map (2 * n) [] none) s = .mem := by simp [push, hd, hdl]
            rwa [this] at hstep
          · simp only [hdl, if_false]
            have hpush : push L (.map (2 * n) [] none) s = .cont (.map (2 * n) [] none :: s) := by simp [push, hd, hdl]
            rw [hpush] at hstep
            have := hP n (p + l) (d + 1) s [] (by simp [hd]) (by omega) (by omega)
            cases hr : pairs true L okA get len f n (p + l) (d + 1) [] with
            | ok xs r =>
              rw [hr] at this
              simp only
              obtain ⟨h1, h2, h3⟩ := this
              exact ⟨by omega, h2, runsTo_trans (by omega) hstep (by simpa using h3)⟩
            | err e r =>
              rw [hr] at this
              exact runsTo_err hstep (by simpa using this)
      | mapStart =>
        have hst : stepTok L okA get p .mapStart s = push L (.mapI [] none) s := by simp [stepTok, hok]
        rw [hst] at hstep
        by_cases hdl : d ≥ L
        · simp only [hdl, if_true]
          apply runsTo_mem
          have : push L (.mapI [] none) s = .mem := by simp [push, hd, hdl]
          rwa [this] at hstep
        · simp only [hdl, if_false]
          have hpush : push L (.mapI [] none) s = .cont (.mapI [] none :: s) := by simp [push, hd, hdl]
          rw [hpush] at hstep
          have := hPI (p + l) (d + 1) s [] (by simp [hd]) (by omega)
          cases hr : pairsI true L okA get len f (p + l) (d + 1) [] with
          | ok xs r =>
            rw [hr] at this
            simp only
            obtain ⟨h1, h2, h3⟩ := this
            exact ⟨by omega, h2, runsTo_trans (by omega) hstep (by simpa using h3)⟩
          | err e r =>
            rw [hr] at this
            exact runsTo_err hstep (by simpa using this)
      | bytesStart =>
        have hst : stepTok L okA get p .bytesStart s = push L (.bstr []) s := by simp [stepTok, hok]
        rw [hst] at hstep
        by_cases hdl : d ≥ L
        · simp only [hdl, if_true]
          apply runsTo_mem
          have : push L (.bstr []) s = .mem := by simp [push, hd, hdl]
          rwa [this] at hstep
        · simp only [hdl, if_false]
          have hpush : push L (.bstr []) s = .cont (.bstr [] :: s) := by simp [push, hd, hdl]
          rw [hpush] at hstep
          have := hC 2 (p + l) (d + 1) s [] (Or.inl rfl) (by simp [hd]) (by omega)
          cases hr : chunks true L okA get len f 2 (p + l) (d + 1) [] with
          | ok xs r =>
            rw [hr] at this
            simp only
            obtain ⟨h1, h2, h3⟩ := this
            exact ⟨by omega, h2, runsTo_trans (by omega) hstep (by simpa [strFrame, strItem] using h3)⟩
          | err e r =>
            rw [hr] at this
            exact runsTo_err hstep (by simpa [strFrame] using this)
      | textStart =>
        have hst : stepTok L okA get p .textStart s = push L (.tstr []) s := by simp [stepTok, hok]
        rw [hst] at hstep
        by_cases hdl : d ≥ L
        · simp only [hdl, if_true]
          apply runsTo_mem
          have : push L (.tstr []) s = .mem := by simp [push, hd, hdl]
          rwa [this] at hstep
        · simp only [hdl, if_false]
          have hpush : push L (.tstr []) s = .cont (.tstr [] :: s) := by simp [push, hd, hdl]
          rw [hpush] at hstep
          have := hC 3 (p + l) (d + 1) s [] (Or.inr rfl) (by simp [hd]) (by omega)
          cases hr : chunks true L okA get len f 3 (p + l) (d + 1) [] with
          | ok xs r =>
            rw [hr] at this
            simp only
            obtain ⟨h1, h2, h3⟩ := this
            exact ⟨by omega, h2, runsTo_trans (by omega) hstep (by simpa [strFrame, strItem] using h3)⟩
          | err e r =>
            rw [hr] at this
            exact runsTo_err hstep (by simpa [strFrame] using this)
    · have hok' : okA tok = false := by simpa using hok
      simp only [hok', Bool.not_false, if_true]
      apply runsTo_mem
      have : stepTok L okA get p tok s = .mem := by simp [stepTok, hok']
      rwa [this] at hstep


theorem plain_arr (n : Nat) (xs : List Item) (s : List Frame) (tok : Tok) : Plain (.arr n xs :: s) tok := by
  cases tok <;> simp [Plain]
theorem plain_map (n : Nat) (kvs : List (Item × Item)) (k : Option Item) (s : List Frame) (tok : Tok) : Plain (.map n kvs k :: s) tok := by
  cases tok <;> simp [Plain]

theorem elems_step (f : Nat) (hI : ItemOK L okA get len f) (hE : ElemsOK L okA get len f) :
    ElemsOK L okA get len (f + 1) := by
  intro n p d s acc hd hf hn
  obtain ⟨m, rfl⟩ : ∃ m, n = m + 1 := ⟨n - 1, by omega⟩
  rw [elems]
  have hi := hI p d (.arr (m + 1) acc.reverse :: s) (by simp [hd]) (by omega) (fun t _ _ => plain_arr _ _ _ t)
  cases hr : item true L okA get len f p d with
  | err e r => rw [hr] at hi; exact hi
  | ok x q =>
    rw [hr] at hi
    obtain ⟨h1, h2, h3⟩ := hi
    simp only
    by_cases hm : m = 0
    · subst hm
      obtain ⟨f', rfl⟩ : ∃ k, f = k + 1 := ⟨f - 1, by omega⟩
      rw [elems]
      refine ⟨h1, h2, ?_⟩
      simpa [deliver] using h3
    · have hd1 : deliver x (.arr (m + 1) acc.reverse :: s) = .cont (.arr m (acc.reverse ++ [x]) :: s) := by
        simp [deliver]; omega
      rw [hd1] at h3
      have he := hE m q d s (x :: acc) hd (by omega) (by omega)
      cases hr2 : elems true L okA get len f m q d (x :: acc) with
      | ok all r =>
        rw [hr2] at he
        obtain ⟨e1, e2, e3⟩ := he
        exact ⟨by omega, e2, runsTo_trans (by omega) h3 (by simpa using e3)⟩
      | err e r =>
        rw [hr2] at he
        exact runsTo_err h3 (by simpa using he)


theorem elemsI_rest (f : Nat) (hI : ItemOK L okA get len f) (hEI : ElemsIOK L okA get len f)
    (p d : Nat) (s : List Frame) (acc : List Item) (hd : List.length s + 1 = d) (hf : f + 1 ≥ 2 * (len - p) + 3)
    (hpl : ∀ tok l, headAt get len p = .ok tok l → Plain (.arrI acc.reverse :: s) tok) :
    match (match item true L okA get len f p d with
           | .ok x q => elemsI true L okA get len f q d (x :: acc)
           | .err e q => .err e q) with
    | .ok all q => p < q ∧ q ≤ len ∧ RunsTo L okA get len (.arrI acc.reverse :: s) p (deliver (.arrayI all) s) q
    | .err e r => RunsErr L okA get len (.arrI acc.reverse :: s) p e r := by
  have hi := hI p d (.arrI acc.reverse :: s) (by simp [hd]) (by omega) hpl
  cases hr : item true L okA get len f p d with
  | err e r => rw [hr] at hi; exact hi
  | ok x q =>
    rw [hr] at hi
    obtain ⟨h1, h2, h3⟩ := hi
    simp only
    have hd1 : deliver x (.arrI acc.reverse :: s) = .cont (.arrI (acc.reverse ++ [x]) :: s) := by simp [deliver]
    rw [hd1] at h3
    have he := hEI q d s (x :: acc) hd (by omega)
    cases hr2 : elemsI true L okA get len f q d (x :: acc) with
    | ok all r =>
      rw [hr2] at he
      obtain ⟨e1, e2, e3⟩ := he
      exact ⟨by omega, e2, runsTo_trans (by omega) h3 (by simpa using e3)⟩
    | err e r =>
      rw [hr2] at he
      exact runsTo_err h3 (by simpa using he)

theorem elemsI_step (hbrk : okA .brk = true) (f : Nat) (hI : ItemOK L okA get len f) (hEI : ElemsIOK L okA get len f) :
    ElemsIOK L okA get len (f + 1) := by
  intro p d s acc hd hf
  rw [elemsI]
  cases hh : headAt get len p with
  | nedata n => exact elemsI_rest f hI hEI p d s acc hd hf (by intro t l' h'; rw [hh] at h'; cases h')
  | error => exact elemsI_rest f hI hEI p d s acc hd hf (by intro t l' h'; rw [hh] at h'; cases h')
  | ok tok l =>
    cases tok
    case brk =>
      have hl := headAt_ok hh
      have hstep := step_runs (L := L) (okA := okA) (s := .arrI acc.reverse :: s) hh
      have : stepTok L okA get p .brk (.arrI acc.reverse :: s) = deliver (.arrayI acc.reverse) s := by simp [stepTok, hbrk]
      rw [this] at hstep
      exact ⟨by omega, hl.2, hstep⟩
    all_goals exact elemsI_rest f hI hEI p d s acc hd hf (by intro t l' h'; rw [hh] at h'; cases h'; simp [Plain])

theorem pairs_step (f : Nat) (hI : ItemOK L okA get len f) (hP : PairsOK L okA get len f) :
    PairsOK L okA get len (f + 1) := by
  intro n p d s acc hd hf hn
  obtain ⟨m, rfl⟩ : ∃ m, n = m + 1 := ⟨n - 1, by omega⟩
  rw [pairs]
  have hi := hI p d (.map (2 * (m + 1)) acc.reverse none :: s) (by simp [hd]) (by omega) (fun t _ _ => plain_map _ _ _ _ t)
  cases hr : item true L okA get len f p d with
  | err e r => rw [hr] at hi; exact hi
  | ok k q =>
    rw [hr] at hi
    obtain ⟨h1, h2, h3⟩ := hi
    simp only
    have hd1 : deliver k (.map (2 * (m + 1)) acc.reverse none :: s) = .cont (.map (2 * m + 1) acc.reverse (some k) :: s) := by
      simp [deliver]; omega
    rw [hd1] at h3
    have hv := hI q d (.map (2 * m + 1) acc.reverse (some k) :: s) (by simp [hd]) (by omega) (fun t _ _ => plain_map _ _ _ _ t)
    cases hr2 : item true L okA get len f q d with
    | err e r => rw [hr2] at hv; exact runsTo_err h3 hv
    | ok v r =>
      rw [hr2] at hv
      obtain ⟨v1, v2, v3⟩ := hv
      simp only
      by_cases hm : m = 0
      · subst hm
        obtain ⟨f', rfl⟩ : ∃ k, f = k + 1 := ⟨f - 1, by omega⟩
        rw [pairs]
        refine ⟨by omega, v2, runsTo_trans (by omega) h3 ?_⟩
        simpa [deliver] using v3
      · have hd2 : deliver v (.map (2 * m + 1) acc.reverse (some k) :: s) = .cont (.map (2 * m) (acc.reverse ++ [(k, v)]) none :: s) := by
          simp [deliver]; omega
        rw [hd2] at v3
        have he := hP m r d s ((k, v) :: acc) hd (by omega) (by omega)
        cases hr3 : pairs true L okA get len f m r d ((k, v) :: acc) with
        | ok all t =>
          rw [hr3] at he
          obtain ⟨e1, e2, e3⟩ := he
          exact ⟨by omega, e2, runsTo_trans (by omega) h3 (runsTo_trans (by omega) v3 (by simpa using e3))⟩
        | err e t =>
          rw [hr3] at he
          exact runsTo_err h3 (runsTo_err v3 (by simpa using he))


theorem pairsI_rest (f : Nat) (hI : ItemOK L okA get len f) (hPI : PairsIOK L okA get len f)
    (p d : Nat) (s : List Frame) (acc : List (Item × Item)) (hd : List.length s + 1 = d) (hf : f + 1 ≥ 2 * (len - p) + 3)
    (hpl : ∀ tok l, headAt get len p = .ok tok l → Plain (.mapI acc.reverse none :: s) tok) :
    match (match item true L okA get len f p d with
           | .err e q => (Res.err e q : Res (List (Item × Item)))
           | .ok k q =>
             match item true L okA get len f q d with
             | .err e r => Res.err e r
             | .ok v r => pairsI true L okA get len f r d ((k, v) :: acc)) with
    | .ok all q => p < q ∧ q ≤ len ∧ RunsTo L okA get len (.mapI acc.reverse none :: s) p (deliver (.mapI all) s) q
    | .err e r => RunsErr L okA get len (.mapI acc.reverse none :: s) p e r := by
  have hi := hI p d (.mapI acc.reverse none :: s) (by simp [hd]) (by omega) hpl
  cases hr : item true L okA get len f p d with
  | err e r => rw [hr] at hi; exact hi
  | ok k q =>
    rw [hr] at hi
    obtain ⟨h1, h2, h3⟩ := hi
    simp only
    have hd1 : deliver k (.mapI acc.reverse none :: s) = .cont (.mapI acc.reverse (some k) :: s) := by simp [deliver]
    rw [hd1] at h3
    have hv := hI q d (.mapI acc.reverse (some k) :: s) (by simp [hd]) (by omega)
      (by intro t _ _; cases t <;> simp [Plain])
    cases hr2 : item true L okA get len f q d with
    | err e r => rw [hr2] at hv; exact runsTo_err h3 hv
    | ok v r =>
      rw [hr2] at hv
      obtain ⟨v1, v2, v3⟩ := hv
      simp only
      have hd2 : deliver v (.mapI acc.reverse (some k) :: s) = .cont (.mapI (acc.reverse ++ [(k, v)]) none :: s) := by simp [deliver]
      rw [hd2] at v3
      have he := hPI r d s ((k, v) :: acc) hd (by omega)
      cases hr3 : pairsI true L okA get len f r d ((k, v) :: acc) with
      | ok all t =>
        rw [hr3] at he
        obtain ⟨e1, e2, e3⟩ := he
        exact ⟨by omega, e2, runsTo_trans (by omega) h3 (runsTo_trans (by omega) v3 (by simpa using e3))⟩
      | err e t =>
        rw [hr3] at he
        exact runsTo_err h3 (runsTo_err v3 (by simpa using he))

theorem pairsI_step (hbrk : okA .brk = true) (f : Nat) (hI : ItemOK L okA get len f) (hPI : PairsIOK L okA get len f) :
    PairsIOK L okA get len (f + 1) := by
  intro p d s acc hd hf
  rw [pairsI]
  cases hh : headAt get len p with
  | nedata n => exact pairsI_rest f hI hPI p d s acc hd hf (by intro t l' h'; rw [hh] at h'; cases h')
  | error => exact pairsI_rest f hI hPI p d s acc hd hf (by intro t l' h'; rw [hh] at h'; cases h')
  | ok tok l =>
    cases tok
    case brk =>
      have hl := headAt_ok hh
      have hstep := step_runs (L := L) (okA := okA) (s := .mapI acc.reverse none :: s) hh
      have : stepTok L okA get p .brk (.mapI acc.reverse none :: s) = deliver (.mapI acc.reverse) s := by simp [stepTok, hbrk]
      rw [this] at hstep
      exact ⟨by omega, hl.2, hstep⟩
    all_goals exact pairsI_rest f hI hPI p d s acc hd hf (by intro t l' h'; rw [hh] at h'; cases h'; simp [Plain])

/-- a head that neither opens a nesting level nor is a break or a chunk is a syntax error inside a chunked string -/
theorem step_in_string (mt : Nat) (hmt : mt = 2 ∨ mt = 3) (cs : List (List UInt8)) (s : List Frame) (p : Nat) (tok : Tok)
    (hok : okA tok = true) (hno : tok.opens = false) (hnb : tok ≠ .brk)
    (hnc : ∀ o n, (mt = 2 → tok ≠ .bytes o n) ∧ (mt = 3 → tok ≠ .text o n)) :
    stepTok L okA get p tok (strFrame mt cs :: s) = .syn := by
  rcases hmt with rfl | rfl <;> cases tok <;> simp_all [stepTok, strFrame, deliver, Tok.opens, push]

theorem chunks_step (f : Nat) (hI : ItemOK L okA get len f) (hC : ChunksOK L okA get len f) :
    ChunksOK L okA get len (f + 1) := by
  intro mt p d s acc hmt hd hf
  rw [chunks]
  cases hh : headAt get len p with
  | nedata n => exact head_nedata hh
  | error => exact head_error hh
  | ok tok l =>
    have hl := headAt_ok hh
    have hstep := step_runs (L := L) (okA := okA) (s := strFrame mt acc.reverse :: s) hh
    simp only
    by_cases hok : okA tok = true
    · simp only [hok, Bool.not_true, Bool.false_eq_true, if_false]
      -- the generic "illegal item in a chunked string" branch, for a head `t` that is no break and no chunk
      have other : ∀ (t : Tok), t = tok → t ≠ .brk → (∀ o n, (mt = 2 → t ≠ .bytes o n) ∧ (mt = 3 → t ≠ .text o n)) →
          match (if (true && t.opens) = true then
                   (match item true L okA get len f p d with
                    | .ok _ r => (Res.err .syntax r : Res (List (List UInt8)))
                    | .err e r => Res.err e r)
                 else Res.err .syntax (p + l)) with
          | .ok all q => p < q ∧ q ≤ len ∧ RunsTo L okA get len (strFrame mt acc.reverse :: s) p (deliver (strItem mt all) s) q
          | .err e r => RunsErr L okA get len (strFrame mt acc.reverse :: s) p e r := by
        intro t ht hnb hnc
        subst ht
        by_cases hop : t.opens = true
        · simp only [hop, Bool.and_self, if_true]
          have hpl : ∀ tok' l', headAt get len p = .ok tok' l' → Plain (strFrame mt acc.reverse :: s) tok' := by
            intro tok' l' h'
            rw [hh] at h'; cases h'
            rcases hmt with rfl | rfl <;> cases t <;> simp_all [Plain, strFrame, Tok.opens]
          have hi := hI p d (strFrame mt acc.reverse :: s) (by simp [hd]) (by omega) hpl
          cases hr : item true L okA get len f p d with
          | err e r => rw [hr] at hi; exact hi
          | ok x r =>
            rw [hr] at hi
            obtain ⟨_, _, h3⟩ := hi
            simp only
            apply runsTo_syn
            have : deliver x (strFrame mt acc.reverse :: s) = .syn := by
              rcases hmt with rfl | rfl <;> simp [strFrame, deliver]
            rwa [this] at h3
        · have hop' : t.opens = false := by simpa using hop
          simp only [hop', Bool.and_false, Bool.false_eq_true, if_false]
          apply runsTo_syn
          rw [step_in_string mt hmt _ _ _ _ hok hop' hnb hnc] at hstep
          exact hstep
      cases tok
      case brk =>
        have : stepTok L okA get p .brk (strFrame mt acc.reverse :: s) = deliver (strItem mt acc.reverse) s := by
          rcases hmt with rfl | rfl <;> simp [stepTok, hok, strFrame, strItem]
        rw [this] at hstep
        exact ⟨by omega, hl.2, hstep⟩
      case bytes o n =>
        by_cases h2 : mt = 2
        · subst h2
          simp only [if_true]
          have : stepTok L okA get p (.bytes o n) (strFrame 2 acc.reverse :: s) = .cont (strFrame 2 ((slice get (p + o) n :: acc).reverse) :: s) := by
            simp [stepTok, hok, strFrame]
          rw [this] at hstep
          have he := hC 2 (p + l) d s (slice get (p + o) n :: acc) (Or.inl rfl) hd (by omega)
          cases hr : chunks true L okA get len f 2 (p + l) d (slice get (p + o) n :: acc) with
          | ok all r =>
            rw [hr] at he
            obtain ⟨e1, e2, e3⟩ := he
            exact ⟨by omega, e2, runsTo_trans (by omega) hstep e3⟩
          | err e r =>
            rw [hr] at he
            exact runsTo_err hstep he
        · have h3 : mt = 3 := by omega
          subst h3
          simp only [show ¬ (3 = 2) by omega, if_false]
          apply runsTo_syn
          have : stepTok L okA get p (.bytes o n) (strFrame 3 acc.reverse :: s) = .syn := by
            simp [stepTok, hok, strFrame, deliver]
          rwa [this] at hstep
      case text o n =>
        by_cases h3 : mt = 3
        · subst h3
          simp only [if_true]
          have : stepTok L okA get p (.text o n) (strFrame 3 acc.reverse :: s) = .cont (strFrame 3 ((slice get (p + o) n :: acc).reverse) :: s) := by
            simp [stepTok, hok, strFrame]
          rw [this] at hstep
          have he := hC 3 (p + l) d s (slice get (p + o) n :: acc) (Or.inr rfl) hd (by omega)
          cases hr : chunks true L okA get len f 3 (p + l) d (slice get (p + o) n :: acc) with
          | ok all r =>
            rw [hr] at he
            obtain ⟨e1, e2, e3⟩ := he
            exact ⟨by omega, e2, runsTo_trans (by omega) hstep e3⟩
          | err e r =>
            rw [hr] at he
            exact runsTo_err hstep he
        · have h2 : mt = 2 := by omega
          subst h2
          simp only [show ¬ (2 = 3) by omega, if_false]
          apply runsTo_syn
          have : stepTok L okA get p (.text o n) (strFrame 2 acc.reverse :: s) = .syn := by
            simp [stepTok, hok, strFrame, deliver]
          rwa [this] at hstep
      all_goals exact other _ rfl (by simp) (by intro o n; constructor <;> intro _ <;> simp)
    · have hok' : okA tok = false := by simpa using hok
      simp only [hok', Bool.not_false, if_true]
      apply runsTo_mem
      have : stepTok L okA get p tok (strFrame mt acc.reverse :: s) = .mem := by simp [stepTok, hok']
      rwa [this] at hstep

/-- all six statements, for every fuel -/
theorem all_ok (hbrk : okA .brk = true) : ∀ f,
    ItemOK L okA get len f ∧ ElemsOK L okA get len f ∧ ElemsIOK L okA get len f ∧
    PairsOK L okA get len f ∧ PairsIOK L okA get len f ∧ ChunksOK L okA get len f := by
  intro f
  induction f with
  | zero =>
    refine ⟨?_, ?_, ?_, ?_, ?_, ?_⟩
    · intro p d s _ hf; omega
    · intro n p d s acc _ hf; omega
    · intro p d s acc _ hf; omega
    · intro n p d s acc _ hf; omega
    · intro p d s acc _ hf; omega
    · intro mt p d s acc _ _ hf; omega
  | succ f ih =>
    obtain ⟨hI, hE, hEI, hP, hPI, hC⟩ := ih
    exact ⟨item_step f hI hE hEI hP hPI hC, elems_step f hI hE, elemsI_step hbrk f hI hEI,
           pairs_step f hI hP, pairsI_step hbrk f hI hPI, chunks_step f hI hC⟩

/-- **The fundamental theorem.**  The stack machine and the (lazy) reference decoder give the same outcome
on every buffer: the same item and end offset, or the same error at the same offset. -/
theorem abs_decode_eq (hbrk : okA .brk = true) :
    Abs.decode L okA get len = Spec.decode true L okA get len := by
  unfold Abs.decode Spec.decode
  by_cases h0 : len = 0
  · simp [h0]
  · simp only [h0, if_false]
    have h := (all_ok (L := L) (get := get) (len := len) hbrk (2 * len + 3)).1 0 0 [] rfl (by omega)
      (by intro t l _; cases t <;> simp [Plain])
    cases hr : item true L okA get len (2 * len + 3) 0 0 with
    | ok x q =>
      rw [hr] at h
      obtain ⟨_, _, h3⟩ := h
      have := h3 (len + 1) (len - q + 1) (by omega) (by omega)
      simp only [deliver, resume] at this
      rw [this]
    | err e r =>
      rw [hr] at h
      rw [h (len + 1) (by omega)]

end Lemmas.Fund

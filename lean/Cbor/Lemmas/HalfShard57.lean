import Cbor.Lemmas.Half
/-! shard 57 of the exhaustive binary16 table check (patterns 58368 .. 59391), kernel-evaluated -/
namespace Lemmas
theorem half_shard_57 : halfShardOk 57 = true := by decide +kernel
end Lemmas

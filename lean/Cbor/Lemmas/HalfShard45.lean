import Cbor.Lemmas.Half
/-! shard 45 of the exhaustive binary16 table check (patterns 46080 .. 47103), kernel-evaluated -/
namespace Lemmas
theorem half_shard_45 : halfShardOk 45 = true := by decide +kernel
end Lemmas

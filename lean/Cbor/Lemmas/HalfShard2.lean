import Cbor.Lemmas.Half
/-! shard 2 of the exhaustive binary16 table check (patterns 2048 .. 3071), kernel-evaluated -/
namespace Lemmas
theorem half_shard_2 : halfShardOk 2 = true := by decide +kernel
end Lemmas

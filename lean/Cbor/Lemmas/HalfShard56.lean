import Cbor.Lemmas.Half
/-! shard 56 of the exhaustive binary16 table check (patterns 57344 .. 58367), kernel-evaluated -/
namespace Lemmas
theorem half_shard_56 : halfShardOk 56 = true := by decide +kernel
end Lemmas

import Cbor.Lemmas.Half
/-! shard 59 of the exhaustive binary16 table check (patterns 60416 .. 61439), kernel-evaluated -/
namespace Lemmas
theorem half_shard_59 : halfShardOk 59 = true := by decide +kernel
end Lemmas

import Cbor.Lemmas.Half
/-! shard 32 of the exhaustive binary16 table check (patterns 32768 .. 33791), kernel-evaluated -/
namespace Lemmas
theorem half_shard_32 : halfShardOk 32 = true := by decide +kernel
end Lemmas

import Cbor.Lemmas.Half
/-! shard 0 of the exhaustive binary16 table check (patterns 0 .. 1023), kernel-evaluated -/
namespace Lemmas
theorem half_shard_0 : halfShardOk 0 = true := by decide +kernel
end Lemmas

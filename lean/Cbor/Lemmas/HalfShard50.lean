import Cbor.Lemmas.Half
/-! shard 50 of the exhaustive binary16 table check (patterns 51200 .. 52223), kernel-evaluated -/
namespace Lemmas
theorem half_shard_50 : halfShardOk 50 = true := by decide +kernel
end Lemmas

import Cbor.Lemmas.CopySpec
/-!
# The tree `cbor_load` lays out is exclusively owned; `Den` and `val` agree; `H.copyFuel` suffices for acyclic heaps
-/
namespace Heap
open Spec (Item)

/-! ### Part 1: `build` appends an exclusively owned tree -/

/-- `h'` is `h` with cells appended: every cell that existed is unchanged, flags unchanged -/
def Grew (h h' : H) : Prop :=
  h'.fault = h.fault ∧ h'.reqs = h.reqs ∧ h.cells.length ≤ h'.cells.length ∧
  (∀ x, x < h.cells.length → h'.get x = h.get x)

theorem Grew.refl (h : H) : Grew h h := ⟨rfl, rfl, Nat.le_refl _, fun _ _ => rfl⟩

theorem Grew.trans {h h1 h2 : H} (a : Grew h h1) (b : Grew h1 h2) : Grew h h2 := by
  obtain ⟨a1, a2, a3, a4⟩ := a
  obtain ⟨b1, b2, b3, b4⟩ := b
  exact ⟨b1.trans a1, b2.trans a2, Nat.le_trans a3 b3, fun x hx => (b4 x (by omega)).trans (a4 x hx)⟩

theorem new_len (h : H) (n : Node) : (h.new n).2.cells.length = h.cells.length + 1 := by
  simp [H.new]

theorem new_fst (h : H) (n : Node) : (h.new n).1 = h.cells.length := rfl

theorem grew_new (h : H) (n : Node) : Grew h (h.new n).2 :=
  ⟨rfl, rfl, by rw [new_len]; omega, fun x hx => get_new_other h n x (Nat.ne_of_lt hx)⟩

theorem buildChunks_ext_own (t : Bool) : ∀ (cs : List (List UInt8)) (h : H),
    Grew h (buildChunks t cs h).2 ∧
    OwnChunks t cs (buildChunks t cs h).2 (buildChunks t cs h).1 h.cells.length (buildChunks t cs h).2.cells.length
  | [], h => by simp [buildChunks, OwnChunks, Grew.refl]
  | c :: cs, h => by
    simp only [buildChunks]
    obtain ⟨e, o⟩ := buildChunks_ext_own t cs (h.new (.str t c)).2
    rw [new_len] at o
    refine ⟨(grew_new h _).trans e, ?_⟩
    simp only [OwnChunks, new_fst]
    refine ⟨trivial, ?_, o⟩
    rw [e.2.2.2 _ (by rw [new_len]; omega)]
    exact get_new_same h _

mutual
theorem build_ext_own : ∀ (t : Item) (h : H),
    Grew h (build t h).2 ∧ Own t (build t h).2 (build t h).1 h.cells.length (build t h).2.cells.length
  | .uint _ _, h | .negint _ _, h | .bytes _, h | .text _, h
  | .simple _, h | .half _, h | .single _, h | .double _, h => by
    simp only [build, Own]
    exact ⟨grew_new h _, rfl, new_len h _, get_new_same h _⟩
  | .bytesI cs, h | .textI cs, h => by
    simp only [build]
    obtain ⟨e, o⟩ := buildChunks_ext_own _ cs h
    refine ⟨e.trans (grew_new _ _), ?_⟩
    simp only [Own]
    refine ⟨_, _, h.cells.length, (buildChunks _ cs h).2.cells.length, get_new_same _ _, Or.inr ⟨rfl, rfl, new_len _ _⟩, ?_⟩
    exact ownChunks_congr _ _ _ _ _ (fun r _ hr => get_new_other _ _ r (Nat.ne_of_lt hr)) o
  | .array xs, h | .arrayI xs, h => by
    simp only [build]
    obtain ⟨e, o⟩ := buildList_ext_own xs h
    refine ⟨e.trans (grew_new _ _), ?_⟩
    simp only [Own]
    refine ⟨_, _, h.cells.length, (buildList xs h).2.cells.length, get_new_same _ _, Or.inr ⟨rfl, rfl, new_len _ _⟩, ?_⟩
    exact ownList_congr _ _ _ _ (fun r _ hr => get_new_other _ _ r (Nat.ne_of_lt hr)) o
  | .map ps, h | .mapI ps, h => by
    simp only [build]
    obtain ⟨e, o⟩ := buildPairs_ext_own ps h
    refine ⟨e.trans (grew_new _ _), ?_⟩
    simp only [Own]
    refine ⟨_, _, h.cells.length, (buildPairs ps h).2.cells.length, get_new_same _ _, Or.inr ⟨rfl, rfl, new_len _ _⟩, ?_⟩
    exact ownPairs_congr _ _ _ _ (fun r _ hr => get_new_other _ _ r (Nat.ne_of_lt hr)) o
  | .tag n t, h => by
    simp only [build]
    obtain ⟨e, o⟩ := build_ext_own t h
    refine ⟨e.trans (grew_new _ _), ?_⟩
    simp only [Own]
    refine ⟨_, h.cells.length, (build t h).2.cells.length, get_new_same _ _, Or.inr ⟨rfl, rfl, new_len _ _⟩, ?_⟩
    exact own_congr _ _ _ _ (fun r _ hr => get_new_other _ _ r (Nat.ne_of_lt hr)) o
theorem buildList_ext_own : ∀ (ts : List Item) (h : H),
    Grew h (buildList ts h).2 ∧
    OwnList ts (buildList ts h).2 (buildList ts h).1 h.cells.length (buildList ts h).2.cells.length
  | [], h => by simp [buildList, OwnList, Grew.refl]
  | t :: ts, h => by
    simp only [buildList]
    obtain ⟨e1, o1⟩ := build_ext_own t h
    obtain ⟨e2, o2⟩ := buildList_ext_own ts (build t h).2
    refine ⟨e1.trans e2, ?_⟩
    simp only [OwnList]
    have b1 := own_lt _ _ _ _ o1
    exact ⟨_, own_congr _ _ _ _ (fun r _ hr => e2.2.2.2 r hr) o1, o2⟩
theorem buildPairs_ext_own : ∀ (ps : List (Item × Item)) (h : H),
    Grew h (buildPairs ps h).2 ∧
    OwnPairs ps (buildPairs ps h).2 (buildPairs ps h).1 h.cells.length (buildPairs ps h).2.cells.length
  | [], h => by simp [buildPairs, OwnPairs, Grew.refl]
  | (k, v) :: ps, h => by
    simp only [buildPairs]
    obtain ⟨e1, o1⟩ := build_ext_own k h
    obtain ⟨e2, o2⟩ := build_ext_own v (build k h).2
    obtain ⟨e3, o3⟩ := buildPairs_ext_own ps (build v (build k h).2).2
    refine ⟨(e1.trans e2).trans e3, ?_⟩
    simp only [OwnPairs]
    have b2 := own_lt _ _ _ _ o2
    exact ⟨_, _, own_congr _ _ _ _ (fun r _ hr => (e3.2.2.2 r (by omega)).trans (e2.2.2.2 r hr)) o1,
      own_congr _ _ _ _ (fun r _ hr => e3.2.2.2 r hr) o2, o3⟩
end

/-- `build` appends cells only: every cell that existed is unchanged, fault flag and request counter are unchanged, and the
new cells are an exclusively owned tree for `t` -/
theorem build_own : ∀ (t : Item) (h : H),
    (build t h).2.fault = h.fault ∧ (build t h).2.reqs = h.reqs ∧
    (∀ x, x < h.cells.length → (build t h).2.get x = h.get x) ∧
    Own t (build t h).2 (build t h).1 h.cells.length (build t h).2.cells.length := fun t h =>
  have ⟨⟨e1, e2, _, e4⟩, o⟩ := build_ext_own t h
  ⟨e1, e2, e4, o⟩

theorem buildList_own : ∀ (ts : List Item) (h : H),
    (buildList ts h).2.fault = h.fault ∧ (buildList ts h).2.reqs = h.reqs ∧
    (∀ x, x < h.cells.length → (buildList ts h).2.get x = h.get x) ∧
    OwnList ts (buildList ts h).2 (buildList ts h).1 h.cells.length (buildList ts h).2.cells.length := fun ts h =>
  have ⟨⟨e1, e2, _, e4⟩, o⟩ := buildList_ext_own ts h
  ⟨e1, e2, e4, o⟩

theorem buildPairs_own : ∀ (ps : List (Item × Item)) (h : H),
    (buildPairs ps h).2.fault = h.fault ∧ (buildPairs ps h).2.reqs = h.reqs ∧
    (∀ x, x < h.cells.length → (buildPairs ps h).2.get x = h.get x) ∧
    OwnPairs ps (buildPairs ps h).2 (buildPairs ps h).1 h.cells.length (buildPairs ps h).2.cells.length := fun ps h =>
  have ⟨⟨e1, e2, _, e4⟩, o⟩ := buildPairs_ext_own ps h
  ⟨e1, e2, e4, o⟩

theorem buildChunks_own (t : Bool) : ∀ (cs : List (List UInt8)) (h : H),
    (buildChunks t cs h).2.fault = h.fault ∧ (buildChunks t cs h).2.reqs = h.reqs ∧
    (∀ x, x < h.cells.length → (buildChunks t cs h).2.get x = h.get x) ∧
    OwnChunks t cs (buildChunks t cs h).2 (buildChunks t cs h).1 h.cells.length (buildChunks t cs h).2.cells.length := fun cs h =>
  have ⟨⟨e1, e2, _, e4⟩, o⟩ := buildChunks_ext_own t cs h
  ⟨e1, e2, e4, o⟩

/-- the item `build` returns denotes the tree it was asked to lay out -/
theorem build_den (t : Item) (h : H) : Den t (build t h).2 (build t h).1 :=
  own_den t _ _ _ (build_own t h).2.2.2

/-- releasing the root `build` returned frees exactly the cells `build` appended -/
theorem build_release (t : Item) (h : H) :
    Freed (build t h).2 ((build t h).2.decref (build t h).1) h.cells.length (build t h).2.cells.length :=
  hdecref_own (build_own t h).2.2.2 (Nat.le_refl _)


/-! ### Part 3: the fuel `H.copyFuel` is enough for every acyclic heap -/



/-- what a cell contributes to `H.copyFuel` (released cells: nothing needed) -/
def wt : Option Cell → Nat
  | some c => c.node.children.length + 2
  | none => 0

/-- the weight of the cells (numbered from `i`) whose index satisfies `P` -/
def SL (P : Nat → Prop) [DecidablePred P] : List (Option Cell) → Nat → Nat
  | [], _ => 0
  | c :: cs, i => (if P i then wt c else 0) + SL P cs (i + 1)

theorem SL_mono {P Q : Nat → Prop} [DecidablePred P] [DecidablePred Q] (hpq : ∀ j, P j → Q j) :
    ∀ (l : List (Option Cell)) (i : Nat), SL P l i ≤ SL Q l i
  | [], _ => Nat.le_refl _
  | c :: cs, i => by
    simp only [SL]
    have := SL_mono hpq cs (i + 1)
    by_cases hp : P i
    · simp only [hp, hpq i hp, if_true]; omega
    · simp only [hp, if_false]; omega

theorem SL_split {P Q : Nat → Prop} [DecidablePred P] [DecidablePred Q] :
    ∀ (l : List (Option Cell)) (i k : Nat) (c : Option Cell), l[k]? = some c → Q (i + k) →
      (∀ j, P j → Q j ∧ j ≠ i + k) → wt c + SL P l i ≤ SL Q l i
  | [], _, _, _, hk, _, _ => by simp at hk
  | c' :: cs, i, 0, c, hk, hq, hpq => by
    simp only [List.getElem?_cons_zero, Option.some.injEq] at hk
    subst hk
    simp only [SL]
    have hq' : Q i := hq
    have hp : ¬ P i := fun hp => (hpq i hp).2 rfl
    have := SL_mono (fun j hj => (hpq j hj).1) cs (i + 1)
    simp only [hp, hq', if_true, if_false]; omega
  | c' :: cs, i, k + 1, c, hk, hq, hpq => by
    simp only [List.getElem?_cons_succ] at hk
    have e : i + (k + 1) = (i + 1) + k := by omega
    have := SL_split cs (i + 1) k c hk (e ▸ hq) (fun j hj => e ▸ hpq j hj)
    simp only [SL]
    by_cases hp : P i
    · simp only [hp, (hpq i hp).1, if_true]; omega
    · simp only [hp, if_false]; omega

theorem SL_ge {Q : Nat → Prop} [DecidablePred Q] (l : List (Option Cell)) (k : Nat) (c : Option Cell)
    (hk : l[k]? = some c) (hq : Q k) : wt c ≤ SL Q l 0 := by
  have := SL_split (P := fun _ => False) (Q := Q) l 0 k c hk (by simpa using hq) (fun j hj => hj.elim)
  omega

theorem SL_le_sum {P : Nat → Prop} [DecidablePred P] : ∀ (l : List (Option Cell)) (i : Nat),
    SL P l i ≤ (l.map fun c => match c with | some c => c.node.children.length + 2 | none => 1).sum
  | [], _ => by simp [SL]
  | c :: cs, i => by
    simp only [SL, List.map_cons, List.sum_cons]
    have := SL_le_sum (P := P) cs (i + 1)
    cases c with
    | none => simp only [wt]; split <;> omega
    | some c => simp only [wt]; split <;> omega

theorem SL_le_copyFuel {P : Nat → Prop} [DecidablePred P] (h : H) : SL P h.cells 0 + 2 ≤ h.copyFuel := by
  exact Nat.add_le_add_right (SL_le_sum (P := P) h.cells 0) 2

theorem getElem?_of_get {h : H} {x : Ref} {c : Cell} (hg : h.get x = some c) : h.cells[x]? = some (some c) := by
  unfold H.get at hg
  cases hh : h.cells[x]? with
  | none => simp [hh] at hg
  | some v => simpa [hh] using hg

theorem denChunks_length (t : Bool) {h : H} : ∀ (cs : List (List UInt8)) (rs : List Ref), DenChunks t cs h rs → cs.length = rs.length
  | [], [], _ => rfl
  | [], _ :: _, ho => by simp [DenChunks] at ho
  | _ :: _, [], ho => by simp [DenChunks] at ho
  | b :: bs, c :: cs, ho => by
    simp only [DenChunks] at ho
    simp only [List.length_cons, denChunks_length t bs cs ho.2]

theorem length_flatMap_pairs (ps : List (Ref × Ref)) : (ps.flatMap fun kv => [kv.1, kv.2]).length = 2 * ps.length := by
  induction ps with
  | nil => rfl
  | cons p ps ih => simp only [List.flatMap_cons, List.length_append, List.length_cons, List.length_nil, ih]; omega


/-- a live cell's weight comes on top of the weight of everything strictly below it in rank -/
theorem SL_node {h : H} {rank : Ref → Nat} {x : Ref} {c : Cell} (hg : h.get x = some c) :
    wt (some c) + SL (fun i => rank i < rank x) h.cells 0 ≤ SL (fun i => rank i ≤ rank x) h.cells 0 := by
  refine SL_split h.cells 0 x (some c) (getElem?_of_get hg) (by simp) (fun j hj => ⟨Nat.le_of_lt hj, fun e => ?_⟩)
  rw [e, Nat.zero_add] at hj
  exact Nat.lt_irrefl _ hj

theorem SL_leaf {h : H} {rank : Ref → Nat} {x : Ref} {c : Cell} (hg : h.get x = some c) :
    c.node.children.length + 2 ≤ SL (fun i => rank i ≤ rank x) h.cells 0 :=
  SL_ge (Q := fun i => rank i ≤ rank x) h.cells x (some c) (getElem?_of_get hg) (Nat.le_refl _)

theorem SL_below {h : H} {rank : Ref → Nat} {m : Ref} {R : Nat} (hm : rank m < R) :
    SL (fun i => rank i ≤ rank m) h.cells 0 ≤ SL (fun i => rank i < R) h.cells 0 :=
  SL_mono (fun _ hj => Nat.lt_of_le_of_lt hj hm) h.cells 0

mutual
theorem need_le_SL {h : H} {rank : Ref → Nat}
    (hrank : ∀ r c, h.get r = some c → ∀ x ∈ c.node.children, rank x < rank r) :
    ∀ (t : Item) (x : Ref), Den t h x → need t ≤ SL (fun i => rank i ≤ rank x) h.cells 0
  | .uint _ _, x, hd | .negint _ _, x, hd | .bytes _, x, hd | .text _, x, hd
  | .simple _, x, hd | .half _, x, hd | .single _, x, hd | .double _, x, hd => by
    simp only [Den] at hd
    obtain ⟨rc, hg⟩ := hd
    have := SL_leaf (rank := rank) hg
    simp only [need]; omega
  | .bytesI cs, x, hd | .textI cs, x, hd => by
    simp only [Den] at hd
    obtain ⟨rs, cap, rc, hg, hc⟩ := hd
    have := SL_leaf (rank := rank) hg
    have := denChunks_length _ cs rs hc
    simp only [Node.children] at *
    simp only [need]; omega
  | .array ts, x, hd | .arrayI ts, x, hd => by
    simp only [Den] at hd
    obtain ⟨xs, al, rc, hg, hc⟩ := hd
    have h1 := SL_node (rank := rank) hg
    have h2 := needL_le_SL hrank ts xs (rank x) hc (fun m hm => hrank x _ hg m hm)
    simp only [wt, Node.children] at h1
    simp only [need]; omega
  | .map ps, x, hd | .mapI ps, x, hd => by
    simp only [Den] at hd
    obtain ⟨rs, al, rc, hg, hc⟩ := hd
    have h1 := SL_node (rank := rank) hg
    have h2 := needP_le_SL hrank ps rs (rank x) hc (fun p hp =>
      ⟨hrank x _ hg p.1 (List.mem_flatMap.mpr ⟨p, hp, by simp⟩), hrank x _ hg p.2 (List.mem_flatMap.mpr ⟨p, hp, by simp⟩)⟩)
    simp only [wt, Node.children, length_flatMap_pairs] at h1
    simp only [need]; omega
  | .tag n t, x, hd => by
    simp only [Den] at hd
    obtain ⟨y, rc, hg, hc⟩ := hd
    have h1 := SL_node (rank := rank) hg
    have h2 := need_le_SL hrank t y hc
    have h3 := SL_below (h := h) (hrank x _ hg y (by simp [Node.children]))
    simp only [wt, Node.children, List.length_cons, List.length_nil] at h1
    simp only [need]; omega
theorem needL_le_SL {h : H} {rank : Ref → Nat}
    (hrank : ∀ r c, h.get r = some c → ∀ x ∈ c.node.children, rank x < rank r) :
    ∀ (ts : List Item) (xs : List Ref) (R : Nat), DenList ts h xs → (∀ m ∈ xs, rank m < R) →
      needL ts ≤ xs.length + 1 + SL (fun i => rank i < R) h.cells 0
  | [], [], _, _, _ => by simp only [needL]; omega
  | [], _ :: _, _, hd, _ => by simp [DenList] at hd
  | _ :: _, [], _, hd, _ => by simp [DenList] at hd
  | t :: ts, x :: xs, R, hd, hm => by
    simp only [DenList] at hd
    have h1 := need_le_SL hrank t x hd.1
    have h2 := SL_below (h := h) (hm x (by simp))
    have h3 := needL_le_SL hrank ts xs R hd.2 (fun m hmm => hm m (by simp [hmm]))
    simp only [needL, List.length_cons]; omega
theorem needP_le_SL {h : H} {rank : Ref → Nat}
    (hrank : ∀ r c, h.get r = some c → ∀ x ∈ c.node.children, rank x < rank r) :
    ∀ (ps : List (Item × Item)) (rs : List (Ref × Ref)) (R : Nat), DenPairs ps h rs →
      (∀ p ∈ rs, rank p.1 < R ∧ rank p.2 < R) →
      needP ps ≤ rs.length + 1 + SL (fun i => rank i < R) h.cells 0
  | [], [], _, _, _ => by simp only [needP]; omega
  | [], _ :: _, _, hd, _ => by simp [DenPairs] at hd
  | _ :: _, [], _, hd, _ => by simp [DenPairs] at hd
  | (k, v) :: ps, (a, b) :: rs, R, hd, hm => by
    simp only [DenPairs] at hd
    have h1 := need_le_SL hrank k a hd.1
    have h2 := need_le_SL hrank v b hd.2.1
    have h3 := SL_below (h := h) (m := a) (hm (a, b) (by simp)).1
    have h4 := SL_below (h := h) (m := b) (hm (a, b) (by simp)).2
    have h5 := needP_le_SL hrank ps rs R hd.2.2 (fun p hp => hm p (by simp [hp]))
    simp only [needP, List.length_cons]; omega
end

/-- the fuel `H.copyFuel` covers the need of every item of an acyclic heap -/
theorem need_le_copyFuel (h : H) (hac : ∃ rank : Ref → Nat, ∀ r c, h.get r = some c → ∀ x ∈ c.node.children, rank x < rank r) :
    ∀ (t : Item) (x : Ref), Den t h x → need t ≤ h.copyFuel := by
  obtain ⟨rank, hrank⟩ := hac
  intro t x hd
  have h1 := need_le_SL hrank t x hd
  have h2 := SL_le_copyFuel (P := fun i => rank i ≤ rank x) h
  omega


/-! ### Part 2: `Den` and `val` agree

The recursion of `val / valList / valPairs / valChunks` consumes fuel exactly like `copy / copyItems / copyPairs /
copyChunks`, so the structural fuel bound for `val` is the same function as the one for `copy`. -/

abbrev vneed : Item → Nat := need
abbrev vneedL : List Item → Nat := needL
abbrev vneedP : List (Item × Item) → Nat := needP

theorem valChunks_of_den (t : Bool) : ∀ (cs : List (List UInt8)) (f : Nat) (h : H) (rs : List Ref),
    DenChunks t cs h rs → cs.length + 1 ≤ f → valChunks f h rs = some cs
  | [], 0, _, [], _, hf => by simp at hf
  | [], f + 1, _, [], _, _ => by simp [valChunks]
  | [], _, _, _ :: _, hd, _ => by simp [DenChunks] at hd
  | _ :: _, _, _, [], hd, _ => by simp [DenChunks] at hd
  | b :: bs, 0, _, c :: cs, _, hf => by simp at hf
  | b :: bs, f + 1, h, c :: cs, hd, hf => by
    simp only [DenChunks] at hd
    obtain ⟨⟨rc, hg⟩, hd2⟩ := hd
    have := valChunks_of_den t bs f h cs hd2 (by simp only [List.length_cons] at hf; omega)
    simp [valChunks, hg, this]

mutual
/-- with enough fuel, the executable `val` computes the tree the item denotes -/
theorem val_of_den : ∀ (t : Item) (f : Nat) (h : H) (x : Ref), Den t h x → vneed t ≤ f → val f h x = some t
  | .uint _ _, f, h, x, hd, hf | .negint _ _, f, h, x, hd, hf | .bytes _, f, h, x, hd, hf | .text _, f, h, x, hd, hf
  | .simple _, f, h, x, hd, hf | .half _, f, h, x, hd, hf | .single _, f, h, x, hd, hf | .double _, f, h, x, hd, hf => by
    simp only [Den] at hd
    obtain ⟨rc, hg⟩ := hd
    cases f with
    | zero => simp [vneed, need] at hf
    | succ f => simp [val, hg]
  | .bytesI cs, f, h, x, hd, hf | .textI cs, f, h, x, hd, hf => by
    simp only [Den] at hd
    obtain ⟨rs, cap, rc, hg, hc⟩ := hd
    simp only [vneed, need] at hf
    cases f with
    | zero => omega
    | succ f =>
      have := valChunks_of_den _ cs f h rs hc (by omega)
      simp [val, hg, this]
  | .array ts, f, h, x, hd, hf | .arrayI ts, f, h, x, hd, hf => by
    simp only [Den] at hd
    obtain ⟨xs, al, rc, hg, hc⟩ := hd
    simp only [vneed, need] at hf
    cases f with
    | zero => omega
    | succ f =>
      have := valList_of_den ts f h xs hc (by simp only [vneedL]; omega)
      simp [val, hg, this]
  | .map ps, f, h, x, hd, hf | .mapI ps, f, h, x, hd, hf => by
    simp only [Den] at hd
    obtain ⟨rs, al, rc, hg, hc⟩ := hd
    simp only [vneed, need] at hf
    cases f with
    | zero => omega
    | succ f =>
      have := valPairs_of_den ps f h rs hc (by simp only [vneedP]; omega)
      simp [val, hg, this]
  | .tag n t, f, h, x, hd, hf => by
    simp only [Den] at hd
    obtain ⟨y, rc, hg, hc⟩ := hd
    simp only [vneed, need] at hf
    cases f with
    | zero => omega
    | succ f =>
      have := val_of_den t f h y hc (by simp only [vneed]; omega)
      simp [val, hg, this]
theorem valList_of_den : ∀ (ts : List Item) (f : Nat) (h : H) (xs : List Ref), DenList ts h xs → vneedL ts ≤ f → valList f h xs = some ts
  | [], 0, _, [], _, hf => by simp [vneedL, needL] at hf
  | [], f + 1, _, [], _, _ => by simp [valList]
  | [], _, _, _ :: _, hd, _ => by simp [DenList] at hd
  | _ :: _, _, _, [], hd, _ => by simp [DenList] at hd
  | t :: ts, 0, _, x :: xs, _, hf => by simp only [vneedL, needL] at hf; omega
  | t :: ts, f + 1, h, x :: xs, hd, hf => by
    simp only [DenList] at hd
    simp only [vneedL, needL] at hf
    have a := val_of_den t f h x hd.1 (by simp only [vneed]; omega)
    have b := valList_of_den ts f h xs hd.2 (by simp only [vneedL]; omega)
    simp [valList, a, b]
theorem valPairs_of_den : ∀ (ps : List (Item × Item)) (f : Nat) (h : H) (rs : List (Ref × Ref)), DenPairs ps h rs → vneedP ps ≤ f → valPairs f h rs = some ps
  | [], 0, _, [], _, hf => by simp [vneedP, needP] at hf
  | [], f + 1, _, [], _, _ => by simp [valPairs]
  | [], _, _, _ :: _, hd, _ => by simp [DenPairs] at hd
  | _ :: _, _, _, [], hd, _ => by simp [DenPairs] at hd
  | (k, v) :: ps, 0, _, (a, b) :: rs, _, hf => by simp only [vneedP, needP] at hf; omega
  | (k, v) :: ps, f + 1, h, (a, b) :: rs, hd, hf => by
    simp only [DenPairs] at hd
    simp only [vneedP, needP] at hf
    have e1 := val_of_den k f h a hd.1 (by simp only [vneed]; omega)
    have e2 := val_of_den v f h b hd.2.1 (by simp only [vneed]; omega)
    have e3 := valPairs_of_den ps f h rs hd.2.2 (by simp only [vneedP]; omega)
    simp [valPairs, e1, e2, e3]
end

theorem vneed_le_copyFuel (h : H) (hac : ∃ rank : Ref → Nat, ∀ r c, h.get r = some c → ∀ x ∈ c.node.children, rank x < rank r) :
    ∀ (t : Item) (x : Ref), Den t h x → vneed t ≤ h.copyFuel :=
  need_le_copyFuel h hac

/-- in an acyclic heap `H.val` computes the tree an item denotes -/
theorem hval_of_den (h : H) (hac : ∃ rank : Ref → Nat, ∀ r c, h.get r = some c → ∀ x ∈ c.node.children, rank x < rank r)
    (t : Item) (x : Ref) (hd : Den t h x) : h.val x = some t :=
  val_of_den t h.copyFuel h x hd (vneed_le_copyFuel h hac t x hd)


/-! ### the converse: what `val` computes is denoted

`valChunks` does not look at the kind (byte / text) of a chunk, `DenChunks` does; `addChunk` only ever adds chunks of
the string's own kind, and for such heaps the converse holds. -/

/-- every chunk of an indefinite string has the string's kind -/
def ChunkKinds (h : H) : Prop :=
  ∀ r t cs cap rc, h.get r = some ⟨.strI t cs cap, rc⟩ → ∀ c ∈ cs, ∀ t' b rc', h.get c = some ⟨.str t' b, rc'⟩ → t' = t

theorem denChunks_of_val (t : Bool) : ∀ (f : Nat) (h : H) (rs : List Ref) (cs : List (List UInt8)),
    (∀ c ∈ rs, ∀ t' b rc', h.get c = some ⟨.str t' b, rc'⟩ → t' = t) → valChunks f h rs = some cs → DenChunks t cs h rs
  | 0, _, _, _, _, hv => by simp [valChunks] at hv
  | f + 1, _, [], cs, _, hv => by
    simp only [valChunks, Option.some.injEq] at hv
    subst hv; simp [DenChunks]
  | f + 1, h, c :: rs, cs, hk, hv => by
    simp only [valChunks] at hv
    cases hg : h.get c with
    | none => simp [hg] at hv
    | some cell =>
      obtain ⟨n, rc⟩ := cell
      cases n with
      | str t' b =>
        simp only [hg, Option.map_eq_some_iff] at hv
        obtain ⟨l, hl, e⟩ := hv
        subst e
        have := hk c (by simp) t' b rc hg
        subst this
        simp only [DenChunks]
        exact ⟨⟨rc, hg⟩, denChunks_of_val _ f h rs l (fun c' hc' => hk c' (by simp [hc'])) hl⟩
      | _ => simp [hg] at hv

theorem den_of_val_aux (h : H) (hk : ChunkKinds h) : ∀ (f : Nat),
    (∀ x t, val f h x = some t → Den t h x) ∧
    (∀ xs ts, valList f h xs = some ts → DenList ts h xs) ∧
    (∀ rs ps, valPairs f h rs = some ps → DenPairs ps h rs)
  | 0 => by simp [val, valList, valPairs]
  | f + 1 => by
    obtain ⟨i1, i2, i3⟩ := den_of_val_aux h hk f
    refine ⟨fun x t hv => ?_, fun xs ts hv => ?_, fun rs ps hv => ?_⟩
    · simp only [val] at hv
      cases hg : h.get x with
      | none => simp [hg] at hv
      | some cell =>
        obtain ⟨n, rc⟩ := cell
        simp only [hg] at hv
        cases n with
        | int neg w v =>
          cases neg <;> simp only [Option.some.injEq] at hv <;> subst hv <;> simp only [Den] <;> exact ⟨rc, hg⟩
        | str text b =>
          cases text <;> simp only [Option.some.injEq] at hv <;> subst hv <;> simp only [Den] <;> exact ⟨rc, hg⟩
        | strI t' cs cap =>
          simp only [Option.map_eq_some_iff] at hv
          obtain ⟨l, hl, e⟩ := hv
          have hd := denChunks_of_val t' f h cs l (hk x t' cs cap rc hg) hl
          cases t' <;> simp only [Bool.false_eq_true, if_false, if_true] at e <;> subst e <;> simp only [Den] <;>
            exact ⟨cs, cap, rc, hg, hd⟩
        | arr d xs al =>
          simp only [Option.map_eq_some_iff] at hv
          obtain ⟨l, hl, e⟩ := hv
          have hd := i2 xs l hl
          cases d <;> simp only [Bool.false_eq_true, if_false, if_true] at e <;> subst e <;> simp only [Den] <;>
            exact ⟨xs, al, rc, hg, hd⟩
        | map d ps al =>
          simp only [Option.map_eq_some_iff] at hv
          obtain ⟨l, hl, e⟩ := hv
          have hd := i3 ps l hl
          cases d <;> simp only [Bool.false_eq_true, if_false, if_true] at e <;> subst e <;> simp only [Den] <;>
            exact ⟨ps, al, rc, hg, hd⟩
        | tag n o =>
          cases o with
          | none => simp at hv
          | some y =>
            simp only [Option.map_eq_some_iff] at hv
            obtain ⟨l, hl, e⟩ := hv
            subst e
            simp only [Den]
            exact ⟨y, rc, hg, i1 y l hl⟩
        | ctrl v => simp only [Option.some.injEq] at hv; subst hv; simp only [Den]; exact ⟨rc, hg⟩
        | half v => simp only [Option.some.injEq] at hv; subst hv; simp only [Den]; exact ⟨rc, hg⟩
        | single v => simp only [Option.some.injEq] at hv; subst hv; simp only [Den]; exact ⟨rc, hg⟩
        | double v => simp only [Option.some.injEq] at hv; subst hv; simp only [Den]; exact ⟨rc, hg⟩
    · cases xs with
      | nil => simp only [valList, Option.some.injEq] at hv; subst hv; simp [DenList]
      | cons x xs =>
        simp only [valList, bind, Option.bind_eq_some_iff, pure, Option.some.injEq] at hv
        obtain ⟨a, ha, r, hr, e⟩ := hv
        subst e
        simp only [DenList]
        exact ⟨i1 x a ha, i2 xs r hr⟩
    · cases rs with
      | nil => simp only [valPairs, Option.some.injEq] at hv; subst hv; simp [DenPairs]
      | cons p rs =>
        obtain ⟨k, v⟩ := p
        simp only [valPairs, bind, Option.bind_eq_some_iff, pure, Option.some.injEq] at hv
        obtain ⟨a, ha, b, hb, r, hr, e⟩ := hv
        subst e
        simp only [DenPairs]
        exact ⟨i1 k a ha, i1 v b hb, i3 rs r hr⟩

/-- what `val` computes is what the item denotes (for heaps whose chunks have their string's kind) -/
theorem den_of_val {h : H} (hk : ChunkKinds h) {f : Nat} {x : Ref} {t : Item} (hv : val f h x = some t) : Den t h x :=
  (den_of_val_aux h hk f).1 x t hv

/-- without `ChunkKinds` the converse fails: a byte string holding a text chunk -/
example : ∃ (h : H) (f : Nat) (x : Ref) (t : Item), val f h x = some t ∧ ¬ Den t h x :=
  ⟨{ cells := [some ⟨.str true [], 1⟩, some ⟨.strI false [0] 1, 1⟩] }, 3, 1, .bytesI [[]], by
    simp [val, valChunks, H.get], by simp [Den, DenChunks, H.get]⟩

end Heap

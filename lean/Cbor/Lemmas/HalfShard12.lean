import Cbor.Lemmas.Half
/-! shard 12 of the exhaustive binary16 table check (patterns 12288 .. 13311), kernel-evaluated -/
namespace Lemmas
theorem half_shard_12 : halfShardOk 12 = true := by decide +kernel
end Lemmas

import Cbor.Lemmas.Half
/-! shard 39 of the exhaustive binary16 table check (patterns 39936 .. 40959), kernel-evaluated -/
namespace Lemmas
theorem half_shard_39 : halfShardOk 39 = true := by decide +kernel
end Lemmas

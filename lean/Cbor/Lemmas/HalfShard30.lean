import Cbor.Lemmas.Half
/-! shard 30 of the exhaustive binary16 table check (patterns 30720 .. 31743), kernel-evaluated -/
namespace Lemmas
theorem half_shard_30 : halfShardOk 30 = true := by decide +kernel
end Lemmas

import Cbor.Lemmas.Ser
import Cbor.Props.C20
namespace Lemmas.Ser
open Model Spec Lemmas Gen

/-- the `size_t` a size computation reports: the size, or 0 when it does not fit -/
def sz (k : Nat) : UInt64 := if k < 2 ^ 64 then UInt64.ofNat k else 0

theorem sz_lt (k : Nat) (h : k < 2 ^ 64) : sz k = UInt64.ofNat k := by simp [sz, h]
theorem sz_ge (k : Nat) (h : ¬ k < 2 ^ 64) : sz k = 0 := by simp [sz, h]

/-! The generated size helpers are used only through their specification lemmas (`Props.C20`), never unfolded here. -/
theorem ssadd_zero_l (b : UInt64) : _cbor_safe_signaling_add 0 b = 0 := by
  apply UInt64.toNat_inj.mp; rw [Props.C20.C20_sadd]; simp
theorem ssadd_zero_r (a : UInt64) : _cbor_safe_signaling_add a 0 = 0 := by
  apply UInt64.toNat_inj.mp; rw [Props.C20.C20_sadd]; simp

theorem ssadd_sz (a b : Nat) (ha : 0 < a) (hb : 0 < b) :
    _cbor_safe_signaling_add (sz a) (sz b) = sz (a + b) := by
  by_cases h1 : a < 2 ^ 64
  · by_cases h2 : b < 2 ^ 64
    · rw [sz_lt a h1, sz_lt b h2]
      have e1 := u64_of a h1
      have e2 := u64_of b h2
      apply UInt64.toNat_inj.mp
      rw [Props.C20.C20_sadd, e1, e2]
      have n1 : ¬ UInt64.ofNat a = 0 := by intro h; rw [h] at e1; simp at e1; omega
      have n2 : ¬ UInt64.ofNat b = 0 := by intro h; rw [h] at e2; simp at e2; omega
      simp only [n1, n2, false_or]
      by_cases h3 : a + b < 2 ^ 64
      · rw [sz_lt _ h3, u64_of _ h3, if_neg (by omega)]
      · rw [sz_ge _ h3, if_pos (by omega)]; rfl
    · rw [sz_ge b h2, ssadd_zero_r, sz_ge]; omega
  · rw [sz_ge a h1, ssadd_zero_l, sz_ge]; omega

theorem head_length (mt v : Nat) : (Spec.head mt v).length =
    if v < 24 then 1 else if v < 256 then 2 else if v < 65536 then 3 else if v < 4294967296 then 5 else 9 := by
  unfold Spec.head
  rw [Spec.headBytes_length]
  unfold Spec.shortestAi Spec.argBytes
  repeat' split
  all_goals omega

theorem hsize_spec (mt v : Nat) (h : v < 2 ^ 64) :
    _cbor_encoded_header_size (UInt64.ofNat v) = sz (Spec.head mt v).length := by
  have e := u64_of v h
  rw [head_length]
  apply UInt64.toNat_inj.mp
  rw [Props.C20.C20_header_size, e]
  repeat' split
  all_goals (first | omega | rfl)

mutual
/-- lengths and counts the C representation stores in a `size_t` -/
def Rep : Item → Prop
  | .bytes b => b.length < 2 ^ 64
  | .text b => b.length < 2 ^ 64
  | .bytesI cs => ∀ c ∈ cs, c.length < 2 ^ 64
  | .textI cs => ∀ c ∈ cs, c.length < 2 ^ 64
  | .array xs => xs.length < 2 ^ 64 ∧ RepL xs
  | .arrayI xs => RepL xs
  | .map kvs => kvs.length < 2 ^ 64 ∧ RepP kvs
  | .mapI kvs => RepP kvs
  | .tag _ x => Rep x
  | _ => True
def RepL : List Item → Prop
  | [] => True
  | x :: xs => Rep x ∧ RepL xs
def RepP : List (Item × Item) → Prop
  | [] => True
  | (k, v) :: r => Rep k ∧ Rep v ∧ RepP r
end

theorem sizeString_spec (mt len : Nat) (h : len < 2 ^ 64) :
    sizeString len = sz ((Spec.head mt len).length + len) := by
  unfold sizeString
  simp only [hsize_spec mt len h]
  split
  · subst len; rfl
  · rw [← sz_lt len h]
    have := head_ne_nil mt len
    exact ssadd_sz _ _ (by cases h : Spec.head mt len <;> simp_all) (by omega)

theorem sizeChunks_spec (mt : Nat) : ∀ (cs : List (List UInt8)) (a : Nat), 0 < a → (∀ c ∈ cs, c.length < 2 ^ 64) →
    sizeChunks cs (sz a) = sz (a + (encodeChunks mt cs).length)
  | [], a, _, _ => by simp [sizeChunks, encodeChunks]
  | c :: cs, a, ha, h => by
    simp only [sizeChunks, encodeChunks, List.length_append]
    rw [sizeString_spec mt c.length (h c (by simp))]
    have hp : 0 < (Spec.head mt c.length).length := by
      have := head_ne_nil mt c.length; cases h : Spec.head mt c.length <;> simp_all
    rw [ssadd_sz _ _ ha (by omega)]
    rw [sizeChunks_spec mt cs _ (by omega) (fun c hc => h c (by simp [hc]))]
    congr 1; omega

theorem sz2 : (2 : UInt64) = sz 2 := rfl

mutual
theorem size_spec : ∀ (t : Item), Valid t → Rep t → size t = sz (encode t).length
  | .uint .w8 v, hv, _ => by
    simp only [size, encode, Spec.headBytes_length, intAi, Spec.argBytes]
    split <;> split <;> first | rfl | omega
  | .uint .w16 v, hv, _ => by simp only [size, encode, Spec.headBytes_length, intAi, Spec.argBytes]; rfl
  | .uint .w32 v, hv, _ => by simp only [size, encode, Spec.headBytes_length, intAi, Spec.argBytes]; rfl
  | .uint .w64 v, hv, _ => by simp only [size, encode, Spec.headBytes_length, intAi, Spec.argBytes]; rfl
  | .negint .w8 v, hv, _ => by
    simp only [size, encode, Spec.headBytes_length, intAi, Spec.argBytes]
    split <;> split <;> first | rfl | omega
  | .negint .w16 v, hv, _ => by simp only [size, encode, Spec.headBytes_length, intAi, Spec.argBytes]; rfl
  | .negint .w32 v, hv, _ => by simp only [size, encode, Spec.headBytes_length, intAi, Spec.argBytes]; rfl
  | .negint .w64 v, hv, _ => by simp only [size, encode, Spec.headBytes_length, intAi, Spec.argBytes]; rfl
  | .bytes b, _, hr => by
    simp only [Rep] at hr
    simp only [size, encode, List.length_append]; exact sizeString_spec 2 _ hr
  | .text b, _, hr => by
    simp only [Rep] at hr
    simp only [size, encode, List.length_append]; exact sizeString_spec 3 _ hr
  | .bytesI cs, _, hr => by
    simp only [Rep] at hr
    simp only [size, encode, List.length_append, List.length_cons, List.length_nil]
    rw [sz2, sizeChunks_spec 2 cs 2 (by omega) hr]; congr 1; omega
  | .textI cs, _, hr => by
    simp only [Rep] at hr
    simp only [size, encode, List.length_append, List.length_cons, List.length_nil]
    rw [sz2, sizeChunks_spec 3 cs 2 (by omega) hr]; congr 1; omega
  | .array xs, hv, hr => by
    simp only [Valid] at hv; simp only [Rep] at hr
    simp only [size, encode, List.length_append]
    rw [hsize_spec 4 _ hr.1]
    have hp : 0 < (Spec.head 4 xs.length).length := by
      have := head_ne_nil 4 xs.length; cases h : Spec.head 4 xs.length <;> simp_all
    exact sizeList_spec xs hv hr.2 _ hp
  | .arrayI xs, hv, hr => by
    simp only [Valid] at hv; simp only [Rep] at hr
    simp only [size, encode, List.length_append, List.length_cons, List.length_nil]
    rw [sz2, sizeList_spec xs hv hr 2 (by omega)]; congr 1; omega
  | .map kvs, hv, hr => by
    simp only [Valid] at hv; simp only [Rep] at hr
    simp only [size, encode, List.length_append]
    rw [hsize_spec 5 _ hr.1]
    have hp : 0 < (Spec.head 5 kvs.length).length := by
      have := head_ne_nil 5 kvs.length; cases h : Spec.head 5 kvs.length <;> simp_all
    exact sizePairs_spec kvs hv hr.2 _ hp
  | .mapI kvs, hv, hr => by
    simp only [Valid] at hv; simp only [Rep] at hr
    simp only [size, encode, List.length_append, List.length_cons, List.length_nil]
    rw [sz2, sizePairs_spec kvs hv hr 2 (by omega)]; congr 1; omega
  | .tag t x, hv, hr => by
    simp only [Valid] at hv; simp only [Rep] at hr
    simp only [size, encode, List.length_append]
    rw [hsize_spec 6 _ hv.1, size_spec x hv.2 hr]
    have hp : 0 < (Spec.head 6 t).length := by
      have := head_ne_nil 6 t; cases h : Spec.head 6 t <;> simp_all
    exact ssadd_sz _ _ hp (encode_pos x)
  | .simple v, hv, _ => by
    simp only [Valid] at hv
    simp only [size, encode, Spec.headBytes_length]
    rw [Nat.mod_eq_of_lt hv, hsize_spec 7 v (by omega), head_length]
    simp only [Spec.argBytes]
    by_cases c : v < 24
    · simp [c]
    · have : v < 256 := hv
      simp [c, this]
  | .half f, _, _ => by simp only [size, encode, Spec.headBytes_length, Spec.argBytes]; rfl
  | .single f, _, _ => by simp only [size, encode, Spec.headBytes_length, Spec.argBytes]; rfl
  | .double f, _, _ => by simp only [size, encode, Spec.headBytes_length, Spec.argBytes]; rfl

theorem sizeList_spec : ∀ (xs : List Item), ValidL xs → RepL xs → ∀ (a : Nat), 0 < a →
    sizeList xs (sz a) = sz (a + (encodeList xs).length)
  | [], _, _, a, _ => by simp [sizeList, encodeList]
  | x :: xs, hv, hr, a, ha => by
    simp only [ValidL] at hv; simp only [RepL] at hr
    simp only [sizeList, encodeList, List.length_append]
    rw [size_spec x hv.1 hr.1, ssadd_sz _ _ ha (encode_pos x), sizeList_spec xs hv.2 hr.2 _ (by omega)]
    congr 1; omega

theorem sizePairs_spec : ∀ (kvs : List (Item × Item)), ValidP kvs → RepP kvs → ∀ (a : Nat), 0 < a →
    sizePairs kvs (sz a) = sz (a + (encodePairs kvs).length)
  | [], _, _, a, _ => by simp [sizePairs, encodePairs]
  | (k, v) :: r, hv, hr, a, ha => by
    simp only [ValidP] at hv; simp only [RepP] at hr
    simp only [sizePairs, encodePairs, List.length_append]
    rw [size_spec k hv.1 hr.1, size_spec v hv.2.1 hr.2.1, ssadd_sz _ _ (encode_pos k) (encode_pos v),
      ssadd_sz _ _ ha (by have := encode_pos k; omega), sizePairs_spec r hv.2.2 hr.2.2 _ (by omega)]
    congr 1; omega
end

end Lemmas.Ser

namespace Lemmas.Ser
open Model Spec Gen

theorem sizeChunks_fold (cs : List (List UInt8)) (acc : UInt64) :
    sizeChunks cs acc = (cs.map List.length).foldl (fun a l => _cbor_safe_signaling_add a (sizeString l)) acc := by
  induction cs generalizing acc with
  | nil => rfl
  | cons c cs ih => simp [sizeChunks, ih]

theorem skelList_length : ∀ xs : List Item, (skelList xs).length = xs.length
  | [] => rfl
  | x :: xs => by simp [skelList, skelList_length xs]
theorem skelPairs_length : ∀ xs : List (Item × Item), (skelPairs xs).length = xs.length
  | [] => rfl
  | (k, v) :: xs => by simp [skelPairs, skelPairs_length xs]

mutual
/-- the size computation looks only at the skeleton: the model driven with recorded lengths (`sizeS`) is the
model the theorems are about (`size`) -/
theorem size_eq_sizeS : ∀ t : Item, size t = sizeS (skel t)
  | .uint _ _ => by simp [skel, sizeS]
  | .negint _ _ => by simp [skel, sizeS]
  | .bytes b => by simp [skel, sizeS, size]
  | .text b => by simp [skel, sizeS, size]
  | .bytesI cs => by simp [skel, sizeS, size, sizeChunks_fold]
  | .textI cs => by simp [skel, sizeS, size, sizeChunks_fold]
  | .array xs => by simp [skel, sizeS, size, skelList_length, sizeList_eq xs]
  | .arrayI xs => by simp [skel, sizeS, size, sizeList_eq xs]
  | .map kvs => by simp [skel, sizeS, size, skelPairs_length, sizePairs_eq kvs]
  | .mapI kvs => by simp [skel, sizeS, size, sizePairs_eq kvs]
  | .tag t x => by simp [skel, sizeS, size, size_eq_sizeS x]
  | .simple _ => by simp [skel, sizeS]
  | .half _ => by simp [skel, sizeS]
  | .single _ => by simp [skel, sizeS]
  | .double _ => by simp [skel, sizeS]
theorem sizeList_eq : ∀ (xs : List Item) (acc : UInt64), sizeList xs acc = sizeSList (skelList xs) acc
  | [], _ => rfl
  | x :: xs, acc => by simp [sizeList, skelList, sizeSList, size_eq_sizeS x, sizeList_eq xs]
theorem sizePairs_eq : ∀ (kvs : List (Item × Item)) (acc : UInt64), sizePairs kvs acc = sizeSPairs (skelPairs kvs) acc
  | [], _ => rfl
  | (k, v) :: r, acc => by simp [sizePairs, skelPairs, sizeSPairs, size_eq_sizeS k, size_eq_sizeS v, sizePairs_eq r]
end

end Lemmas.Ser

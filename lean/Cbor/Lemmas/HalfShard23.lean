import Cbor.Lemmas.Half
/-! shard 23 of the exhaustive binary16 table check (patterns 23552 .. 24575), kernel-evaluated -/
namespace Lemmas
theorem half_shard_23 : halfShardOk 23 = true := by decide +kernel
end Lemmas

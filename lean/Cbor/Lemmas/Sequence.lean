import Cbor.Props.C02
import Cbor.Props.C03
import Cbor.Props.C14
/-!
# CBOR sequences (RFC 8742): the client loop that repeatedly decodes at an offset advanced by bytes-read

`loadAll` is the loop a client of `cbor_load` writes to read a CBOR sequence: decode one item, advance by
`result.read`, repeat until the buffer is exhausted or a load fails.  The theorems show that it splits any
concatenation of `n` acceptable item encodings into exactly those `n` items, in order, finishing exactly at the
end of the buffer (property C14, second sentence).
-/
namespace Lemmas.Sequence
open Model Spec Lemmas.Refine

/-- repeatedly decode at the offset advanced by bytes-read until the buffer is exhausted or a load fails;
`fuel` ≥ number of items + 1.  The buffer argument is the part not yet consumed: after a successful load the loop
continues on `buf.extract read buf.size`.  Returns the items decoded so far and the failing result if a load failed.

With `fuel = n + 1`, the answer `(ts, none)` with `ts.length = n` can only be produced by the `buf.size = 0` test
of the `(n+1)`-th round: the loop stopped because nothing was left. -/
def loadAll (L : Nat) : Nat → Array UInt8 → List Item × Option Model.LoadResult
  | 0, _ => ([], none)
  | fuel+1, buf =>
    if buf.size = 0 then ([], none)
    else
      let o := Model.load ωT L ⟨.none, 0, 0⟩ buf
      match o.item with
      | none => ([], some o.result)
      | some t =>
        let r := loadAll L fuel (buf.extract o.result.read buf.size)
        (t :: r.1, r.2)

/-- `x₁ ++ … ++ xₙ` -/
def concat : List (Array UInt8) → Array UInt8
  | [] => #[]
  | x :: xs => x ++ concat xs

@[simp] theorem concat_nil : concat [] = #[] := rfl
@[simp] theorem concat_cons (x : Array UInt8) (xs : List (Array UInt8)) : concat (x :: xs) = x ++ concat xs := rfl

theorem concat_eq_flatten (xs : List (Array UInt8)) : concat xs = xs.toArray.flatten := by
  induction xs with
  | nil => simp
  | cons x xs ih => simp [ih, Array.flatten_toArray]

theorem concat_toList (xs : List (Array UInt8)) : (concat xs).toList = (xs.map Array.toList).flatten := by
  induction xs with
  | nil => simp
  | cons x xs ih => simp [ih]

theorem concat_map_toArray (ls : List (List UInt8)) : concat (ls.map List.toArray) = ls.flatten.toArray := by
  induction ls with
  | nil => simp
  | cons l ls ih => simp [ih]

theorem length_le_flatten {α β : Type} (f : α → List β) (ts : List α) (t : α) (ht : t ∈ ts) :
    (f t).length ≤ (ts.map f).flatten.length := by
  induction ts with
  | nil => cases ht
  | cons a ts ih =>
    simp only [List.map_cons, List.flatten_cons, List.length_append]
    rcases List.mem_cons.mp ht with rfl | h
    · omega
    · have := ih h; omega

/-- `x` is exactly one acceptable item encoding of the tree `t`: loading it succeeds with `t` and reads all of it -/
def IsItem (L : Nat) (x : Array UInt8) (t : Item) : Prop :=
  ∃ r0, (Model.load ωT L r0 x).item = some t ∧ (Model.load ωT L r0 x).result.read = x.size

theorem extract_append_size (x y : Array UInt8) : (x ++ y).extract x.size (x ++ y).size = y := by
  apply Array.ext
  · simp
  · intro i h1 h2
    simp

/-- one round of the loop on `x ++ rest`, `x` one item -/
theorem loadAll_step (L fuel : Nat) (x rest : Array UInt8) (t : Item) (hsz : (x ++ rest).size < 2 ^ 56)
    (hx : IsItem L x t) :
    loadAll L (fuel + 1) (x ++ rest) = (t :: (loadAll L fuel rest).1, (loadAll L fuel rest).2) := by
  obtain ⟨r0, hit, hrd⟩ := hx
  have hxs : x.size < 2 ^ 56 := by simp at hsz; omega
  have hpos := Props.C02.C02_read_bounds x hxs L r0 t hit
  have hne : ¬ (x ++ rest).size = 0 := by simp only [Array.size_append]; omega
  have h := Props.C14.C14_suffix x rest hsz L r0 ⟨.none, 0, 0⟩ t x.size ⟨hit, hrd⟩
  rw [loadAll, if_neg hne]
  simp only [h.1, h.2, extract_append_size]

/-- **general splitting theorem** (any fuel above the number of items), over a list of (encoding, tree) pairs -/
theorem loadAll_concat (L : Nat) (ps : List (Array UInt8 × Item))
    (hall : ∀ p ∈ ps, IsItem L p.1 p.2) (hsz : (concat (ps.map Prod.fst)).size < 2 ^ 56)
    (fuel : Nat) (hf : ps.length < fuel) :
    loadAll L fuel (concat (ps.map Prod.fst)) = (ps.map Prod.snd, none) := by
  induction ps generalizing fuel with
  | nil =>
    cases fuel with
    | zero => rfl
    | succ f => simp [loadAll]
  | cons p ps ih =>
    cases fuel with
    | zero => simp at hf
    | succ f =>
      simp only [List.map_cons, concat_cons] at hsz ⊢
      have hr : (concat (ps.map Prod.fst)).size < 2 ^ 56 := by simp only [Array.size_append] at hsz; omega
      rw [loadAll_step L f p.1 _ p.2 hsz (hall p (by simp)),
        ih (fun q hq => hall q (by simp [hq])) hr f (by simpa using hf)]

/-- the same with the encodings and the trees in two lists of equal length, matched by index -/
theorem loadAll_concat_idx (L : Nat) (xs : List (Array UInt8)) (ts : List Item) (hlen : ts.length = xs.length)
    (hall : ∀ i (h : i < xs.length), IsItem L xs[i] (ts[i]'(by omega))) (hsz : (concat xs).size < 2 ^ 56)
    (fuel : Nat) (hf : xs.length < fuel) :
    loadAll L fuel (concat xs) = (ts, none) := by
  have h1 : (xs.zip ts).map Prod.fst = xs := List.map_fst_zip (by omega)
  have h2 : (xs.zip ts).map Prod.snd = ts := List.map_snd_zip (by omega)
  have := loadAll_concat L (xs.zip ts) (by
    intro p hp
    obtain ⟨i, hi, rfl⟩ := List.getElem_of_mem hp
    simp only [List.length_zip] at hi
    simp only [List.getElem_zip]
    exact hall i (by omega)) (by rw [h1]; exact hsz) fuel (by simp only [List.length_zip]; omega)
  rwa [h1, h2] at this

end Lemmas.Sequence

namespace Props.C14
open Model Spec Lemmas.Refine Lemmas.Sequence

/-- **C14, second sentence: repeatedly decoding at an offset advanced by bytes-read splits any concatenation of `n`
items into exactly those `n` items, in order, finishing exactly at the end of the buffer.**

`xs = [x₁, …, xₙ]` are byte arrays each of which is exactly one acceptable item encoding: loading `xᵢ` succeeds with
tree `tᵢ = ts[i]` and reads `xᵢ.size` bytes (non-canonical encodings allowed), for any nesting limit `L`, total size
below `2^56`.  The client loop `loadAll` run on `x₁ ++ … ++ xₙ` (`concat xs`) returns `[t₁, …, tₙ]` and no failing
result; with fuel `n + 1` that answer means the `(n+1)`-th round found the remaining buffer empty. -/
theorem C14_sequence (L : Nat) (xs : List (Array UInt8)) (ts : List Item) (hlen : ts.length = xs.length)
    (hall : ∀ i (h : i < xs.length), ∃ r0 : LoadResult,
      (Model.load ωT L r0 xs[i]).item = some (ts[i]'(by omega)) ∧ (Model.load ωT L r0 xs[i]).result.read = xs[i].size)
    (hsz : (concat xs).size < 2 ^ 56) :
    loadAll L (xs.length + 1) (concat xs) = (ts, none) :=
  loadAll_concat_idx L xs ts hlen hall hsz _ (Nat.lt_succ_self _)

/-- the same for any larger fuel: the loop is insensitive to its bound once it exceeds the number of items -/
theorem C14_sequence_fuel (L : Nat) (xs : List (Array UInt8)) (ts : List Item) (hlen : ts.length = xs.length)
    (hall : ∀ i (h : i < xs.length), ∃ r0 : LoadResult,
      (Model.load ωT L r0 xs[i]).item = some (ts[i]'(by omega)) ∧ (Model.load ωT L r0 xs[i]).result.read = xs[i].size)
    (hsz : (concat xs).size < 2 ^ 56) (fuel : Nat) (hf : xs.length < fuel) :
    loadAll L fuel (concat xs) = (ts, none) :=
  loadAll_concat_idx L xs ts hlen hall hsz fuel hf

/-- **Encoder corollary.**  For trees `t₁ … tₙ`, each valid, canonical and nested within the limit `L`, with total
encoded length below `2^56`: the client loop run on `encode t₁ ++ … ++ encode tₙ` returns exactly
`[renorm t₁, …, renorm tₙ]` (the trees with NaNs canonical), no failing load, nothing left. -/
theorem C14_sequence_encoded (L : Nat) (ts : List Item)
    (hv : ∀ t ∈ ts, Lemmas.Ser.Valid t) (hc : ∀ t ∈ ts, Spec.RT.Canon t) (hd : ∀ t ∈ ts, openDepth t ≤ L)
    (hsz : (ts.map encode).flatten.length < 2 ^ 56) :
    loadAll L (ts.length + 1) (ts.map encode).flatten.toArray = (ts.map Spec.RT.renorm, none) := by
  have hcat : (ts.map encode).flatten.toArray = concat ((ts.map fun t => ((encode t).toArray, Spec.RT.renorm t)).map Prod.fst) := by
    rw [← concat_map_toArray, List.map_map, List.map_map]; rfl
  have hlen : ∀ t ∈ ts, (encode t).length < 2 ^ 56 := by
    intro t ht
    have := length_le_flatten encode ts t ht
    omega
  have := loadAll_concat L (ts.map fun t => ((encode t).toArray, Spec.RT.renorm t)) (by
    intro p hp
    obtain ⟨t, ht, rfl⟩ := List.mem_map.mp hp
    have h := Props.C03.C03_roundtrip t (hv t ht) (hc t ht) L (hd t ht) (hlen t ht) ⟨.none, 0, 0⟩
    exact ⟨⟨.none, 0, 0⟩, h.1, by simpa using h.2.2.1⟩) (by rw [← hcat]; simpa using hsz)
    (ts.length + 1) (by simp)
  rw [hcat, this, List.map_map]; rfl

/-- non-vacuity: the three-item sequence `1`, `[2, 3]`, `"a"` is split into its three items, nothing left -/
example : loadAll 2048 4 #[0x01, 0x82, 0x02, 0x03, 0x61, 0x61] =
    ([.uint .w8 1, .array [.uint .w8 2, .uint .w8 3], .text [0x61]], none) := by
  have h : (match loadAll 2048 4 #[0x01, 0x82, 0x02, 0x03, 0x61, 0x61] with
      | ([.uint .w8 1, .array [.uint .w8 2, .uint .w8 3], .text [0x61]], none) => true
      | _ => false) = true := by decide +kernel
  split at h
  · assumption
  · cases h

/-- and a sequence whose last item is cut short stops there, reporting the failing load after the good items -/
example : (loadAll 2048 4 #[0x01, 0x82, 0x02]).1.length = 1 ∧ (loadAll 2048 4 #[0x01, 0x82, 0x02]).2.isSome = true := by
  decide +kernel

end Props.C14

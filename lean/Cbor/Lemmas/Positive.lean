import Cbor.Lemmas.CopyFrame
/-! Live items never have a zero reference count (the remaining hypothesis of `C04_all_released`). -/
namespace Heap

def Pos (h : H) : Prop := ∀ r c, h.get r = some c → 0 < c.rc

theorem pos_congr {h h' : H} (hp : Pos h) (e : h'.cells = h.cells) : Pos h' :=
  fun r c hg => hp r c (by rw [← get_congr e]; exact hg)
theorem pos_bad {h : H} (hp : Pos h) : Pos h.bad := pos_congr hp rfl

theorem pos_new {h : H} (hp : Pos h) (n : Node) : Pos (h.new n).2 := by
  intro r c hg
  by_cases e : r = h.cells.length
  · subst e; rw [get_new_same] at hg; cases hg; exact Nat.one_pos
  · rw [get_new_other h n r e] at hg; exact hp r c hg

theorem pos_put {h : H} (hp : Pos h) (a : Ref) (c' : Option Cell) (hc' : ∀ c, c' = some c → 0 < c.rc) : Pos (h.put a c') := by
  intro r c hg
  by_cases e : r = a
  · subst e
    by_cases hl : r < h.cells.length
    · rw [get_put_same _ _ _ hl] at hg; exact hc' c hg
    · have : (h.put r c').get r = none := by simp [H.get, H.put, hl]
      rw [this] at hg; cases hg
  · rw [get_put_other _ _ _ _ e] at hg; exact hp r c hg

theorem pos_incref {h : H} (hp : Pos h) (x : Ref) : Pos (h.incref x) := by
  unfold H.incref
  cases hg : h.get x with
  | none => exact pos_bad hp
  | some c => exact pos_put hp x _ (fun c' hc' => by cases hc'; exact Nat.succ_pos _)

theorem pos_grow {h : H} (hp : Pos h) (ω : Oracle) (a b : Nat) : Pos (grow ω h a b).2 := pos_congr hp (grow_same ω h a b).1

theorem pos_new1 {h : H} (hp : Pos h) (ω : Oracle) (n : Node) : Pos (new1 ω h n).2 := by
  unfold new1; simp only [H.req]
  have hp' : Pos ({ h with reqs := h.reqs + 1 } : H) := pos_congr hp rfl
  by_cases h1 : ω h.reqs = true
  · simp only [h1, if_true]; exact pos_new hp' n
  · simp only [h1, if_false]; exact hp'

theorem pos_new2 {h : H} (hp : Pos h) (ω : Oracle) (n : Node) : Pos (new2 ω h n).2 := by
  unfold new2; simp only [H.req]
  have hp1 : Pos ({ h with reqs := h.reqs + 1 } : H) := pos_congr hp rfl
  have hp2 : Pos ({ h with reqs := h.reqs + 1 + 1 } : H) := pos_congr hp rfl
  by_cases h1 : ω h.reqs = true <;> by_cases h2 : ω (h.reqs + 1) = true <;> simp only [h1, h2, Bool.not_true, Bool.false_eq_true, if_false, if_true, Bool.not_false]
  · exact pos_new hp2 n
  · exact hp2
  · exact hp1
  · exact hp1

theorem pos_newMulti {h : H} (hp : Pos h) (ω : Oracle) (a b : Nat) (n : Node) : Pos (newMulti ω h a b n).2 := by
  unfold newMulti; simp only [H.req]
  have hp1 : Pos ({ h with reqs := h.reqs + 1 } : H) := pos_congr hp rfl
  have hp2 : Pos ({ h with reqs := h.reqs + 1 + 1 } : H) := pos_congr hp rfl
  by_cases h1 : ω h.reqs = true <;> by_cases h3 : mulOk a b = true <;> by_cases h2 : ω (h.reqs + 1) = true <;>
    simp only [h1, h2, h3, Bool.not_true, Bool.false_eq_true, if_false, if_true, Bool.not_false]
  all_goals first
    | exact pos_new hp2 n
    | exact hp2
    | exact hp1

theorem pos_arrPush {h : H} (hp : Pos h) (ω : Oracle) (a x : Ref) : Pos (arrPush ω h a x).2 := by
  unfold arrPush
  cases hg : h.get a with
  | none => exact pos_bad hp
  | some c =>
    obtain ⟨n, rc⟩ := c
    have hrc := hp a _ hg
    cases n with
    | arr d items alloc =>
      have hnew : ∀ al, ∀ c, some (⟨.arr d (items ++ [x]) al, rc⟩ : Cell) = some c → 0 < c.rc := by
        intro al c hc; cases hc; exact hrc
      cases d with
      | true => simp only; split; exact hp; exact pos_incref (pos_put hp a _ (hnew alloc)) x
      | false =>
        simp only
        split
        · have hs := pos_grow hp ω 8 alloc
          cases hgr : grow ω h 8 alloc with
          | mk o h1 =>
            rw [hgr] at hs
            cases o with
            | none => exact hs
            | some na => exact pos_incref (pos_put hs a _ (hnew na)) x
        · exact pos_incref (pos_put hp a _ (hnew alloc)) x
    | _ => exact pos_bad hp

theorem pos_mapAdd {h : H} (hp : Pos h) (ω : Oracle) (m k v : Ref) : Pos (mapAdd ω h m k v).2 := by
  unfold mapAdd
  cases hg : h.get m with
  | none => exact pos_bad hp
  | some c =>
    obtain ⟨n, rc⟩ := c
    have hrc := hp m _ hg
    cases n with
    | map d ps alloc =>
      have hnew : ∀ al, ∀ c, some (⟨.map d (ps ++ [(k, v)]) al, rc⟩ : Cell) = some c → 0 < c.rc := by
        intro al c hc; cases hc; exact hrc
      cases d with
      | true => simp only; split; exact hp; exact pos_incref (pos_incref (pos_put hp m _ (hnew alloc)) k) v
      | false =>
        simp only
        split
        · have hs := pos_grow hp ω 16 alloc
          cases hgr : grow ω h 16 alloc with
          | mk o h1 =>
            rw [hgr] at hs
            cases o with
            | none => exact hs
            | some na => exact pos_incref (pos_incref (pos_put hs m _ (hnew na)) k) v
        · exact pos_incref (pos_incref (pos_put hp m _ (hnew alloc)) k) v
    | _ => exact pos_bad hp

theorem pos_addChunk {h : H} (hp : Pos h) (ω : Oracle) (s c : Ref) : Pos (addChunk ω h s c).2 := by
  unfold addChunk
  cases hgs : h.get s with
  | none => exact pos_bad hp
  | some cs =>
    obtain ⟨n, rc⟩ := cs
    have hrc := hp s _ hgs
    cases n with
    | strI t chunks cap =>
      cases hgc : h.get c with
      | none => exact pos_bad hp
      | some cc =>
        obtain ⟨n', rc'⟩ := cc
        cases n' with
        | str t' b =>
          have hnew : ∀ al, ∀ c0, some (⟨.strI t (chunks ++ [c]) al, rc⟩ : Cell) = some c0 → 0 < c0.rc := by
            intro al c0 hc0; cases hc0; exact hrc
          simp only
          split
          · exact pos_bad hp
          · split
            · have hs := pos_grow hp ω 8 cap
              cases hgr : grow ω h 8 cap with
              | mk o h1 =>
                rw [hgr] at hs
                cases o with
                | none => exact hs
                | some na => exact pos_incref (pos_put hs s _ (hnew na)) c
            · exact pos_incref (pos_put hp s _ (hnew cap)) c
        | _ => exact pos_bad hp
    | _ => exact pos_bad hp

theorem pos_tagSet {h : H} (hp : Pos h) (t x : Ref) : Pos (tagSet h t x).2 := by
  unfold tagSet
  cases hg : h.get t with
  | none => exact pos_bad hp
  | some c =>
    obtain ⟨n, rc⟩ := c
    have hrc := hp t _ hg
    cases n with
    | tag k o => exact pos_incref (pos_put hp t _ (fun c hc => by cases hc; exact hrc)) x
    | _ => exact pos_bad hp

theorem pos_tagGet {h : H} (hp : Pos h) (t : Ref) : Pos (tagGet h t).2 := by
  unfold tagGet
  cases hg : h.get t with
  | none => exact pos_bad hp
  | some c =>
    obtain ⟨n, rc⟩ := c
    cases n with
    | tag k o =>
      cases o with
      | none => exact pos_bad hp
      | some x => exact pos_incref hp x
    | _ => exact pos_bad hp

theorem pos_arrGet {h : H} (hp : Pos h) (a : Ref) (i : Nat) : Pos (arrGet h a i).2 := by
  unfold arrGet
  cases hg : h.get a with
  | none => exact pos_bad hp
  | some c =>
    obtain ⟨n, rc⟩ := c
    cases n with
    | arr d items alloc =>
      simp only
      cases hi : items[i]? with
      | none => exact hp
      | some x => exact pos_incref hp x
    | _ => exact pos_bad hp

theorem pos_buildTag {h : H} (hp : Pos h) (ω : Oracle) (n : Nat) (x : Ref) : Pos (buildTag ω h n x).2 := by
  unfold buildTag
  have hn := pos_new1 hp ω (.tag n none)
  cases hnn : new1 ω h (.tag n none) with
  | mk o h1 =>
    rw [hnn] at hn
    cases o with
    | none => exact hn
    | some t => exact pos_tagSet hn t x

theorem pos_decref : ∀ (f : Nat) (h : H) (x : Ref), Pos h → Pos (decref f h x)
  | 0, h, _, hp => pos_bad hp
  | f+1, h, x, hp => by
    unfold decref
    cases hg : h.get x with
    | none => exact pos_bad hp
    | some c =>
      simp only
      split
      · exact pos_bad hp
      · split
        · have h1 : Pos (h.put x none) := pos_put hp x none (fun c hc => by cases hc)
          have : ∀ (xs : List Ref) (h : H), Pos h → Pos (xs.foldl (decref f) h) := by
            intro xs
            induction xs with
            | nil => intro h hh; exact hh
            | cons y ys ih => intro h hh; exact ih _ (pos_decref f h y hh)
          exact this _ _ h1
        · rename_i h0 h1
          exact pos_put hp x _ (fun c' hc' => by cases hc'; simp only; omega)

theorem pos_hdecref {h : H} (hp : Pos h) (x : Ref) : Pos (h.decref x) := pos_decref _ h x hp

theorem pos_arrReplace {h : H} (hp : Pos h) (a : Ref) (i : Nat) (x : Ref) : Pos (arrReplace h a i x).2 := by
  unfold arrReplace
  cases hg : h.get a with
  | none => exact pos_bad hp
  | some c =>
    obtain ⟨n, rc⟩ := c
    have hrc := hp a _ hg
    cases n with
    | arr d items alloc =>
      simp only
      cases hi : items[i]? with
      | none => exact hp
      | some old => exact pos_hdecref (pos_incref (pos_put hp a _ (fun c hc => by cases hc; exact hrc)) x) old
    | _ => exact pos_bad hp

theorem pos_arrSet {h : H} (hp : Pos h) (ω : Oracle) (a : Ref) (i : Nat) (x : Ref) : Pos (arrSet ω h a i x).2 := by
  unfold arrSet
  cases hg : h.get a with
  | none => exact pos_bad hp
  | some c =>
    obtain ⟨n, rc⟩ := c
    cases n with
    | arr d items alloc =>
      simp only
      split
      · exact pos_arrPush hp ω a x
      · split
        · exact pos_arrReplace hp a i x
        · exact hp
    | _ => exact pos_bad hp

theorem incref_ge2 {h : H} (hp : Pos h) (x : Ref) (c : Cell) (hg : (h.incref x).get x = some c) : 2 ≤ c.rc := by
  unfold H.incref at hg
  cases hgx : h.get x with
  | none => simp only [hgx, H.bad] at hg; have : h.get x = some c := hg; rw [hgx] at this; cases this
  | some c0 =>
    simp only [hgx] at hg
    rw [get_put_same _ _ _ (get_lt hgx)] at hg
    cases hg
    have := hp x c0 hgx
    simp only; omega

/-- after a successful push the pushed item is referenced at least twice (by the array and by the caller) -/
theorem arrPush_true_ge2 {h : H} (hp : Pos h) (ω : Oracle) (a x : Ref) (h' : H) (he : arrPush ω h a x = (true, h'))
    (c : Cell) (hg : h'.get x = some c) : 2 ≤ c.rc := by
  unfold arrPush at he
  cases hga : h.get a with
  | none => simp [hga] at he
  | some ca =>
    obtain ⟨n, rc⟩ := ca
    have hrc := hp a _ hga
    cases n with
    | arr d items alloc =>
      have hnew : ∀ al, ∀ c, some (⟨.arr d (items ++ [x]) al, rc⟩ : Cell) = some c → 0 < c.rc := by
        intro al c hc; cases hc; exact hrc
      cases d with
      | true =>
        simp only [hga] at he
        split at he
        · cases he
        · have e : h' = (h.put a (some ⟨.arr true (items ++ [x]) alloc, rc⟩)).incref x := (Prod.mk.inj he).2.symm
          rw [e] at hg
          exact incref_ge2 (pos_put hp a _ (hnew alloc)) x c hg
      | false =>
        simp only [hga] at he
        split at he
        · have hs := pos_grow hp ω 8 alloc
          cases hgr : grow ω h 8 alloc with
          | mk o h1 =>
            rw [hgr] at hs he
            cases o with
            | none => cases he
            | some na =>
              have e : h' = (h1.put a (some ⟨.arr false (items ++ [x]) na, rc⟩)).incref x := (Prod.mk.inj he).2.symm
              rw [e] at hg
              exact incref_ge2 (pos_put hs a _ (hnew na)) x c hg
        · have e : h' = (h.put a (some ⟨.arr false (items ++ [x]) alloc, rc⟩)).incref x := (Prod.mk.inj he).2.symm
          rw [e] at hg
          exact incref_ge2 (pos_put hp a _ (hnew alloc)) x c hg
    | _ => simp [hga] at he

theorem pos_copy_all (ω : Oracle) : ∀ f : Nat,
    (∀ h r, Pos h → Pos (copy ω f h r).2) ∧ (∀ h res xs, Pos h → Pos (copyItems ω f h res xs).2) ∧
    (∀ h res xs, Pos h → Pos (copyChunks ω f h res xs).2) ∧ (∀ h res ps, Pos h → Pos (copyPairs ω f h res ps).2)
  | 0 => ⟨fun h _ hp => by unfold copy; exact pos_bad hp, fun h _ _ hp => by unfold copyItems; exact pos_bad hp,
          fun h _ _ hp => by unfold copyChunks; exact pos_bad hp, fun h _ _ hp => by unfold copyPairs; exact pos_bad hp⟩
  | f+1 => by
    obtain ⟨ic, ii, ich, ip⟩ := pos_copy_all ω f
    refine ⟨?_, ?_, ?_, ?_⟩
    · intro h r hp
      unfold copy
      cases hg : h.get r with
      | none => exact pos_bad hp
      | some c =>
        obtain ⟨n, rc⟩ := c
        cases n with
        | str t b => exact pos_new2 hp ω _
        | strI t chunks cap =>
          simp only
          have hs := pos_new2 hp ω (.strI t [] 0)
          cases hn : new2 ω h (.strI t [] 0) with
          | mk o h1 =>
            rw [hn] at hs
            cases o with
            | none => exact hs
            | some res => exact ich h1 res chunks hs
        | arr d items alloc =>
          cases d with
          | true =>
            simp only [if_true]
            have hs := pos_newMulti hp ω 8 items.length (.arr true [] items.length)
            cases hn : newMulti ω h 8 items.length (.arr true [] items.length) with
            | mk o h1 =>
              rw [hn] at hs
              cases o with
              | none => exact hs
              | some res => exact ii h1 res items hs
          | false =>
            simp only [Bool.false_eq_true, if_false]
            have hs := pos_new1 hp ω (.arr false [] 0)
            cases hn : new1 ω h (.arr false [] 0) with
            | mk o h1 =>
              rw [hn] at hs
              cases o with
              | none => exact hs
              | some res => exact ii h1 res items hs
        | map d pairs alloc =>
          cases d with
          | true =>
            simp only [if_true]
            have hs := pos_newMulti hp ω 16 pairs.length (.map true [] pairs.length)
            cases hn : newMulti ω h 16 pairs.length (.map true [] pairs.length) with
            | mk o h1 =>
              rw [hn] at hs
              cases o with
              | none => exact hs
              | some res => exact ip h1 res pairs hs
          | false =>
            simp only [Bool.false_eq_true, if_false]
            have hs := pos_new1 hp ω (.map false [] 0)
            cases hn : new1 ω h (.map false [] 0) with
            | mk o h1 =>
              rw [hn] at hs
              cases o with
              | none => exact hs
              | some res => exact ip h1 res pairs hs
        | tag k o =>
          cases o with
          | none => exact pos_bad hp
          | some x =>
            simp only
            have hs := ic h x hp
            cases hn : copy ω f h x with
            | mk o1 h1 =>
              rw [hn] at hs
              cases o1 with
              | none => exact hs
              | some xc =>
                simp only
                have hb := pos_buildTag hs ω k xc
                cases hbt : buildTag ω h1 k xc with
                | mk o2 h2 =>
                  rw [hbt] at hb
                  cases o2 with
                  | none => exact pos_hdecref hb xc
                  | some t => exact pos_hdecref hb xc
        | int a b c => exact pos_new1 hp ω _
        | ctrl v => exact pos_new1 hp ω _
        | half v => exact pos_new1 hp ω _
        | single v => exact pos_new1 hp ω _
        | double v => exact pos_new1 hp ω _
    · intro h res xs hp
      unfold copyItems
      cases xs with
      | nil => exact hp
      | cons x xs =>
        simp only
        have hs := ic h x hp
        cases hn : copy ω f h x with
        | mk o h1 =>
          rw [hn] at hs
          cases o with
          | none => exact pos_hdecref hs res
          | some e =>
            simp only
            have hq := pos_arrPush hs ω res e
            cases hpp : arrPush ω h1 res e with
            | mk ok h2 =>
              rw [hpp] at hq
              cases ok with
              | false => exact pos_hdecref (pos_hdecref hq e) res
              | true => exact ii _ res xs (pos_hdecref hq e)
    · intro h res xs hp
      unfold copyChunks
      cases xs with
      | nil => exact hp
      | cons x xs =>
        simp only
        have hs := ic h x hp
        cases hn : copy ω f h x with
        | mk o h1 =>
          rw [hn] at hs
          cases o with
          | none => exact pos_hdecref hs res
          | some e =>
            simp only
            have hq := pos_addChunk hs ω res e
            cases hpp : addChunk ω h1 res e with
            | mk ok h2 =>
              rw [hpp] at hq
              cases ok with
              | false => exact pos_hdecref (pos_hdecref hq e) res
              | true => exact ich _ res xs (pos_hdecref hq e)
    · intro h res ps hp
      unfold copyPairs
      cases ps with
      | nil => exact hp
      | cons kv ps =>
        obtain ⟨k, v⟩ := kv
        simp only
        have hk := ic h k hp
        cases hn : copy ω f h k with
        | mk o h1 =>
          rw [hn] at hk
          cases o with
          | none => exact pos_hdecref hk res
          | some kc =>
            simp only
            have hv := ic h1 v hk
            cases hn2 : copy ω f h1 v with
            | mk o2 h2 =>
              rw [hn2] at hv
              cases o2 with
              | none => exact pos_hdecref (pos_hdecref hv res) kc
              | some vc =>
                simp only
                have hq := pos_mapAdd hv ω res kc vc
                cases hpp : mapAdd ω h2 res kc vc with
                | mk ok h3 =>
                  rw [hpp] at hq
                  cases ok with
                  | false => exact pos_hdecref (pos_hdecref (pos_hdecref hq res) kc) vc
                  | true => exact ip _ res ps (pos_hdecref (pos_hdecref hq kc) vc)

theorem pos_buildChunks (t : Bool) : ∀ (cs : List (List UInt8)) (h : H), Pos h → Pos (buildChunks t cs h).2
  | [], h, hp => by simpa [buildChunks] using hp
  | c :: cs, h, hp => by simp only [buildChunks]; exact pos_buildChunks t cs _ (pos_new hp _)

mutual
theorem pos_build : ∀ (x : Spec.Item) (h : H), Pos h → Pos (build x h).2
  | .uint _ _, h, hp => by simp only [build]; exact pos_new hp _
  | .negint _ _, h, hp => by simp only [build]; exact pos_new hp _
  | .bytes _, h, hp => by simp only [build]; exact pos_new hp _
  | .text _, h, hp => by simp only [build]; exact pos_new hp _
  | .simple _, h, hp => by simp only [build]; exact pos_new hp _
  | .half _, h, hp => by simp only [build]; exact pos_new hp _
  | .single _, h, hp => by simp only [build]; exact pos_new hp _
  | .double _, h, hp => by simp only [build]; exact pos_new hp _
  | .bytesI cs, h, hp => by simp only [build]; exact pos_new (pos_buildChunks false cs h hp) _
  | .textI cs, h, hp => by simp only [build]; exact pos_new (pos_buildChunks true cs h hp) _
  | .array xs, h, hp => by simp only [build]; exact pos_new (pos_buildList xs h hp) _
  | .arrayI xs, h, hp => by simp only [build]; exact pos_new (pos_buildList xs h hp) _
  | .map ps, h, hp => by simp only [build]; exact pos_new (pos_buildPairs ps h hp) _
  | .mapI ps, h, hp => by simp only [build]; exact pos_new (pos_buildPairs ps h hp) _
  | .tag _ x, h, hp => by simp only [build]; exact pos_new (pos_build x h hp) _
theorem pos_buildList : ∀ (xs : List Spec.Item) (h : H), Pos h → Pos (buildList xs h).2
  | [], h, hp => by simpa [buildList] using hp
  | x :: xs, h, hp => by simp only [buildList]; exact pos_buildList xs _ (pos_build x h hp)
theorem pos_buildPairs : ∀ (ps : List (Spec.Item × Spec.Item)) (h : H), Pos h → Pos (buildPairs ps h).2
  | [], h, hp => by simpa [buildPairs] using hp
  | (k, v) :: ps, h, hp => by simp only [buildPairs]; exact pos_buildPairs ps _ (pos_build v _ (pos_build k h hp))
end

theorem pos_load {h : H} (hp : Pos h) (ω : Oracle) (L : Nat) (src : Array UInt8) : Pos (h.load ω L src).2.2 := by
  unfold H.load
  simp only
  cases hi : (Model.load (fun i x => ω (h.reqs + i)) L { code := Model.Code.none, position := 0, read := 0 } src).item with
  | none => exact pos_congr hp rfl
  | some x => exact pos_build x _ (pos_congr hp rfl)

end Heap

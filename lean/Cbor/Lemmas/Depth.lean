import Cbor.Props.HeapLoad
import Cbor.Lemmas.LoadFacts
/-!
# Recursion depth of the operations on a decoded tree (property C19, second half)
-/
namespace Lemmas.Depth
open Spec (Item openDepth depthList depthPairs)
open Heap

mutual
/-- recursion depth of `cbor_decref` / `cbor_serialize` / `cbor_serialized_size` / `cbor_copy` / `cbor_describe` on a tree: 1 for the item itself plus the deepest member -/
def rdepth : Item → Nat
  | .array ts | .arrayI ts => 1 + rdepthL ts
  | .map ps | .mapI ps => 1 + rdepthP ps
  | .tag _ t => 1 + rdepth t
  | .bytesI cs | .textI cs => 1 + (if cs.isEmpty then 0 else 1)
  | _ => 1
def rdepthL : List Item → Nat | [] => 0 | t :: ts => max (rdepth t) (rdepthL ts)
def rdepthP : List (Item × Item) → Nat | [] => 0 | (k, v) :: ps => max (max (rdepth k) (rdepth v)) (rdepthP ps)
end

mutual
theorem rdepth_le_openDepth : ∀ t, rdepth t ≤ openDepth t + 1
  | .uint _ _ | .negint _ _ | .bytes _ | .text _ | .simple _ | .half _ | .single _ | .double _ => by
    simp [rdepth]
  | .bytesI cs | .textI cs => by
    simp only [rdepth, openDepth]; split <;> omega
  | .array [] | .map [] => by simp [rdepth, rdepthL, rdepthP]
  | .array (t :: ts) => by
    have := rdepthL_le_depthList (t :: ts)
    simp only [rdepth, openDepth]; omega
  | .arrayI ts => by
    have := rdepthL_le_depthList ts
    simp only [rdepth, openDepth]; omega
  | .map (p :: ps) => by
    have := rdepthP_le_depthPairs (p :: ps)
    simp only [rdepth, openDepth]; omega
  | .mapI ps => by
    have := rdepthP_le_depthPairs ps
    simp only [rdepth, openDepth]; omega
  | .tag _ t => by
    have := rdepth_le_openDepth t
    simp only [rdepth, openDepth]; omega
theorem rdepthL_le_depthList : ∀ ts, rdepthL ts ≤ depthList ts + 1
  | [] => by simp [rdepthL]
  | t :: ts => by
    have := rdepth_le_openDepth t
    have := rdepthL_le_depthList ts
    simp only [rdepthL, depthList]; omega
theorem rdepthP_le_depthPairs : ∀ ps, rdepthP ps ≤ depthPairs ps + 1
  | [] => by simp [rdepthP]
  | (k, v) :: ps => by
    have := rdepth_le_openDepth k
    have := rdepth_le_openDepth v
    have := rdepthP_le_depthPairs ps
    simp only [rdepthP, depthPairs]; omega
end

/-! ### releasing an owned tree needs fuel (= recursion depth) `rdepth`, not the number of cells -/

theorem decrefs_ownChunks_depth (t : Bool) : ∀ (cs : List (List UInt8)) (f : Nat) (h : H) (rs : List Ref) (lo hi : Nat),
    OwnChunks t cs h rs lo hi → (if cs.isEmpty then 0 else 1) ≤ f → Freed h (rs.foldl (decref f) h) lo hi
  | [], _, h, [], lo, hi, ho, _ => by
    simp only [OwnChunks] at ho; subst ho; exact Freed.empty h lo
  | [], _, _, _ :: _, _, _, ho, _ => by simp [OwnChunks] at ho
  | _ :: _, _, _, [], _, _, ho, _ => by simp [OwnChunks] at ho
  | b :: bs, f, h, c :: cs, lo, hi, ho, hf => by
    simp only [OwnChunks] at ho
    obtain ⟨h1, h2, h3⟩ := ho
    subst h1
    have hle := ownChunks_le t bs cs (lo + 1) hi h3
    simp only [List.isEmpty_cons, Bool.false_eq_true, if_false] at hf
    cases f with
    | zero => omega
    | succ f' =>
      simp only [List.foldl_cons]
      have hd : decref (f' + 1) h lo = h.put lo none := by
        unfold decref; rw [h2]; simp [Node.children]
      rw [hd]
      have hfr : Freed h (h.put lo none) lo (lo + 1) :=
        ⟨rfl, rfl, by simp, fun r hr1 hr2 => by
            have : r = lo := by omega
            subst this; exact get_put_same h r none (get_lt h2),
          fun r hr => get_put_ne h lo r none (by omega)⟩
      have h3' : OwnChunks t bs (h.put lo none) cs (lo + 1) hi :=
        ownChunks_congr t bs cs (lo + 1) hi (fun r hr1 _ => get_put_ne h lo r none (by omega)) h3
      exact hfr.append (decrefs_ownChunks_depth t bs (f' + 1) _ cs (lo + 1) hi h3' (by split <;> omega)) (by omega) hle

mutual
/-- `cbor_decref` on the root of an exclusively owned tree releases it completely as soon as the fuel — the recursion
depth available — reaches `rdepth t` (compare `Heap.decref_own`, which asks for as much fuel as the tree has cells) -/
theorem decref_own_depth : ∀ (t : Item) (f : Nat) (h : H) (y lo hi : Nat), Own t h y lo hi → rdepth t ≤ f → Freed h (decref f h y) lo hi
  | .uint _ _, f, h, y, lo, hi, ho, hf | .negint _ _, f, h, y, lo, hi, ho, hf | .bytes _, f, h, y, lo, hi, ho, hf
  | .text _, f, h, y, lo, hi, ho, hf | .simple _, f, h, y, lo, hi, ho, hf | .half _, f, h, y, lo, hi, ho, hf
  | .single _, f, h, y, lo, hi, ho, hf | .double _, f, h, y, lo, hi, ho, hf => by
    simp only [Own] at ho
    obtain ⟨h1, h2, h3⟩ := ho
    subst h1 h2
    simp only [rdepth] at hf
    cases f with
    | zero => omega
    | succ f' =>
      rw [decref_root h3 f']
      simp only [Node.children, List.foldl_nil]
      exact ⟨rfl, rfl, by simp, fun r hr1 hr2 => by
            have : r = y := by omega
            subst this; exact get_put_same h r none (get_lt h3),
          fun r hr => get_put_ne h y r none (by omega)⟩
  | .bytesI cs, f, h, y, lo, hi, ho, hf | .textI cs, f, h, y, lo, hi, ho, hf => by
    have hb := own_lt _ y lo hi ho
    simp only [Own] at ho
    obtain ⟨rs, cap, lo', hi', hg, ha, hc⟩ := ho
    have hle := ownChunks_le _ cs rs lo' hi' hc
    simp only [rdepth] at hf
    cases f with
    | zero => omega
    | succ f' =>
      rw [decref_root hg f']
      simp only [Node.children]
      have hc' := ownChunks_congr _ cs rs lo' hi' (h' := h.put y none)
        (fun r hr1 hr2 => get_put_ne h y r none (by unfold Around at ha; omega)) hc
      exact freed_node ha hle (get_lt hg) (decrefs_ownChunks_depth _ cs f' _ rs lo' hi' hc' (by omega))
  | .array ts, f, h, y, lo, hi, ho, hf | .arrayI ts, f, h, y, lo, hi, ho, hf => by
    have hb := own_lt _ y lo hi ho
    simp only [Own] at ho
    obtain ⟨xs, al, lo', hi', hg, ha, hc⟩ := ho
    have hle := ownList_le ts xs lo' hi' hc
    simp only [rdepth] at hf
    cases f with
    | zero => omega
    | succ f' =>
      rw [decref_root hg f']
      simp only [Node.children]
      have hc' := ownList_congr ts xs lo' hi' (h' := h.put y none)
        (fun r hr1 hr2 => get_put_ne h y r none (by unfold Around at ha; omega)) hc
      exact freed_node ha hle (get_lt hg) (decrefs_ownList_depth ts f' _ xs lo' hi' hc' (by omega))
  | .map ps, f, h, y, lo, hi, ho, hf | .mapI ps, f, h, y, lo, hi, ho, hf => by
    have hb := own_lt _ y lo hi ho
    simp only [Own] at ho
    obtain ⟨rs, al, lo', hi', hg, ha, hc⟩ := ho
    have hle := ownPairs_le ps rs lo' hi' hc
    simp only [rdepth] at hf
    cases f with
    | zero => omega
    | succ f' =>
      rw [decref_root hg f']
      simp only [Node.children]
      have hc' := ownPairs_congr ps rs lo' hi' (h' := h.put y none)
        (fun r hr1 hr2 => get_put_ne h y r none (by unfold Around at ha; omega)) hc
      exact freed_node ha hle (get_lt hg) (decrefs_ownPairs_depth ps f' _ rs lo' hi' hc' (by omega))
  | .tag n t, f, h, y, lo, hi, ho, hf => by
    have hb := own_lt _ y lo hi ho
    simp only [Own] at ho
    obtain ⟨x, lo', hi', hg, ha, hc⟩ := ho
    have hle := own_lt t x lo' hi' hc
    simp only [rdepth] at hf
    cases f with
    | zero => omega
    | succ f' =>
      rw [decref_root hg f']
      simp only [Node.children, List.foldl_cons, List.foldl_nil]
      have hc' := own_congr t x lo' hi' (h' := h.put y none)
        (fun r hr1 hr2 => get_put_ne h y r none (by unfold Around at ha; omega)) hc
      exact freed_node ha (by omega) (get_lt hg) (decref_own_depth t f' _ x lo' hi' hc' (by omega))
theorem decrefs_ownList_depth : ∀ (ts : List Item) (f : Nat) (h : H) (xs : List Ref) (lo hi : Nat),
    OwnList ts h xs lo hi → rdepthL ts ≤ f → Freed h (xs.foldl (decref f) h) lo hi
  | [], _, h, [], lo, hi, ho, _ => by
    simp only [OwnList] at ho; subst ho; exact Freed.empty h lo
  | [], _, _, _ :: _, _, _, ho, _ => by simp [OwnList] at ho
  | _ :: _, _, _, [], _, _, ho, _ => by simp [OwnList] at ho
  | t :: ts, f, h, x :: xs, lo, hi, ho, hf => by
    simp only [OwnList] at ho
    obtain ⟨mid, h1, h2⟩ := ho
    have b1 := own_lt t x lo mid h1
    have b2 := ownList_le ts xs mid hi h2
    simp only [rdepthL] at hf
    simp only [List.foldl_cons]
    have f1 := decref_own_depth t f h x lo mid h1 (by omega)
    have h2' : OwnList ts (decref f h x) xs mid hi :=
      ownList_congr ts xs mid hi (fun r hr1 _ => f1.2.2.2.2 r (Or.inr hr1)) h2
    exact f1.append (decrefs_ownList_depth ts f _ xs mid hi h2' (by omega)) (by omega) b2
theorem decrefs_ownPairs_depth : ∀ (ps : List (Item × Item)) (f : Nat) (h : H) (rs : List (Ref × Ref)) (lo hi : Nat),
    OwnPairs ps h rs lo hi → rdepthP ps ≤ f → Freed h ((rs.flatMap fun kv => [kv.1, kv.2]).foldl (decref f) h) lo hi
  | [], _, h, [], lo, hi, ho, _ => by
    simp only [OwnPairs] at ho; subst ho; exact Freed.empty h lo
  | [], _, _, _ :: _, _, _, ho, _ => by simp [OwnPairs] at ho
  | _ :: _, _, _, [], _, _, ho, _ => by simp [OwnPairs] at ho
  | (k, v) :: ps, f, h, (a, b) :: rs, lo, hi, ho, hf => by
    simp only [OwnPairs] at ho
    obtain ⟨m1, m2, h1, h2, h3⟩ := ho
    have b1 := own_lt k a lo m1 h1
    have b2 := own_lt v b m1 m2 h2
    have b3 := ownPairs_le ps rs m2 hi h3
    simp only [rdepthP] at hf
    simp only [List.flatMap_cons, List.cons_append, List.nil_append, List.foldl_cons]
    have f1 := decref_own_depth k f h a lo m1 h1 (by omega)
    have h2' : Own v (decref f h a) b m1 m2 :=
      own_congr v b m1 m2 (fun r hr1 _ => f1.2.2.2.2 r (Or.inr hr1)) h2
    have f2 := decref_own_depth v f _ b m1 m2 h2' (by omega)
    have h3' : OwnPairs ps (decref f (decref f h a) b) rs m2 hi :=
      ownPairs_congr ps rs m2 hi (fun r hr1 _ => by
        rw [f2.2.2.2.2 r (Or.inr hr1)]; exact f1.2.2.2.2 r (Or.inr (by omega))) h3
    exact (f1.append f2 (by omega) (by omega)).append (decrefs_ownPairs_depth ps f _ rs m2 hi h3' (by omega)) (by omega) b3
end

/-! ### decoded trees are within the nesting limit -/

theorem depthList_le_of_mem (m : Nat) : ∀ xs : List Item, (∀ x ∈ xs, openDepth x ≤ m) → depthList xs ≤ m
  | [], _ => by simp [depthList]
  | x :: xs, h => by
    have h1 := h x (by simp)
    have h2 := depthList_le_of_mem m xs (fun y hy => h y (by simp [hy]))
    simp only [depthList]; omega

theorem depthPairs_le_of_mem (m : Nat) : ∀ ps : List (Item × Item), (∀ kv ∈ ps, openDepth kv.1 ≤ m ∧ openDepth kv.2 ≤ m) → depthPairs ps ≤ m
  | [], _ => by simp [depthPairs]
  | (k, v) :: ps, h => by
    have h1 : openDepth k ≤ m ∧ openDepth v ≤ m := h (k, v) (by simp)
    have h2 := depthPairs_le_of_mem m ps (fun y hy => h y (by simp [hy]))
    simp only [depthPairs]; omega

theorem openDepth_array_le (xs : List Item) : openDepth (.array xs) ≤ 1 + depthList xs := by
  cases xs <;> simp [openDepth]

theorem openDepth_map_le (ps : List (Item × Item)) : openDepth (.map ps) ≤ 1 + depthPairs ps := by
  cases ps <;> simp [openDepth]

section
variable (lz : Bool) (L : Nat) (okA : Spec.AllocOk) (get : Nat → UInt8) (len : Nat)
open Spec

def ItemD (f : Nat) : Prop :=
  ∀ p d x q, item lz L okA get len f p d = .ok x q → d ≤ L → d + openDepth x ≤ L
def ElemsD (f : Nat) : Prop :=
  ∀ n p d acc xs q, elems lz L okA get len f n p d acc = .ok xs q → d ≤ L →
    (∀ x ∈ acc, d + openDepth x ≤ L) → ∀ x ∈ xs, d + openDepth x ≤ L
def ElemsID (f : Nat) : Prop :=
  ∀ p d acc xs q, elemsI lz L okA get len f p d acc = .ok xs q → d ≤ L →
    (∀ x ∈ acc, d + openDepth x ≤ L) → ∀ x ∈ xs, d + openDepth x ≤ L
def PairsD (f : Nat) : Prop :=
  ∀ n p d acc xs q, pairs lz L okA get len f n p d acc = .ok xs q → d ≤ L →
    (∀ kv ∈ acc, d + openDepth kv.1 ≤ L ∧ d + openDepth kv.2 ≤ L) → ∀ kv ∈ xs, d + openDepth kv.1 ≤ L ∧ d + openDepth kv.2 ≤ L
def PairsID (f : Nat) : Prop :=
  ∀ p d acc xs q, pairsI lz L okA get len f p d acc = .ok xs q → d ≤ L →
    (∀ kv ∈ acc, d + openDepth kv.1 ≤ L ∧ d + openDepth kv.2 ≤ L) → ∀ kv ∈ xs, d + openDepth kv.1 ≤ L ∧ d + openDepth kv.2 ≤ L

theorem item_depth_step (f : Nat) (hI : ItemD lz L okA get len f) (hE : ElemsD lz L okA get len f) (hEI : ElemsID lz L okA get len f)
    (hP : PairsD lz L okA get len f) (hPI : PairsID lz L okA get len f) : ItemD lz L okA get len (f + 1) := by
  intro p d x q h hd
  rw [item] at h
  cases hh : headAt get len p with
  | nedata n => rw [hh] at h; cases h
  | error => rw [hh] at h; cases h
  | ok tok l =>
    rw [hh] at h
    simp only at h
    by_cases hok : okA tok = true
    · simp only [hok, Bool.not_true, Bool.false_eq_true, if_false] at h
      cases tok with
      | uint w v | negint w v | half b | single b | double b | bool b | null | undefined | bytes o n | text o n =>
        cases h; simpa [openDepth] using hd
      | brk => cases h
      | tag n =>
        simp only at h
        split at h
        · cases h
        · rename_i hdl
          cases hr : item lz L okA get len f (p + l) (d + 1) with
          | err e r => rw [hr] at h; cases h
          | ok y r =>
            rw [hr] at h; cases h
            have := hI _ _ _ _ hr (by omega)
            simp only [openDepth]; omega
      | array n =>
        simp only at h
        split at h
        · cases h; simpa [openDepth] using hd
        · split at h
          · cases h
          · rename_i hdl
            cases hr : elems lz L okA get len f n (p + l) (d + 1) [] with
            | err e r => rw [hr] at h; cases h
            | ok ys r =>
              rw [hr] at h; cases h
              have hm := hE _ _ _ _ _ _ hr (by omega) (by simp)
              have := depthList_le_of_mem (L - (d + 1)) ys (fun y hy => by have := hm y hy; omega)
              have := openDepth_array_le ys
              omega
      | arrayStart =>
        simp only at h
        split at h
        · cases h
        · rename_i hdl
          cases hr : elemsI lz L okA get len f (p + l) (d + 1) [] with
          | err e r => rw [hr] at h; cases h
          | ok ys r =>
            rw [hr] at h; cases h
            have hm := hEI _ _ _ _ _ hr (by omega) (by simp)
            have := depthList_le_of_mem (L - (d + 1)) ys (fun y hy => by have := hm y hy; omega)
            simp only [openDepth]; omega
      | map n =>
        simp only at h
        split at h
        · cases h; simpa [openDepth] using hd
        · split at h
          · cases h
          · rename_i hdl
            cases hr : pairs lz L okA get len f n (p + l) (d + 1) [] with
            | err e r => rw [hr] at h; cases h
            | ok ys r =>
              rw [hr] at h; cases h
              have hm := hP _ _ _ _ _ _ hr (by omega) (by simp)
              have := depthPairs_le_of_mem (L - (d + 1)) ys (fun y hy => by have := hm y hy; omega)
              have := openDepth_map_le ys
              omega
      | mapStart =>
        simp only at h
        split at h
        · cases h
        · rename_i hdl
          cases hr : pairsI lz L okA get len f (p + l) (d + 1) [] with
          | err e r => rw [hr] at h; cases h
          | ok ys r =>
            rw [hr] at h; cases h
            have hm := hPI _ _ _ _ _ hr (by omega) (by simp)
            have := depthPairs_le_of_mem (L - (d + 1)) ys (fun y hy => by have := hm y hy; omega)
            simp only [openDepth]; omega
      | bytesStart =>
        simp only at h
        split at h
        · cases h
        · rename_i hdl
          cases hr : chunks lz L okA get len f 2 (p + l) (d + 1) [] with
          | err e r => rw [hr] at h; cases h
          | ok ys r =>
            rw [hr] at h; cases h
            simp only [openDepth]; omega
      | textStart =>
        simp only at h
        split at h
        · cases h
        · rename_i hdl
          cases hr : chunks lz L okA get len f 3 (p + l) (d + 1) [] with
          | err e r => rw [hr] at h; cases h
          | ok ys r =>
            rw [hr] at h; cases h
            simp only [openDepth]; omega
    · simp only [hok, Bool.not_false, if_true] at h
      cases h

theorem elems_depth_step (f : Nat) (hI : ItemD lz L okA get len f) (hE : ElemsD lz L okA get len f) : ElemsD lz L okA get len (f + 1) := by
  intro n p d acc xs q h hd hacc
  cases n with
  | zero =>
    rw [elems] at h; cases h
    intro x hx; exact hacc x (by simpa using hx)
  | succ n =>
    rw [elems] at h
    cases hr : item lz L okA get len f p d with
    | err e r => rw [hr] at h; cases h
    | ok y r =>
      rw [hr] at h
      simp only at h
      refine hE _ _ _ _ _ _ h hd (fun x hx => ?_)
      rcases List.mem_cons.mp hx with rfl | hx
      · exact hI _ _ _ _ hr hd
      · exact hacc x hx

theorem elemsI_depth_step (f : Nat) (hI : ItemD lz L okA get len f) (hE : ElemsID lz L okA get len f) : ElemsID lz L okA get len (f + 1) := by
  intro p d acc xs q h hd hacc
  rw [elemsI] at h
  split at h
  · cases h
    intro x hx; exact hacc x (by simpa using hx)
  · cases hr : item lz L okA get len f p d with
    | err e r => rw [hr] at h; cases h
    | ok y r =>
      rw [hr] at h
      simp only at h
      refine hE _ _ _ _ _ h hd (fun x hx => ?_)
      rcases List.mem_cons.mp hx with rfl | hx
      · exact hI _ _ _ _ hr hd
      · exact hacc x hx

theorem pairs_depth_step (f : Nat) (hI : ItemD lz L okA get len f) (hP : PairsD lz L okA get len f) : PairsD lz L okA get len (f + 1) := by
  intro n p d acc xs q h hd hacc
  cases n with
  | zero =>
    rw [pairs] at h; cases h
    intro x hx; exact hacc x (by simpa using hx)
  | succ n =>
    rw [pairs] at h
    cases hr : item lz L okA get len f p d with
    | err e r => rw [hr] at h; cases h
    | ok k r =>
      rw [hr] at h
      simp only at h
      cases hr2 : item lz L okA get len f r d with
      | err e r' => rw [hr2] at h; cases h
      | ok v r' =>
        rw [hr2] at h
        simp only at h
        refine hP _ _ _ _ _ _ h hd (fun x hx => ?_)
        rcases List.mem_cons.mp hx with rfl | hx
        · exact ⟨hI _ _ _ _ hr hd, hI _ _ _ _ hr2 hd⟩
        · exact hacc x hx

theorem pairsI_depth_step (f : Nat) (hI : ItemD lz L okA get len f) (hP : PairsID lz L okA get len f) : PairsID lz L okA get len (f + 1) := by
  intro p d acc xs q h hd hacc
  rw [pairsI] at h
  split at h
  · cases h
    intro x hx; exact hacc x (by simpa using hx)
  · cases hr : item lz L okA get len f p d with
    | err e r => rw [hr] at h; cases h
    | ok k r =>
      rw [hr] at h
      simp only at h
      cases hr2 : item lz L okA get len f r d with
      | err e r' => rw [hr2] at h; cases h
      | ok v r' =>
        rw [hr2] at h
        simp only at h
        refine hP _ _ _ _ _ h hd (fun x hx => ?_)
        rcases List.mem_cons.mp hx with rfl | hx
        · exact ⟨hI _ _ _ _ hr hd, hI _ _ _ _ hr2 hd⟩
        · exact hacc x hx

theorem all_depth : ∀ f, ItemD lz L okA get len f ∧ ElemsD lz L okA get len f ∧ ElemsID lz L okA get len f ∧
    PairsD lz L okA get len f ∧ PairsID lz L okA get len f
  | 0 => by
    refine ⟨?_, ?_, ?_, ?_, ?_⟩
    · intro p d x q h; rw [item] at h; cases h
    · intro n p d acc xs q h; rw [elems] at h; cases h
    · intro p d acc xs q h; rw [elemsI] at h; cases h
    · intro n p d acc xs q h; rw [pairs] at h; cases h
    · intro p d acc xs q h; rw [pairsI] at h; cases h
  | f + 1 => by
    obtain ⟨hI, hE, hEI, hP, hPI⟩ := all_depth f
    exact ⟨item_depth_step lz L okA get len f hI hE hEI hP hPI, elems_depth_step lz L okA get len f hI hE,
      elemsI_depth_step lz L okA get len f hI hEI, pairs_depth_step lz L okA get len f hI hP,
      pairsI_depth_step lz L okA get len f hI hPI⟩

/-- the reference decoder, reading an item with `d ≤ L` levels already open, only produces trees that fit in the remaining levels -/
theorem item_ok_depth (f p d : Nat) (x : Item) (q : Nat) (h : item lz L okA get len f p d = .ok x q) (hd : d ≤ L) :
    d + openDepth x ≤ L :=
  (all_depth lz L okA get len f).1 p d x q h hd

/-- **Decoded trees are within the limit**: for both reporting orders, every allocation predicate and every `L` (including 0) -/
theorem decode_ok_depth (t : Item) (k : Nat) (h : Spec.decode lz L okA get len = .ok t k) : openDepth t ≤ L := by
  unfold Spec.decode at h
  split at h
  · cases h
  · cases hr : item lz L okA get len (2 * len + 3) 0 0 with
    | err e r => rw [hr] at h; cases h
    | ok y r =>
      rw [hr] at h; cases h
      have := item_ok_depth lz L okA get len _ _ _ _ _ hr (Nat.zero_le _)
      omega

end

open Lemmas.Refine Lemmas.LoadFacts in
/-- the value-level model of `cbor_load` (all allocations granted) only returns trees whose nesting is within `L` -/
theorem load_ok_depth (L : Nat) (r0 : Model.LoadResult) (src : Array UInt8) (hsz : src.size < 2 ^ 56) (t : Item)
    (h : (Model.load ωT L r0 src).item = some t) : openDepth t ≤ L :=
  decode_ok_depth true L okGuard (getOf src) src.size t _ ((load_ok_iff src hsz L r0 t _).mp ⟨h, rfl⟩)


/-- the heap-level allocator oracle that grants every request -/
def ωAll : Heap.Oracle := fun _ => true

open Lemmas.Refine in
/-- bridge: under the all-granting heap oracle the value-level oracle `HB.load` is compared against is `ωT` -/
theorem orc_all (R0 : Nat) : (fun (i : Nat) (_ : Nat) => ωAll (R0 + i)) = ωT := rfl

end Lemmas.Depth

namespace Props.C19
open Heap Lemmas.Depth Lemmas.Refine
open Spec (Item openDepth)

/-- **Every decoded tree has recursion depth at most `L + 1`.**  `Model.serialize` and `Model.size` (and `Spec.encode`) recurse
structurally on the tree — one level per container / tag, chunks of a chunked string one level below it — so `rdepth t` is
their recursion depth, as it is the fuel `cbor_decref` needs (`decref_own_depth`). -/
theorem C19_rdepth_decoded (L : Nat) (r0 : Model.LoadResult) (src : Array UInt8) (hsz : src.size < 2 ^ 56) (t : Item)
    (h : (Model.load ωT L r0 src).item = some t) : openDepth t ≤ L ∧ rdepth t ≤ L + 1 := by
  have := load_ok_depth L r0 src hsz t h
  have := rdepth_le_openDepth t
  exact ⟨by assumption, by omega⟩

/-- a successful heap-level load (every allocation granted) hands out an exclusively owned tree for a value `t` of nesting
at most `L`, hence of recursion depth at most `L + 1` -/
theorem C19_loaded_depth (L : Nat) (h : H) (src : Array UInt8) (hsz : src.size < 2 ^ 56) (y : Ref) (res : Model.LoadResult) (h' : H)
    (hl : HB.load ωAll L h src = (some y, res, h')) :
    ∃ t, (∀ r0, (Model.load ωT L r0 src).item = some t) ∧ Own t h' y h.cells.length h'.cells.length ∧
      openDepth t ≤ L ∧ rdepth t ≤ L + 1 := by
  have r0 : Model.LoadResult := res
  have href := HB.hload_refines' ωAll L h r0 src (by omega)
  simp only [orc_all] at href
  obtain ⟨_, _, _, _, h5⟩ := href
  rw [hl] at h5
  cases hi : (Model.load ωT L r0 src).item with
  | none => rw [hi] at h5; simp at h5
  | some t =>
    rw [hi] at h5
    obtain ⟨y', hy', ho⟩ := h5
    cases hy'
    have hd := C19_rdepth_decoded L r0 src hsz t hi
    refine ⟨t, fun r0' => ?_, ho, hd.1, hd.2⟩
    have : Model.load ωT L r0' src = Model.load ωT L r0 src := rfl
    rw [this]; exact hi

/-- **Releasing any decoded tree recurses at most `L + 1` deep**: `decref` with fuel (= recursion depth) `L + 1` on the result
of a successful load releases exactly the cells the load created and touches nothing else -/
theorem C19_release_depth (L : Nat) (h : H) (src : Array UInt8) (hsz : src.size < 2 ^ 56) (y : Ref) (res : Model.LoadResult) (h' : H)
    (hl : HB.load ωAll L h src = (some y, res, h')) :
    Freed h' (decref (L + 1) h' y) h.cells.length h'.cells.length := by
  obtain ⟨t, _, ho, _, hd⟩ := C19_loaded_depth L h src hsz y res h' hl
  exact decref_own_depth t (L + 1) h' y _ _ ho hd

/-- … and afterwards the heap reads exactly as it did before the load, with no fault raised (no use after release, no fuel
exhaustion: `decref` reports running out of fuel as a fault) -/
theorem C19_release_restores (L : Nat) (h : H) (src : Array UInt8) (hsz : src.size < 2 ^ 56) (y : Ref) (res : Model.LoadResult) (h' : H)
    (hl : HB.load ωAll L h src = (some y, res, h')) :
    (decref (L + 1) h' y).fault = h.fault ∧ ∀ r : Nat, (decref (L + 1) h' y).get r = h.get r := by
  have hf := C19_release_depth L h src hsz y res h' hl
  have href := HB.hload_refines' ωAll L h res src (by omega)
  obtain ⟨_, _, h3, h4, _⟩ := href
  rw [hl] at h3 h4
  simp only at h3 h4
  refine ⟨hf.1.trans h3, fun r => ?_⟩
  by_cases hlt : r < h.cells.length
  · rw [hf.2.2.2.2 r (Or.inl hlt)]; exact h4 r hlt
  · by_cases hlt' : r < h'.cells.length
    · rw [hf.2.2.2.1 r (by omega) hlt', get_none_of_ge h r (by omega)]
    · rw [hf.2.2.2.2 r (Or.inr (by omega)), get_none_of_ge _ r (by omega), get_none_of_ge h r (by omega)]

-- the bound is attained: `[0]` decodes at `L = 1` and has recursion depth 2 (the array, then its member)
example : openDepth (.array [.uint .w8 0]) = 1 ∧ rdepth (.array [.uint .w8 0]) = 2 := by
  simp [openDepth, Spec.depthList, rdepth, rdepthL]

-- … and it is needed: on the heap layout of `[0]`, `decref` with fuel 1 runs out (fault), with fuel 2 it does not
example : (decref 1 ⟨[some ⟨.int false .w8 0, 1⟩, some ⟨.arr true [0] 1, 1⟩], 0, false⟩ 1).fault = true ∧
    (decref 2 ⟨[some ⟨.int false .w8 0, 1⟩, some ⟨.arr true [0] 1, 1⟩], 0, false⟩ 1).fault = false := by decide

end Props.C19

import Cbor.Lemmas.Encoders
/-!
Every public `cbor_encode_*` function of the generated `Gen.Encoding` module, characterised by the bytes it
emits (`encRes`), plus its side conditions.
-/
set_option linter.unusedVariables false
namespace Lemmas
open Gen

theorem o0 : (0 : UInt8) = UInt8.ofNat (0 * 32) := by decide
theorem o1 : (32 : UInt8) = UInt8.ofNat (1 * 32) := by decide
theorem o2 : (64 : UInt8) = UInt8.ofNat (2 * 32) := by decide
theorem o3 : (96 : UInt8) = UInt8.ofNat (3 * 32) := by decide
theorem o4 : (128 : UInt8) = UInt8.ofNat (4 * 32) := by decide
theorem o5 : (160 : UInt8) = UInt8.ofNat (5 * 32) := by decide
theorem o6 : (192 : UInt8) = UInt8.ofNat (6 * 32) := by decide
theorem o7 : (224 : UInt8) = UInt8.ofNat (7 * 32) := by decide

/-- additional information used by the 8-bit encoders: immediate up to 23, one-byte argument above -/
def ai8 (v : Nat) : Nat := if v < 24 then v else 24

variable (buf : Array UInt8) (off : Nat) (n : UInt64)

theorem pub_uint8 (v : UInt8) : cbor_encode_uint8 v buf off n = encRes buf off n (Spec.headBytes 0 (ai8 v.toNat) v.toNat) := by
  simp only [cbor_encode_uint8, ai8]; rw [o0, enc8 _ _ _ _ 0 (by omega)]
theorem pub_uint16 (v : UInt16) : cbor_encode_uint16 v buf off n = encRes buf off n (Spec.headBytes 0 25 v.toNat) := by
  simp only [cbor_encode_uint16]; rw [o0, enc16 _ _ _ _ 0 (by omega)]
theorem pub_uint32 (v : UInt32) : cbor_encode_uint32 v buf off n = encRes buf off n (Spec.headBytes 0 26 v.toNat) := by
  simp only [cbor_encode_uint32]; rw [o0, enc32 _ _ _ _ 0 (by omega)]
theorem pub_uint64 (v : UInt64) : cbor_encode_uint64 v buf off n = encRes buf off n (Spec.headBytes 0 27 v.toNat) := by
  simp only [cbor_encode_uint64]; rw [o0, enc64 _ _ _ _ 0 (by omega)]
theorem pub_uint (v : UInt64) : cbor_encode_uint v buf off n = encRes buf off n (Spec.head 0 v.toNat) := by
  simp only [cbor_encode_uint]; rw [o0, encUint _ _ _ _ 0 (by omega)]
theorem pub_negint8 (v : UInt8) : cbor_encode_negint8 v buf off n = encRes buf off n (Spec.headBytes 1 (ai8 v.toNat) v.toNat) := by
  simp only [cbor_encode_negint8, ai8]; rw [o1, enc8 _ _ _ _ 1 (by omega)]
theorem pub_negint16 (v : UInt16) : cbor_encode_negint16 v buf off n = encRes buf off n (Spec.headBytes 1 25 v.toNat) := by
  simp only [cbor_encode_negint16]; rw [o1, enc16 _ _ _ _ 1 (by omega)]
theorem pub_negint32 (v : UInt32) : cbor_encode_negint32 v buf off n = encRes buf off n (Spec.headBytes 1 26 v.toNat) := by
  simp only [cbor_encode_negint32]; rw [o1, enc32 _ _ _ _ 1 (by omega)]
theorem pub_negint64 (v : UInt64) : cbor_encode_negint64 v buf off n = encRes buf off n (Spec.headBytes 1 27 v.toNat) := by
  simp only [cbor_encode_negint64]; rw [o1, enc64 _ _ _ _ 1 (by omega)]
theorem pub_negint (v : UInt64) : cbor_encode_negint v buf off n = encRes buf off n (Spec.head 1 v.toNat) := by
  simp only [cbor_encode_negint]; rw [o1, encUint _ _ _ _ 1 (by omega)]
theorem pub_bytestring_start (v : UInt64) : cbor_encode_bytestring_start v buf off n = encRes buf off n (Spec.head 2 v.toNat) := by
  simp only [cbor_encode_bytestring_start]; rw [o2, encUint _ _ _ _ 2 (by omega)]
theorem pub_string_start (v : UInt64) : cbor_encode_string_start v buf off n = encRes buf off n (Spec.head 3 v.toNat) := by
  simp only [cbor_encode_string_start]; rw [o3, encUint _ _ _ _ 3 (by omega)]
theorem pub_array_start (v : UInt64) : cbor_encode_array_start v buf off n = encRes buf off n (Spec.head 4 v.toNat) := by
  simp only [cbor_encode_array_start]; rw [o4, encUint _ _ _ _ 4 (by omega)]
theorem pub_map_start (v : UInt64) : cbor_encode_map_start v buf off n = encRes buf off n (Spec.head 5 v.toNat) := by
  simp only [cbor_encode_map_start]; rw [o5, encUint _ _ _ _ 5 (by omega)]
theorem pub_tag (v : UInt64) : cbor_encode_tag v buf off n = encRes buf off n (Spec.head 6 v.toNat) := by
  simp only [cbor_encode_tag]; rw [o6, encUint _ _ _ _ 6 (by omega)]
theorem pub_ctrl (v : UInt8) : cbor_encode_ctrl v buf off n = encRes buf off n (Spec.headBytes 7 (ai8 v.toNat) v.toNat) := by
  simp only [cbor_encode_ctrl, ai8]; rw [o7, enc8 _ _ _ _ 7 (by omega)]
theorem pub_indef_bytestring_start : cbor_encode_indef_bytestring_start buf off n = encRes buf off n [0x5F] := by
  simp only [cbor_encode_indef_bytestring_start, encByte]
theorem pub_indef_string_start : cbor_encode_indef_string_start buf off n = encRes buf off n [0x7F] := by
  simp only [cbor_encode_indef_string_start, encByte]
theorem pub_indef_array_start : cbor_encode_indef_array_start buf off n = encRes buf off n [0x9F] := by
  simp only [cbor_encode_indef_array_start, encByte]
theorem pub_indef_map_start : cbor_encode_indef_map_start buf off n = encRes buf off n [0xBF] := by
  simp only [cbor_encode_indef_map_start, encByte]
theorem pub_break : cbor_encode_break buf off n = encRes buf off n [0xFF] := by
  simp only [cbor_encode_break, encByte]
theorem pub_null : cbor_encode_null buf off n = encRes buf off n [0xF6] := by
  simp only [cbor_encode_null, encByte]
theorem pub_undef : cbor_encode_undef buf off n = encRes buf off n [0xF7] := by
  simp only [cbor_encode_undef, encByte]
theorem pub_bool (b : Bool) : cbor_encode_bool b buf off n = encRes buf off n [if b then 0xF5 else 0xF4] := by
  cases b <;> simp [cbor_encode_bool, encByte]

/-- canonical quiet NaN of the width for any NaN, the pattern itself otherwise -/
def canon32 (b : UInt32) : UInt32 := if C.isNaN32 b then 0x7FC00000 else b
def canon64 (b : UInt64) : UInt64 := if C.isNaN64 b then 0x7FF8000000000000 else b

theorem pub_single (v : UInt32) : cbor_encode_single v buf off n = encRes buf off n (Spec.headBytes 7 26 (canon32 v).toNat) := by
  unfold cbor_encode_single canon32
  simp only []
  repeat' split
  all_goals (rw [o7, enc32 _ _ _ _ 7 (by omega)])
  all_goals (first | rfl | simp_all)
theorem pub_double (v : UInt64) : cbor_encode_double v buf off n = encRes buf off n (Spec.headBytes 7 27 (canon64 v).toNat) := by
  unfold cbor_encode_double canon64
  simp only []
  repeat' split
  all_goals (rw [o7, enc64 _ _ _ _ 7 (by omega)])
  all_goals (first | rfl | simp_all)

/-! side conditions -/
variable (h : off + n.toNat ≤ buf.size)
include h
theorem pub_uint8_ok (v : UInt8) : cbor_encode_uint8.ok v buf off n = true := by simp [cbor_encode_uint8.ok, enc8_ok, h]
theorem pub_uint16_ok (v : UInt16) : cbor_encode_uint16.ok v buf off n = true := by simp [cbor_encode_uint16.ok, enc16_ok, h]
theorem pub_uint32_ok (v : UInt32) : cbor_encode_uint32.ok v buf off n = true := by simp [cbor_encode_uint32.ok, enc32_ok, h]
theorem pub_uint64_ok (v : UInt64) : cbor_encode_uint64.ok v buf off n = true := by simp [cbor_encode_uint64.ok, enc64_ok, h]
theorem pub_uint_ok (v : UInt64) : cbor_encode_uint.ok v buf off n = true := by simp [cbor_encode_uint.ok, encUint_ok, h]
theorem pub_negint8_ok (v : UInt8) : cbor_encode_negint8.ok v buf off n = true := by simp [cbor_encode_negint8.ok, enc8_ok, h]
theorem pub_negint16_ok (v : UInt16) : cbor_encode_negint16.ok v buf off n = true := by simp [cbor_encode_negint16.ok, enc16_ok, h]
theorem pub_negint32_ok (v : UInt32) : cbor_encode_negint32.ok v buf off n = true := by simp [cbor_encode_negint32.ok, enc32_ok, h]
theorem pub_negint64_ok (v : UInt64) : cbor_encode_negint64.ok v buf off n = true := by simp [cbor_encode_negint64.ok, enc64_ok, h]
theorem pub_negint_ok (v : UInt64) : cbor_encode_negint.ok v buf off n = true := by simp [cbor_encode_negint.ok, encUint_ok, h]
theorem pub_bytestring_start_ok (v : UInt64) : cbor_encode_bytestring_start.ok v buf off n = true := by simp [cbor_encode_bytestring_start.ok, encUint_ok, h]
theorem pub_string_start_ok (v : UInt64) : cbor_encode_string_start.ok v buf off n = true := by simp [cbor_encode_string_start.ok, encUint_ok, h]
theorem pub_array_start_ok (v : UInt64) : cbor_encode_array_start.ok v buf off n = true := by simp [cbor_encode_array_start.ok, encUint_ok, h]
theorem pub_map_start_ok (v : UInt64) : cbor_encode_map_start.ok v buf off n = true := by simp [cbor_encode_map_start.ok, encUint_ok, h]
theorem pub_tag_ok (v : UInt64) : cbor_encode_tag.ok v buf off n = true := by simp [cbor_encode_tag.ok, encUint_ok, h]
theorem pub_ctrl_ok (v : UInt8) : cbor_encode_ctrl.ok v buf off n = true := by simp [cbor_encode_ctrl.ok, enc8_ok, h]
theorem pub_indef_bytestring_start_ok : cbor_encode_indef_bytestring_start.ok buf off n = true := by simp [cbor_encode_indef_bytestring_start.ok, encByte_ok, h]
theorem pub_indef_string_start_ok : cbor_encode_indef_string_start.ok buf off n = true := by simp [cbor_encode_indef_string_start.ok, encByte_ok, h]
theorem pub_indef_array_start_ok : cbor_encode_indef_array_start.ok buf off n = true := by simp [cbor_encode_indef_array_start.ok, encByte_ok, h]
theorem pub_indef_map_start_ok : cbor_encode_indef_map_start.ok buf off n = true := by simp [cbor_encode_indef_map_start.ok, encByte_ok, h]
theorem pub_break_ok : cbor_encode_break.ok buf off n = true := by simp [cbor_encode_break.ok, encByte_ok, h]
theorem pub_null_ok : cbor_encode_null.ok buf off n = true := by simp [cbor_encode_null.ok, encByte_ok, h]
theorem pub_undef_ok : cbor_encode_undef.ok buf off n = true := by simp [cbor_encode_undef.ok, encByte_ok, h]
theorem pub_bool_ok (b : Bool) : cbor_encode_bool.ok b buf off n = true := by cases b <;> simp [cbor_encode_bool.ok, encByte_ok, h]
theorem pub_single_ok (v : UInt32) : cbor_encode_single.ok v buf off n = true := by
  unfold cbor_encode_single.ok; simp only []; repeat' split
  all_goals simp [enc32_ok, h]
theorem pub_double_ok (v : UInt64) : cbor_encode_double.ok v buf off n = true := by
  unfold cbor_encode_double.ok; simp only []; repeat' split
  all_goals simp [enc64_ok, h]

end Lemmas

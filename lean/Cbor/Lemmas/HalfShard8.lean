import Cbor.Lemmas.Half
/-! shard 8 of the exhaustive binary16 table check (patterns 8192 .. 9215), kernel-evaluated -/
namespace Lemmas
theorem half_shard_8 : halfShardOk 8 = true := by decide +kernel
end Lemmas

import Cbor.Lemmas.Half
/-! shard 40 of the exhaustive binary16 table check (patterns 40960 .. 41983), kernel-evaluated -/
namespace Lemmas
theorem half_shard_40 : halfShardOk 40 = true := by decide +kernel
end Lemmas

import Cbor.Gen.Encoders
import Cbor.Gen.Encoding
import Cbor.Spec.Encode
import Cbor.Lemmas.Tactics
/-!
The generated low-level encoders, characterised once: each writes exactly the bytes of one RFC 8949 head
at `off` when they fit in the `n` bytes it was given, and otherwise returns 0 leaving the buffer untouched.

The proofs are independent of the spelling of the generated functions (see `Cbor.Lemmas.Tactics`): every `if`
is split, every guard becomes a `Nat` fact, the stores are compared one by one and each stored byte is compared
through `toNat` (so `v >> 8`, `v / 256`, `(uint8_t)(v >> 8)` … all go through).
-/
set_option linter.unusedVariables false
set_option linter.unusedSimpArgs false
namespace Lemmas
open Gen

/-- successive single-byte stores, as the C code performs them -/
def writeList (buf : Array UInt8) (off : Nat) : List UInt8 → Array UInt8
  | [] => buf
  | b :: bs => writeList (buf.setIfInBounds off b) (off + 1) bs

/-- what every low-level encoder does, given the bytes `bs` it is meant to emit -/
def encRes (buf : Array UInt8) (off : Nat) (n : UInt64) (bs : List UInt8) : UInt64 × Array UInt8 :=
  if bs.length ≤ n.toNat then (UInt64.ofNat bs.length, writeList buf off bs) else (0, buf)

theorem writeList_size (buf : Array UInt8) (off : Nat) (bs : List UInt8) : (writeList buf off bs).size = buf.size := by
  induction bs generalizing buf off with
  | nil => rfl
  | cons b bs ih => simp [writeList, ih]

/-! the head bytes of the specification, spelled out per width (facts about `Spec` only) -/
theorem hb_small (mt ai v : Nat) (h : ai < 24) : Spec.headBytes mt ai v = [UInt8.ofNat (mt * 32 + ai)] := by
  simp [Spec.headBytes, h]
theorem hb_24 (mt v : Nat) : Spec.headBytes mt 24 v = [UInt8.ofNat (mt * 32 + 24), UInt8.ofNat (v % 256)] := by
  simp [Spec.headBytes, Spec.beBytes, Spec.argBytes]
theorem hb_25 (mt v : Nat) : Spec.headBytes mt 25 v =
    [UInt8.ofNat (mt * 32 + 25), UInt8.ofNat (v / 256 % 256), UInt8.ofNat (v % 256)] := by
  simp [Spec.headBytes, Spec.beBytes, Spec.argBytes]
theorem hb_26 (mt v : Nat) : Spec.headBytes mt 26 v =
    [UInt8.ofNat (mt * 32 + 26), UInt8.ofNat (v / 256 ^ 3 % 256), UInt8.ofNat (v / 256 ^ 2 % 256),
     UInt8.ofNat (v / 256 % 256), UInt8.ofNat (v % 256)] := by
  simp [Spec.headBytes, Spec.beBytes, Spec.argBytes]
theorem hb_27 (mt v : Nat) : Spec.headBytes mt 27 v =
    [UInt8.ofNat (mt * 32 + 27), UInt8.ofNat (v / 256 ^ 7 % 256), UInt8.ofNat (v / 256 ^ 6 % 256),
     UInt8.ofNat (v / 256 ^ 5 % 256), UInt8.ofNat (v / 256 ^ 4 % 256), UInt8.ofNat (v / 256 ^ 3 % 256),
     UInt8.ofNat (v / 256 ^ 2 % 256), UInt8.ofNat (v / 256 % 256), UInt8.ofNat (v % 256)] := by
  simp [Spec.headBytes, Spec.beBytes, Spec.argBytes]

/-- equality of two bytes, through `toNat` -/
local macro "u8eq" : tactic => `(tactic| (apply UInt8.toNat_inj.mp; (simp [C.toU8, UInt8.toNat_add, UInt8.toNat_mul,
  Nat.shiftRight_eq_div_pow, Nat.shiftLeft_eq, UInt16.toNat_div, UInt32.toNat_div, UInt64.toNat_div,
  UInt16.toNat_and, UInt32.toNat_and, UInt64.toNat_and] <;> bits_to_arith <;> omega)))

/-- the uniform end of every encoder lemma: all `if`s split, guards compared as naturals, stores compared one by one -/
local macro "enc_fin" : tactic => `(tactic| (
  simp only [writeList, List.length_cons, List.length_nil]
  repeat' split
  all_goals cnorm
  all_goals (try omega)
  all_goals stores_eq
  all_goals (first | omega | (apply UInt64.toNat_inj.mp; simp; done) | u8eq)))

theorem enc8 (v : UInt8) (buf : Array UInt8) (off : Nat) (n : UInt64) (mt : Nat) (hmt : mt < 8) :
    _cbor_encode_uint8 v buf off n (UInt8.ofNat (mt * 32)) =
      encRes buf off n (Spec.headBytes mt (if v.toNat < 24 then v.toNat else 24) v.toNat) := by
  have hv := v.toNat_lt
  by_cases hs : v.toNat < 24
  · rw [if_pos hs, hb_small _ _ _ hs]
    unfold _cbor_encode_uint8 encRes
    enc_fin
  · rw [if_neg hs, hb_24]
    unfold _cbor_encode_uint8 encRes
    enc_fin

theorem enc16 (v : UInt16) (buf : Array UInt8) (off : Nat) (n : UInt64) (mt : Nat) (hmt : mt < 8) :
    _cbor_encode_uint16 v buf off n (UInt8.ofNat (mt * 32)) = encRes buf off n (Spec.headBytes mt 25 v.toNat) := by
  have hv := v.toNat_lt
  rw [hb_25]
  unfold _cbor_encode_uint16 encRes
  enc_fin

theorem enc32 (v : UInt32) (buf : Array UInt8) (off : Nat) (n : UInt64) (mt : Nat) (hmt : mt < 8) :
    _cbor_encode_uint32 v buf off n (UInt8.ofNat (mt * 32)) = encRes buf off n (Spec.headBytes mt 26 v.toNat) := by
  have hv := v.toNat_lt
  rw [hb_26]
  unfold _cbor_encode_uint32 encRes
  enc_fin

theorem enc64 (v : UInt64) (buf : Array UInt8) (off : Nat) (n : UInt64) (mt : Nat) (hmt : mt < 8) :
    _cbor_encode_uint64 v buf off n (UInt8.ofNat (mt * 32)) = encRes buf off n (Spec.headBytes mt 27 v.toNat) := by
  have hv := v.toNat_lt
  rw [hb_27]
  unfold _cbor_encode_uint64 encRes
  enc_fin

/-! the shortest head of the specification, per range of the value (facts about `Spec` only) -/
theorem head_le_255 (mt v : Nat) (h : v ≤ 255) : Spec.head mt v = Spec.headBytes mt (if v < 24 then v else 24) v := by
  unfold Spec.head Spec.shortestAi
  repeat' split
  all_goals (first | rfl | omega)
theorem head_le_65535 (mt v : Nat) (h1 : 255 < v) (h2 : v ≤ 65535) : Spec.head mt v = Spec.headBytes mt 25 v := by
  unfold Spec.head Spec.shortestAi
  repeat' split
  all_goals (first | rfl | omega)
theorem head_le_4294967295 (mt v : Nat) (h1 : 65535 < v) (h2 : v ≤ 4294967295) : Spec.head mt v = Spec.headBytes mt 26 v := by
  unfold Spec.head Spec.shortestAi
  repeat' split
  all_goals (first | rfl | omega)
theorem head_gt_4294967295 (mt v : Nat) (h1 : 4294967295 < v) : Spec.head mt v = Spec.headBytes mt 27 v := by
  unfold Spec.head Spec.shortestAi
  repeat' split
  all_goals (first | rfl | omega)

/-- the width-agnostic encoder emits the shortest head -/
theorem encUint (v : UInt64) (buf : Array UInt8) (off : Nat) (n : UInt64) (mt : Nat) (hmt : mt < 8) :
    _cbor_encode_uint v buf off n (UInt8.ofNat (mt * 32)) = encRes buf off n (Spec.head mt v.toNat) := by
  have hv := v.toNat_lt
  have c8 : v.toNat ≤ 255 → v.toUInt8.toNat = v.toNat := by intro h; simp; omega
  have c16 : v.toNat ≤ 65535 → v.toUInt16.toNat = v.toNat := by intro h; simp; omega
  have c32 : v.toNat ≤ 4294967295 → v.toUInt32.toNat = v.toNat := by intro h; simp; omega
  unfold _cbor_encode_uint
  simp only [Prod.eta]
  repeat' split
  all_goals cnorm
  all_goals (first
    | (rw [enc8 _ _ _ _ _ hmt, c8 (by omega), head_le_255 _ _ (by omega)]; done)
    | (rw [enc16 _ _ _ _ _ hmt, c16 (by omega), head_le_65535 _ _ (by omega) (by omega)]; done)
    | (rw [enc32 _ _ _ _ _ hmt, c32 (by omega), head_le_4294967295 _ _ (by omega) (by omega)]; done)
    | (rw [enc64 _ _ _ _ _ hmt, head_gt_4294967295 _ _ (by omega)]; done)
    | omega)

end Lemmas

namespace Lemmas
open Gen

theorem encByte (v : UInt8) (buf : Array UInt8) (off : Nat) (n : UInt64) :
    _cbor_encode_byte v buf off n = encRes buf off n [v] := by
  unfold _cbor_encode_byte encRes
  simp only [writeList, List.length_cons, List.length_nil]
  repeat' split
  all_goals cnorm
  all_goals (try omega)
  all_goals stores_eq
  all_goals (first | omega | (apply UInt64.toNat_inj.mp; simp; done))

/-! ### side conditions (`.ok`): no store outside the buffer, no undefined arithmetic -/

/-- every `.ok` lemma of a leaf encoder: split, normalise, the remaining obligations are linear facts -/
local macro "ok_fin" : tactic => `(tactic| (
  repeat' split
  all_goals cnorm
  all_goals (try omega)
  all_goals (simp [C.fitsS] <;> omega)))

theorem enc8_ok (v : UInt8) (buf : Array UInt8) (off : Nat) (n : UInt64) (o : UInt8) (h : off + n.toNat ≤ buf.size) :
    _cbor_encode_uint8.ok v buf off n o = true := by
  have hv := v.toNat_lt; have ho := o.toNat_lt
  unfold _cbor_encode_uint8.ok
  ok_fin

theorem enc16_ok (v : UInt16) (buf : Array UInt8) (off : Nat) (n : UInt64) (o : UInt8) (h : off + n.toNat ≤ buf.size) :
    _cbor_encode_uint16.ok v buf off n o = true := by
  have hv := v.toNat_lt; have ho := o.toNat_lt
  unfold _cbor_encode_uint16.ok
  ok_fin

theorem enc32_ok (v : UInt32) (buf : Array UInt8) (off : Nat) (n : UInt64) (o : UInt8) (h : off + n.toNat ≤ buf.size) :
    _cbor_encode_uint32.ok v buf off n o = true := by
  have hv := v.toNat_lt; have ho := o.toNat_lt
  unfold _cbor_encode_uint32.ok
  ok_fin

theorem enc64_ok (v : UInt64) (buf : Array UInt8) (off : Nat) (n : UInt64) (o : UInt8) (h : off + n.toNat ≤ buf.size) :
    _cbor_encode_uint64.ok v buf off n o = true := by
  have hv := v.toNat_lt; have ho := o.toNat_lt
  unfold _cbor_encode_uint64.ok
  ok_fin

theorem encUint_ok (v : UInt64) (buf : Array UInt8) (off : Nat) (n : UInt64) (o : UInt8) (h : off + n.toNat ≤ buf.size) :
    _cbor_encode_uint.ok v buf off n o = true := by
  unfold _cbor_encode_uint.ok
  repeat' split
  all_goals simp [enc8_ok, enc16_ok, enc32_ok, enc64_ok, h]

theorem encByte_ok (v : UInt8) (buf : Array UInt8) (off : Nat) (n : UInt64) (h : off + n.toNat ≤ buf.size) :
    _cbor_encode_byte.ok v buf off n = true := by
  unfold _cbor_encode_byte.ok
  ok_fin

/-! ### frame: what an encoder call can have changed -/

theorem writeList_getElem?_of_lt (buf : Array UInt8) (off : Nat) (bs : List UInt8) (i : Nat) (h : i < off) :
    (writeList buf off bs)[i]? = buf[i]? := by
  induction bs generalizing buf off with
  | nil => rfl
  | cons b bs ih =>
    simp only [writeList]
    rw [ih _ _ (by omega), Array.getElem?_setIfInBounds]
    have : off ≠ i := by omega
    simp [this]

theorem writeList_getElem?_of_ge (buf : Array UInt8) (off : Nat) (bs : List UInt8) (i : Nat) (h : off + bs.length ≤ i) :
    (writeList buf off bs)[i]? = buf[i]? := by
  induction bs generalizing buf off with
  | nil => rfl
  | cons b bs ih =>
    simp only [writeList]
    simp only [List.length_cons] at h
    rw [ih _ _ (by omega), Array.getElem?_setIfInBounds]
    have : off ≠ i := by omega
    simp [this]

theorem writeList_getElem? (buf : Array UInt8) (off : Nat) (bs : List UInt8) (i : Nat)
    (hi : i < bs.length) (hb : off + bs.length ≤ buf.size) :
    (writeList buf off bs)[off + i]? = bs[i]? := by
  induction bs generalizing buf off i with
  | nil => simp at hi
  | cons b bs ih =>
    simp only [writeList]
    simp only [List.length_cons] at hi hb
    cases i with
    | zero =>
      rw [Nat.add_zero, writeList_getElem?_of_lt _ _ _ _ (by omega), Array.getElem?_setIfInBounds]
      simp; omega
    | succ j =>
      have := ih (buf.setIfInBounds off b) (off + 1) j (by omega) (by simp; omega)
      rw [show off + (j + 1) = off + 1 + j by omega, this]
      simp

/-- **C07, low-level clause**: an encoder either reports 0 and leaves the buffer untouched, or reports the
number of bytes it wrote, all of them inside `[off, off + n)`; the buffer keeps its size and every byte
outside the written range keeps its value. -/
theorem encRes_frame (buf : Array UInt8) (off : Nat) (n : UInt64) (bs : List UInt8) (hne : bs ≠ []) (hl : bs.length < 2 ^ 64) :
    let r := encRes buf off n bs
    (r.1 = 0 → r.2 = buf) ∧
    (r.1 ≠ 0 → r.1.toNat = bs.length ∧ bs.length ≤ n.toNat ∧ r.2.size = buf.size ∧
      ∀ i, (i < off ∨ off + r.1.toNat ≤ i) → r.2[i]? = buf[i]?) := by
  intro r
  by_cases h : bs.length ≤ n.toNat
  · have hr : r = (UInt64.ofNat bs.length, writeList buf off bs) := by simp [r, encRes, h]
    have hlen : (UInt64.ofNat bs.length).toNat = bs.length := by simp [UInt64.toNat_ofNat']; omega
    have hpos : 0 < bs.length := by cases bs with | nil => contradiction | cons _ _ => simp
    rw [hr]
    refine ⟨?_, ?_⟩
    · intro h0
      have : (UInt64.ofNat bs.length).toNat = 0 := by simp only at h0; rw [h0]; rfl
      omega
    · intro _
      refine ⟨hlen, h, writeList_size _ _ _, ?_⟩
      intro i hi
      rcases hi with hi | hi
      · exact writeList_getElem?_of_lt _ _ _ _ hi
      · exact writeList_getElem?_of_ge _ _ _ _ (by rw [hlen] at hi; exact hi)
  · have hr : r = (0, buf) := by simp [r, encRes, h]
    rw [hr]
    exact ⟨fun _ => rfl, fun h0 => absurd rfl h0⟩

end Lemmas

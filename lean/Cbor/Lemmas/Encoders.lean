import Cbor.Gen.Encoders
import Cbor.Gen.Encoding
import Cbor.Spec.Encode
/-!
The generated low-level encoders, characterised once: each writes exactly the bytes of one RFC 8949 head
at `off` when they fit in the `n` bytes it was given, and otherwise returns 0 leaving the buffer untouched.
-/
set_option linter.unusedVariables false
set_option linter.unusedSimpArgs false
namespace Lemmas
open Gen

/-- successive single-byte stores, as the C code performs them -/
def writeList (buf : Array UInt8) (off : Nat) : List UInt8 → Array UInt8
  | [] => buf
  | b :: bs => writeList (buf.setIfInBounds off b) (off + 1) bs

/-- what every low-level encoder does, given the bytes `bs` it is meant to emit -/
def encRes (buf : Array UInt8) (off : Nat) (n : UInt64) (bs : List UInt8) : UInt64 × Array UInt8 :=
  if bs.length ≤ n.toNat then (UInt64.ofNat bs.length, writeList buf off bs) else (0, buf)

local macro "u8eq" : tactic => `(tactic| (apply UInt8.toNat_inj.mp; (simp [C.toU8, UInt8.toNat_add, UInt8.toNat_mul, Nat.shiftRight_eq_div_pow] <;> omega)))

theorem writeList_size (buf : Array UInt8) (off : Nat) (bs : List UInt8) : (writeList buf off bs).size = buf.size := by
  induction bs generalizing buf off with
  | nil => rfl
  | cons b bs ih => simp [writeList, ih]

theorem enc8 (v : UInt8) (buf : Array UInt8) (off : Nat) (n : UInt64) (mt : Nat) (hmt : mt < 8) :
    _cbor_encode_uint8 v buf off n (UInt8.ofNat (mt * 32)) =
      encRes buf off n (Spec.headBytes mt (if v.toNat < 24 then v.toNat else 24) v.toNat) := by
  have hv := v.toNat_lt
  have hb0 : C.toU8 ((24 : Int) + ((UInt8.ofNat (mt * 32)).toNat : Int)) = UInt8.ofNat (mt * 32 + 24) := by u8eq
  have hbi : v.toNat < 24 → C.toU8 ((v.toNat : Int) + ((UInt8.ofNat (mt * 32)).toNat : Int)) = UInt8.ofNat (mt * 32 + v.toNat) := by
    intro _; u8eq
  have hb1 : v = UInt8.ofNat (v.toNat / 256 ^ 0 % 256) := by u8eq
  unfold _cbor_encode_uint8 encRes
  by_cases hs : v.toNat < 24
  · have hle : ((v.toNat : Int) ≤ 23) := by omega
    simp only [hle, decide_true, if_true, hs, hbi hs]
    by_cases h : n ≥ 1
    · have h' := UInt64.le_iff_toNat_le.mp h
      simp at h'
      simp [h, Spec.headBytes, hs, writeList, h']
    · have h' : ¬ (1 : UInt64).toNat ≤ n.toNat := fun hh => h (UInt64.le_iff_toNat_le.mpr hh)
      simp at h'
      simp [h, Spec.headBytes, hs, h']
  · have hle : ¬ ((v.toNat : Int) ≤ 23) := by omega
    simp only [hle, decide_false, if_false, hs, hb0]
    by_cases h : n ≥ 2
    · have h' := UInt64.le_iff_toNat_le.mp h
      simp at h'
      simp [h, Spec.headBytes, Spec.beBytes, Spec.argBytes, writeList, h']
    · have h' : ¬ (2 : UInt64).toNat ≤ n.toNat := fun hh => h (UInt64.le_iff_toNat_le.mpr hh)
      simp at h'
      simp [h, Spec.headBytes, Spec.beBytes, Spec.argBytes]
      omega

theorem enc16 (v : UInt16) (buf : Array UInt8) (off : Nat) (n : UInt64) (mt : Nat) (hmt : mt < 8) :
    _cbor_encode_uint16 v buf off n (UInt8.ofNat (mt * 32)) = encRes buf off n (Spec.headBytes mt 25 v.toNat) := by
  have hv := v.toNat_lt
  have hb0 : C.toU8 ((25 : Int) + ((UInt8.ofNat (mt * 32)).toNat : Int)) = UInt8.ofNat (mt * 32 + 25) := by u8eq
  have hb1 : C.toU8 ((v.toNat : Int) / 2 ^ 8) = UInt8.ofNat (v.toNat / 256 ^ 1 % 256) := by u8eq
  have hb2 : v.toUInt8 = UInt8.ofNat (v.toNat / 256 ^ 0 % 256) := by u8eq
  unfold _cbor_encode_uint16 encRes
  simp only [hb0, hb1, hb2]
  by_cases h : n ≤ 2
  · have h' := UInt64.le_iff_toNat_le.mp h
    simp at h'
    simp [h, Spec.headBytes, Spec.beBytes, Spec.argBytes]
    omega
  · have h' : ¬ n.toNat ≤ 2 := fun hh => h (UInt64.le_iff_toNat_le.mpr hh)
    simp at h'
    simp [h, Spec.headBytes, Spec.beBytes, Spec.argBytes, writeList, h']
    omega

theorem enc32 (v : UInt32) (buf : Array UInt8) (off : Nat) (n : UInt64) (mt : Nat) (hmt : mt < 8) :
    _cbor_encode_uint32 v buf off n (UInt8.ofNat (mt * 32)) = encRes buf off n (Spec.headBytes mt 26 v.toNat) := by
  have hv := v.toNat_lt
  have hb0 : C.toU8 ((26 : Int) + ((UInt8.ofNat (mt * 32)).toNat : Int)) = UInt8.ofNat (mt * 32 + 26) := by u8eq
  have hb1 : (v >>> (24 : UInt32)).toUInt8 = UInt8.ofNat (v.toNat / 256 ^ 3 % 256) := by u8eq
  have hb2 : (v >>> (16 : UInt32)).toUInt8 = UInt8.ofNat (v.toNat / 256 ^ 2 % 256) := by u8eq
  have hb3 : (v >>> (8 : UInt32)).toUInt8 = UInt8.ofNat (v.toNat / 256 ^ 1 % 256) := by u8eq
  have hb4 : v.toUInt8 = UInt8.ofNat (v.toNat / 256 ^ 0 % 256) := by u8eq
  unfold _cbor_encode_uint32 encRes
  simp only [hb0, hb1, hb2, hb3, hb4]
  by_cases h : n ≤ 4
  · have h' := UInt64.le_iff_toNat_le.mp h
    simp at h'
    simp [h, Spec.headBytes, Spec.beBytes, Spec.argBytes]
    omega
  · have h' : ¬ n.toNat ≤ 4 := fun hh => h (UInt64.le_iff_toNat_le.mpr hh)
    simp at h'
    simp [h, Spec.headBytes, Spec.beBytes, Spec.argBytes, writeList, h']
    omega

theorem enc64 (v : UInt64) (buf : Array UInt8) (off : Nat) (n : UInt64) (mt : Nat) (hmt : mt < 8) :
    _cbor_encode_uint64 v buf off n (UInt8.ofNat (mt * 32)) = encRes buf off n (Spec.headBytes mt 27 v.toNat) := by
  have hv := v.toNat_lt
  have hb0 : C.toU8 ((27 : Int) + ((UInt8.ofNat (mt * 32)).toNat : Int)) = UInt8.ofNat (mt * 32 + 27) := by u8eq
  have hb1 : (v >>> (56 : UInt64)).toUInt8 = UInt8.ofNat (v.toNat / 256 ^ 7 % 256) := by u8eq
  have hb2 : (v >>> (48 : UInt64)).toUInt8 = UInt8.ofNat (v.toNat / 256 ^ 6 % 256) := by u8eq
  have hb3 : (v >>> (40 : UInt64)).toUInt8 = UInt8.ofNat (v.toNat / 256 ^ 5 % 256) := by u8eq
  have hb4 : (v >>> (32 : UInt64)).toUInt8 = UInt8.ofNat (v.toNat / 256 ^ 4 % 256) := by u8eq
  have hb5 : (v >>> (24 : UInt64)).toUInt8 = UInt8.ofNat (v.toNat / 256 ^ 3 % 256) := by u8eq
  have hb6 : (v >>> (16 : UInt64)).toUInt8 = UInt8.ofNat (v.toNat / 256 ^ 2 % 256) := by u8eq
  have hb7 : (v >>> (8 : UInt64)).toUInt8 = UInt8.ofNat (v.toNat / 256 ^ 1 % 256) := by u8eq
  have hb8 : v.toUInt8 = UInt8.ofNat (v.toNat / 256 ^ 0 % 256) := by u8eq
  unfold _cbor_encode_uint64 encRes
  simp only [hb0, hb1, hb2, hb3, hb4, hb5, hb6, hb7, hb8]
  by_cases h : n ≥ 9
  · have h' := UInt64.le_iff_toNat_le.mp h
    simp at h'
    simp [h, Spec.headBytes, Spec.beBytes, Spec.argBytes, writeList, h']
  · have h' : ¬ (9 : UInt64).toNat ≤ n.toNat := fun hh => h (UInt64.le_iff_toNat_le.mpr hh)
    simp at h'
    simp [h, Spec.headBytes, Spec.beBytes, Spec.argBytes]
    omega

/-- the width-agnostic encoder emits the shortest head -/
theorem encUint (v : UInt64) (buf : Array UInt8) (off : Nat) (n : UInt64) (mt : Nat) (hmt : mt < 8) :
    _cbor_encode_uint v buf off n (UInt8.ofNat (mt * 32)) = encRes buf off n (Spec.head mt v.toNat) := by
  unfold _cbor_encode_uint Spec.head Spec.shortestAi
  have hv := v.toNat_lt
  by_cases h1 : v ≤ 65535
  · have h1' := UInt64.le_iff_toNat_le.mp h1
    simp at h1'
    by_cases h2 : v ≤ 255
    · have h2' := UInt64.le_iff_toNat_le.mp h2
      simp at h2'
      have hc : v.toUInt8.toNat = v.toNat := by simp; omega
      simp only [h1, h2, decide_true, if_true]
      rw [enc8 _ _ _ _ _ hmt, hc]
      by_cases h3 : v.toNat < 24
      · simp [h3]
      · have : v.toNat < 256 := by omega
        simp [h3, this]
    · have h2' : ¬ v.toNat ≤ (255 : UInt64).toNat := fun hh => h2 (UInt64.le_iff_toNat_le.mpr hh)
      simp at h2'
      have hc : v.toUInt16.toNat = v.toNat := by simp; omega
      simp only [h1, h2, decide_true, decide_false, if_true, if_false]
      rw [enc16 _ _ _ _ _ hmt, hc]
      have a : ¬ v.toNat < 24 := by omega
      have b : ¬ v.toNat < 256 := by omega
      have c : v.toNat < 65536 := by omega
      simp [a, b, c]
  · have h1' : ¬ v.toNat ≤ (65535 : UInt64).toNat := fun hh => h1 (UInt64.le_iff_toNat_le.mpr hh)
    simp at h1'
    by_cases h2 : v ≤ 4294967295
    · have h2' := UInt64.le_iff_toNat_le.mp h2
      simp at h2'
      have hc : v.toUInt32.toNat = v.toNat := by simp; omega
      simp only [h1, h2, decide_true, decide_false, if_true, if_false]
      rw [enc32 _ _ _ _ _ hmt, hc]
      have a : ¬ v.toNat < 24 := by omega
      have b : ¬ v.toNat < 256 := by omega
      have c : ¬ v.toNat < 65536 := by omega
      have d : v.toNat < 4294967296 := by omega
      simp [a, b, c, d]
    · have h2' : ¬ v.toNat ≤ (4294967295 : UInt64).toNat := fun hh => h2 (UInt64.le_iff_toNat_le.mpr hh)
      simp at h2'
      simp only [h1, h2, decide_false, if_false]
      rw [enc64 _ _ _ _ _ hmt]
      have a : ¬ v.toNat < 24 := by omega
      have b : ¬ v.toNat < 256 := by omega
      have c : ¬ v.toNat < 65536 := by omega
      have d : ¬ v.toNat < 4294967296 := by omega
      simp [a, b, c, d]

end Lemmas

namespace Lemmas
open Gen

theorem encByte (v : UInt8) (buf : Array UInt8) (off : Nat) (n : UInt64) :
    _cbor_encode_byte v buf off n = encRes buf off n [v] := by
  unfold _cbor_encode_byte encRes
  by_cases h : n ≥ 1
  · have h' := UInt64.le_iff_toNat_le.mp h
    simp at h'
    simp [h, writeList, h']
  · have h' : ¬ (1 : UInt64).toNat ≤ n.toNat := fun hh => h (UInt64.le_iff_toNat_le.mpr hh)
    simp at h'
    simp [h, h']

/-! ### side conditions (`.ok`): no store outside the buffer, no undefined arithmetic -/

theorem enc8_ok (v : UInt8) (buf : Array UInt8) (off : Nat) (n : UInt64) (o : UInt8) (h : off + n.toNat ≤ buf.size) :
    _cbor_encode_uint8.ok v buf off n o = true := by
  have hv := v.toNat_lt; have ho := o.toNat_lt
  unfold _cbor_encode_uint8.ok
  repeat' split
  all_goals (rename_i hs; try (have hs' := UInt64.le_iff_toNat_le.mp (of_decide_eq_true hs); simp at hs'))
  all_goals (simp [C.fitsS] <;> omega)

theorem enc16_ok (v : UInt16) (buf : Array UInt8) (off : Nat) (n : UInt64) (o : UInt8) (h : off + n.toNat ≤ buf.size) :
    _cbor_encode_uint16.ok v buf off n o = true := by
  have ho := o.toNat_lt
  unfold _cbor_encode_uint16.ok
  split
  · rfl
  · rename_i hs
    have hs' : ¬ n.toNat ≤ 2 := fun hh => hs (by simpa using UInt64.le_iff_toNat_le.mpr (by simpa using hh))
    simp [C.fitsS]; omega

theorem enc32_ok (v : UInt32) (buf : Array UInt8) (off : Nat) (n : UInt64) (o : UInt8) (h : off + n.toNat ≤ buf.size) :
    _cbor_encode_uint32.ok v buf off n o = true := by
  have ho := o.toNat_lt
  unfold _cbor_encode_uint32.ok
  split
  · rfl
  · rename_i hs
    have hs' : ¬ n.toNat ≤ 4 := fun hh => hs (by simpa using UInt64.le_iff_toNat_le.mpr (by simpa using hh))
    simp [C.fitsS]; omega

theorem enc64_ok (v : UInt64) (buf : Array UInt8) (off : Nat) (n : UInt64) (o : UInt8) (h : off + n.toNat ≤ buf.size) :
    _cbor_encode_uint64.ok v buf off n o = true := by
  have ho := o.toNat_lt
  unfold _cbor_encode_uint64.ok
  split
  · rename_i hs
    have hs' := UInt64.le_iff_toNat_le.mp (of_decide_eq_true hs); simp at hs'
    simp [C.fitsS]; omega
  · rfl

theorem encUint_ok (v : UInt64) (buf : Array UInt8) (off : Nat) (n : UInt64) (o : UInt8) (h : off + n.toNat ≤ buf.size) :
    _cbor_encode_uint.ok v buf off n o = true := by
  unfold _cbor_encode_uint.ok
  repeat' split
  all_goals simp [enc8_ok, enc16_ok, enc32_ok, enc64_ok, h]

theorem encByte_ok (v : UInt8) (buf : Array UInt8) (off : Nat) (n : UInt64) (h : off + n.toNat ≤ buf.size) :
    _cbor_encode_byte.ok v buf off n = true := by
  unfold _cbor_encode_byte.ok
  split
  · rename_i hs
    have hs' := UInt64.le_iff_toNat_le.mp (of_decide_eq_true hs); simp at hs'
    simp; omega
  · rfl

/-! ### frame: what an encoder call can have changed -/

theorem writeList_getElem?_of_lt (buf : Array UInt8) (off : Nat) (bs : List UInt8) (i : Nat) (h : i < off) :
    (writeList buf off bs)[i]? = buf[i]? := by
  induction bs generalizing buf off with
  | nil => rfl
  | cons b bs ih =>
    simp only [writeList]
    rw [ih _ _ (by omega), Array.getElem?_setIfInBounds]
    have : off ≠ i := by omega
    simp [this]

theorem writeList_getElem?_of_ge (buf : Array UInt8) (off : Nat) (bs : List UInt8) (i : Nat) (h : off + bs.length ≤ i) :
    (writeList buf off bs)[i]? = buf[i]? := by
  induction bs generalizing buf off with
  | nil => rfl
  | cons b bs ih =>
    simp only [writeList]
    simp only [List.length_cons] at h
    rw [ih _ _ (by omega), Array.getElem?_setIfInBounds]
    have : off ≠ i := by omega
    simp [this]

theorem writeList_getElem? (buf : Array UInt8) (off : Nat) (bs : List UInt8) (i : Nat)
    (hi : i < bs.length) (hb : off + bs.length ≤ buf.size) :
    (writeList buf off bs)[off + i]? = bs[i]? := by
  induction bs generalizing buf off i with
  | nil => simp at hi
  | cons b bs ih =>
    simp only [writeList]
    simp only [List.length_cons] at hi hb
    cases i with
    | zero =>
      rw [Nat.add_zero, writeList_getElem?_of_lt _ _ _ _ (by omega), Array.getElem?_setIfInBounds]
      simp; omega
    | succ j =>
      have := ih (buf.setIfInBounds off b) (off + 1) j (by omega) (by simp; omega)
      rw [show off + (j + 1) = off + 1 + j by omega, this]
      simp

/-- **C07, low-level clause**: an encoder either reports 0 and leaves the buffer untouched, or reports the
number of bytes it wrote, all of them inside `[off, off + n)`; the buffer keeps its size and every byte
outside the written range keeps its value. -/
theorem encRes_frame (buf : Array UInt8) (off : Nat) (n : UInt64) (bs : List UInt8) (hne : bs ≠ []) (hl : bs.length < 2 ^ 64) :
    let r := encRes buf off n bs
    (r.1 = 0 → r.2 = buf) ∧
    (r.1 ≠ 0 → r.1.toNat = bs.length ∧ bs.length ≤ n.toNat ∧ r.2.size = buf.size ∧
      ∀ i, (i < off ∨ off + r.1.toNat ≤ i) → r.2[i]? = buf[i]?) := by
  intro r
  by_cases h : bs.length ≤ n.toNat
  · have hr : r = (UInt64.ofNat bs.length, writeList buf off bs) := by simp [r, encRes, h]
    have hlen : (UInt64.ofNat bs.length).toNat = bs.length := by simp [UInt64.toNat_ofNat']; omega
    have hpos : 0 < bs.length := by cases bs with | nil => contradiction | cons _ _ => simp
    rw [hr]
    refine ⟨?_, ?_⟩
    · intro h0
      have : (UInt64.ofNat bs.length).toNat = 0 := by simp only at h0; rw [h0]; rfl
      omega
    · intro _
      refine ⟨hlen, h, writeList_size _ _ _, ?_⟩
      intro i hi
      rcases hi with hi | hi
      · exact writeList_getElem?_of_lt _ _ _ _ hi
      · exact writeList_getElem?_of_ge _ _ _ _ (by rw [hlen] at hi; exact hi)
  · have hr : r = (0, buf) := by simp [r, encRes, h]
    rw [hr]
    exact ⟨fun _ => rfl, fun h0 => absurd rfl h0⟩

end Lemmas

/-!
C-semantics helpers used by the generated (`Cbor.Gen.*`) definitions.
Hand-written, tiny, part of the trusted reading of Mini-C (see DESIGN.md §2.1).
-/
namespace C
/-- conversion of a C `int` value to `uintN_t`: well defined, modulo 2^N -/
def toU8 (i : Int) : UInt8 := UInt8.ofNat (i % 256).toNat
def toU16 (i : Int) : UInt16 := UInt16.ofNat (i % 65536).toNat
def toU32 (i : Int) : UInt32 := UInt32.ofNat (i % 4294967296).toNat
def toU64 (i : Int) : UInt64 := UInt64.ofNat (i % 18446744073709551616).toNat
/-- the mathematical result is representable in a signed type of `bits` bits (otherwise UB / impl.-defined) -/
def fitsS (bits : Nat) (i : Int) : Bool := decide (-(2 ^ (bits - 1) : Int) ≤ i ∧ i < 2 ^ (bits - 1))
/-- two's-complement wrap of an out-of-range narrowing conversion (what gcc/clang do) -/
def wrapS (bits : Nat) (i : Int) : Int := ((i + 2 ^ (bits - 1)) % 2 ^ bits) - 2 ^ (bits - 1)
/-- `isnan` on the IEEE-754 binary32 / binary64 bit pattern -/
def isNaN32 (v : UInt32) : Bool := (v >>> 23) &&& 0xFF == 0xFF && v &&& 0x7FFFFF != 0
def isNaN64 (v : UInt64) : Bool := (v >>> 52) &&& 0x7FF == 0x7FF && v &&& 0xFFFFFFFFFFFFF != 0
/-! Fixed-width accesses to a byte sequence in **host byte order** (`*(uintN_t*)p`, little-endian host: checked by the translator). -/
/-- the `n` bytes `a[o], …, a[o+n-1]` read as a little-endian number -/
def leNat (a : Array UInt8) (o : Nat) : Nat → Nat
  | 0 => 0
  | n+1 => (a.getD o 0).toNat + 256 * leNat a (o+1) n
/-- `a` after storing the `n` low-order bytes of `v`, least significant first, at `a[o], …, a[o+n-1]` -/
def leStore (a : Array UInt8) (o : Nat) : Nat → Nat → Array UInt8
  | 0, _ => a
  | n+1, v => leStore (a.setIfInBounds o (UInt8.ofNat v)) (o+1) n (v / 256)
def loadLE16 (a : Array UInt8) (o : Nat) : UInt16 := UInt16.ofNat (leNat a o 2)
def loadLE32 (a : Array UInt8) (o : Nat) : UInt32 := UInt32.ofNat (leNat a o 4)
def loadLE64 (a : Array UInt8) (o : Nat) : UInt64 := UInt64.ofNat (leNat a o 8)
def storeLE16 (a : Array UInt8) (o : Nat) (v : UInt16) : Array UInt8 := leStore a o 2 v.toNat
def storeLE32 (a : Array UInt8) (o : Nat) (v : UInt32) : Array UInt8 := leStore a o 4 v.toNat
def storeLE64 (a : Array UInt8) (o : Nat) (v : UInt64) : Array UInt8 := leStore a o 8 v.toNat
/-- C `==` on two `float` / `double` values given by their bit patterns (IEEE 754 §5.11): a NaN is unequal to everything, itself included;
+0 and −0 are equal (`(a ||| b) <<< 1 == 0`: both are zeros); otherwise equal values have equal patterns -/
def feq32 (a b : UInt32) : Bool := !isNaN32 a && !isNaN32 b && ((a == b) || (((a ||| b) <<< 1) == 0))
def feq64 (a b : UInt64) : Bool := !isNaN64 a && !isNaN64 b && ((a == b) || (((a ||| b) <<< 1) == 0))
end C
namespace Prelude
/-- `(double)f` for a C `float` f, on IEEE-754 bit patterns (binary32 → binary64).  Exact (value preserving) for every
non-NaN input: ±0 ↦ ±0, subnormals are normalised (`Nat.log2 f` = position of the leading fraction bit), normals are re-biased
(+896 = 1023 − 127) with the 23 fraction bits moved to the top of the 52, ±∞ ↦ ±∞.  NaN: sign kept, exponent all ones,
fraction moved up by 29 bits **with the quiet bit (bit 51) set** — what the x86-64 instruction `cvtss2sd` produces
(IEEE 754 leaves the payload of a converted NaN to the implementation: a platform assumption, validated by the ACC correspondence). -/
def f32ToF64 (b : UInt32) : UInt64 :=
  let n := b.toNat
  let s := n / 2147483648
  let e := n / 8388608 % 256
  let f := n % 8388608
  let mag : Nat :=
    if e = 255 then (if f = 0 then 0x7FF0000000000000 else 0x7FF8000000000000 + f % 4194304 * 536870912)
    else if e = 0 then (if f = 0 then 0 else (Nat.log2 f + 874) * 4503599627370496 + (f - 2 ^ Nat.log2 f) * 2 ^ (52 - Nat.log2 f))
    else (e + 896) * 4503599627370496 + f * 536870912
  UInt64.ofNat (s * 9223372036854775808 + mag)
end Prelude

/-!
C-semantics helpers used by the generated (`Cbor.Gen.*`) definitions.
Hand-written, tiny, part of the trusted reading of Mini-C (see DESIGN.md §2.1).
-/
namespace C
/-- conversion of a C `int` value to `uintN_t`: well defined, modulo 2^N -/
def toU8 (i : Int) : UInt8 := UInt8.ofNat (i % 256).toNat
def toU16 (i : Int) : UInt16 := UInt16.ofNat (i % 65536).toNat
def toU32 (i : Int) : UInt32 := UInt32.ofNat (i % 4294967296).toNat
def toU64 (i : Int) : UInt64 := UInt64.ofNat (i % 18446744073709551616).toNat
/-- the mathematical result is representable in a signed type of `bits` bits (otherwise UB / impl.-defined) -/
def fitsS (bits : Nat) (i : Int) : Bool := decide (-(2 ^ (bits - 1) : Int) ≤ i ∧ i < 2 ^ (bits - 1))
/-- two's-complement wrap of an out-of-range narrowing conversion (what gcc/clang do) -/
def wrapS (bits : Nat) (i : Int) : Int := ((i + 2 ^ (bits - 1)) % 2 ^ bits) - 2 ^ (bits - 1)
/-- `isnan` on the IEEE-754 binary32 / binary64 bit pattern -/
def isNaN32 (v : UInt32) : Bool := (v >>> 23) &&& 0xFF == 0xFF && v &&& 0x7FFFFF != 0
def isNaN64 (v : UInt64) : Bool := (v >>> 52) &&& 0x7FF == 0x7FF && v &&& 0xFFFFFFFFFFFFF != 0
/-! Fixed-width accesses to a byte sequence in **host byte order** (`*(uintN_t*)p`, little-endian host: checked by the translator). -/
/-- the `n` bytes `a[o], …, a[o+n-1]` read as a little-endian number -/
def leNat (a : Array UInt8) (o : Nat) : Nat → Nat
  | 0 => 0
  | n+1 => (a.getD o 0).toNat + 256 * leNat a (o+1) n
/-- `a` after storing the `n` low-order bytes of `v`, least significant first, at `a[o], …, a[o+n-1]` -/
def leStore (a : Array UInt8) (o : Nat) : Nat → Nat → Array UInt8
  | 0, _ => a
  | n+1, v => leStore (a.setIfInBounds o (UInt8.ofNat v)) (o+1) n (v / 256)
def loadLE16 (a : Array UInt8) (o : Nat) : UInt16 := UInt16.ofNat (leNat a o 2)
def loadLE32 (a : Array UInt8) (o : Nat) : UInt32 := UInt32.ofNat (leNat a o 4)
def loadLE64 (a : Array UInt8) (o : Nat) : UInt64 := UInt64.ofNat (leNat a o 8)
def storeLE16 (a : Array UInt8) (o : Nat) (v : UInt16) : Array UInt8 := leStore a o 2 v.toNat
def storeLE32 (a : Array UInt8) (o : Nat) (v : UInt32) : Array UInt8 := leStore a o 4 v.toNat
def storeLE64 (a : Array UInt8) (o : Nat) (v : UInt64) : Array UInt8 := leStore a o 8 v.toNat
end C

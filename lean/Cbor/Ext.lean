import Cbor.Prelude
/-!
Hand-written models of the C functions the translator does not translate
(they use `double`, `ldexp` and a `(float)` cast).  Validated against the compiled
functions on **all** 65 536 inputs by the correspondence harness on every run.
-/
namespace Ext

/-- position of the most significant set bit of a 10-bit mantissa (0..9); 0 for 0 -/
def msb10 (m : Nat) : Nat :=
  if m ≥ 512 then 9 else if m ≥ 256 then 8 else if m ≥ 128 then 7 else if m ≥ 64 then 6
  else if m ≥ 32 then 5 else if m ≥ 16 then 4 else if m ≥ 8 then 3 else if m ≥ 4 then 2
  else if m ≥ 2 then 1 else 0

/-- `_cbor_decode_half`: IEEE binary32 bit pattern of the `float` returned for the 16-bit pattern `h`.
    `ldexp(mant, -24)`, `ldexp(mant + 1024, exp - 25)`, INFINITY, NAN, negated when bit 15 is set,
    then converted `double → float` (exact for every half value). -/
def decodeHalfBits (h : Nat) : UInt32 :=
  let exp := (h / 1024) % 32
  let mant := h % 1024
  let sign : Nat := if h % 65536 ≥ 32768 then 0x80000000 else 0
  let mag : Nat :=
    if exp == 0 then
      if mant == 0 then 0
      else
        let p := msb10 mant
        (p + 103) * 8388608 + (mant - 2 ^ p) * 2 ^ (23 - p)
    else if exp != 31 then (exp + 112) * 8388608 + mant * 8192
    else if mant == 0 then 0x7F800000 else 0x7FC00000
  UInt32.ofNat (sign + mag)

def _cbor_load_half (src : Array UInt8) (off : Nat) : UInt32 :=
  decodeHalfBits ((src.getD off 0).toNat * 256 + (src.getD (off + 1) 0).toNat)

def _cbor_load_half.ok (src : Array UInt8) (off : Nat) : Bool := decide (off + 1 < src.size)

end Ext

import Cbor.Drv.GenOps
/-! `cbordrv`: one operation per input line, one canonical result line per operation. -/

def step (line : String) : String :=
  let ws := (line.trimAscii.toString.splitOn " ").filter (· ≠ "")
  match Drv.genOp ws with
  | some out => out
  | none => "bad-op"

partial def loop (h : IO.FS.Stream) (out : IO.FS.Stream) : IO Unit := do
  let line ← h.getLine
  if line.isEmpty then return ()
  out.putStrLn (step line)
  loop h out

def main : IO Unit := do
  let out ← IO.getStdout
  loop (← IO.getStdin) out

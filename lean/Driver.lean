import Cbor.Drv.GenOps
import Cbor.Drv.ModelOps
/-! `cbordrv`: one operation per input line, one canonical result line per operation. -/

def step (L : Nat) (line : String) : String :=
  let ws := (line.trimAscii.toString.splitOn " ").filter (· ≠ "")
  match Drv.genOp ws with
  | some out => out
  | none =>
    match Drv.modelOp L ws with
    | some out => out
    | none => "bad-op"

partial def loop (L : Nat) (h : IO.FS.Stream) (out : IO.FS.Stream) : IO Unit := do
  let line ← h.getLine
  if line.isEmpty then return ()
  out.putStrLn (step L line)
  loop L h out

/-- optional argument: the decoding-stack limit `L` the model is run with (default 2048) -/
def main (args : List String) : IO Unit := do
  let out ← IO.getStdout
  let L := (args.head?.bind String.toNat?).getD 2048
  loop L (← IO.getStdin) out

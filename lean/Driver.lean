import Cbor.Drv.GenOps
import Cbor.Drv.ModelOps
import Cbor.Drv.HistOps
/-! `cbordrv`: one operation per input line, one canonical result line per operation. -/

def step (L : Nat) (hs : Drv.HState) (line : String) : Drv.HState × String :=
  let ws := (line.trimAscii.toString.splitOn " ").filter (· ≠ "")
  match Drv.genOp ws with
  | some out => (hs, out)
  | none =>
    match Drv.modelOp L ws with
    | some out => (hs, out)
    | none =>
      match Drv.histOp L hs ws with
      | some r => r
      | none => (hs, "bad-op")

partial def loop (L : Nat) (hs : Drv.HState) (h : IO.FS.Stream) (out : IO.FS.Stream) : IO Unit := do
  let line ← h.getLine
  if line.isEmpty then return ()
  let (hs, o) := step L hs line
  out.putStrLn o
  loop L hs h out

/-- optional argument: the decoding-stack limit `L` the model is run with (default 2048) -/
def main (args : List String) : IO Unit := do
  let out ← IO.getStdout
  let L := (args.head?.bind String.toNat?).getD 2048
  loop L {} (← IO.getStdin) out

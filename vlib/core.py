"""Orchestration shared by every check: paths, locks, regeneration of the generated Lean layer,
lake builds, proof audit, harness build, paired execution of harness and driver, evidence / replay
writers, known-findings handling.  Python stdlib only."""
import fcntl, hashlib, json, os, re, shutil, subprocess, sys, time

VERIF = os.path.dirname(os.path.dirname(os.path.abspath(__file__)))
REPO = os.environ.get('VERIF_REPO', '/repo')
LEAN = os.path.join(VERIF, 'lean')
GEN = os.path.join(LEAN, 'Cbor', 'Gen')
BUILD = os.path.join(VERIF, 'build')
EVID = os.path.join(VERIF, 'evidence')
REPLAYS = os.path.join(VERIF, 'replays')
SEED = int(os.environ.get('VERIF_SEED', '1') or 1)
ALLOWED_AXIOMS = {'propext', 'Quot.sound', 'Classical.choice'}
FORBIDDEN = re.compile(r'\bsorry\b|\badmit\b|^\s*axiom\s|native_decide|bv_decide|implemented_by|\bunsafe\s|maxHeartbeats\s+0\b', re.M)

sys.path.insert(0, os.path.join(VERIF, 'extract'))


def sh(cmd, **kw):
    return subprocess.run(cmd, capture_output=True, text=True, **kw)


class Lock:
    """global build lock: lake cannot run twice in one project directory"""
    def __init__(self, name='build'):
        os.makedirs(BUILD, exist_ok=True)
        self.path = os.path.join(BUILD, '.%s.lock' % name)
    def __enter__(self):
        self.f = open(self.path, 'w'); fcntl.flock(self.f, fcntl.LOCK_EX); return self
    def __exit__(self, *a):
        fcntl.flock(self.f, fcntl.LOCK_UN); self.f.close()


def write_if_changed(path, content):
    try:
        if open(path).read() == content: return False
    except OSError:
        pass
    os.makedirs(os.path.dirname(path), exist_ok=True)
    tmp = path + '.tmp'
    with open(tmp, 'w') as f: f.write(content)
    os.replace(tmp, path)
    return True


def sha(s):
    return hashlib.sha256(s.encode() if isinstance(s, str) else s).hexdigest()[:16]


# ---------------------------------------------------------------------------- regeneration
def regen():
    """Regenerate lean/Cbor/Gen/*.lean from REPO's working tree.
    returns dict(ok, error, hashes, changed)"""
    import c2lean, cast
    out = {'ok': True, 'error': None, 'hashes': {}, 'changed': [], 'untranslated': []}
    cfg = os.path.join(BUILD, 'cfg-ast')
    with Lock():
        try:
            files, rep = c2lean.generate(REPO, GEN, cfg)
            out['untranslated'] = list(rep.get('failed', []))   # accessors replaced by `Untranslated` stubs
            try:
                import effects
                files['Effects.lean'] = effects.generate(REPO, cfg)
            except ImportError:
                pass
            try:
                import guards
                files['Guards.lean'] = guards.generate(REPO, cfg)
            except ImportError:
                pass
            try:
                import config
                files['Config.lean'] = config.generate(REPO, cfg)
            except ImportError:
                pass
        except Exception as ex:  # Unsupported construct, clang failure, missing function ...
            out['ok'] = False; out['error'] = '%s: %s' % (type(ex).__name__, ex)
            return out
        for name, content in files.items():
            if write_if_changed(os.path.join(GEN, name), content): out['changed'].append(name)
            out['hashes'][name] = sha(content)
    return out


# ---------------------------------------------------------------------------- lean
def lake_build(targets, timeout=3000):
    with Lock():
        t0 = time.time()
        p = sh(['lake', 'build'] + list(targets), cwd=LEAN, timeout=timeout)
        return {'ok': p.returncode == 0, 'out': (p.stdout + p.stderr)[-6000:], 'wall_s': round(time.time() - t0, 1),
                'cmd': 'cd lean && lake build ' + ' '.join(targets)}


def strip_comments(src):
    # nested block comments /- ... -/ and line comments --
    out = []; i = 0; depth = 0; n = len(src)
    while i < n:
        if src.startswith('/-', i): depth += 1; i += 2; continue
        if depth and src.startswith('-/', i): depth -= 1; i += 2; continue
        if depth: i += 1; continue
        if src.startswith('--', i):
            j = src.find('\n', i); i = n if j < 0 else j; continue
        if src[i] == '"':
            j = i + 1
            while j < n and src[j] != '"':
                j += 2 if src[j] == '\\' else 1
            i = j + 1; continue            # string literals dropped (they cannot prove anything)
        out.append(src[i]); i += 1
    return ''.join(out)


def import_cone(module):
    """transitive Cbor.* imports of a module (by reading sources)"""
    seen = []; todo = [module]
    while todo:
        m = todo.pop()
        if m in seen: continue
        path = os.path.join(LEAN, *m.split('.')) + '.lean'
        if not os.path.exists(path): continue
        seen.append(m)
        for l in open(path):
            mm = re.match(r'\s*import\s+(Cbor[\w.]*)', l)
            if mm: todo.append(mm.group(1))
    return seen


def audit(module, theorems, extra=()):
    """grep the cone for forbidden constructs; #print axioms for every listed theorem.
    returns dict(ok, forbidden, axioms, missing)"""
    res = {'ok': True, 'forbidden': [], 'axioms': {}, 'bad_axioms': {}, 'missing': []}
    cone = []
    for mm in [module] + list(extra):
        for m in import_cone(mm):
            if m not in cone: cone.append(m)
    for m in cone:
        path = os.path.join(LEAN, *m.split('.')) + '.lean'
        body = strip_comments(open(path).read())
        for hit in FORBIDDEN.finditer(body):
            res['forbidden'].append('%s: %s' % (m, hit.group(0).strip())); res['ok'] = False
    probe = os.path.join(BUILD, 'axioms_%s_%d.lean' % (module.replace('.', '_'), os.getpid()))
    with open(probe, 'w') as f:
        f.write('import %s\n' % module)
        for e in extra: f.write('import %s\n' % e)
        for t in theorems: f.write('#print axioms %s\n' % t)
    with Lock():
        p = sh(['lake', 'env', 'lean', probe], cwd=LEAN, timeout=1200)
    os.remove(probe)
    txt = p.stdout + p.stderr
    for t in theorems:
        short = t
        m = re.search(r"'%s' depends on axioms: \[([^\]]*)\]" % re.escape(short), txt, re.S)
        if m:
            ax = [a.strip() for a in m.group(1).replace('\n', ' ').split(',') if a.strip()]
        elif re.search(r"'%s' does not depend on any axioms" % re.escape(short), txt):
            ax = []
        else:
            res['missing'].append(t); res['ok'] = False; continue
        res['axioms'][t] = ax
        bad = [a for a in ax if a not in ALLOWED_AXIOMS]
        if bad: res['bad_axioms'][t] = bad; res['ok'] = False
    if p.returncode != 0 and not res['missing']:
        res['ok'] = False; res['missing'].append('lean probe failed: ' + txt[-500:])
    return res


def leanchecker(module):
    with Lock():
        p = sh(['lake', 'env', 'leanchecker', module], cwd=LEAN, timeout=3000)
    return {'ok': p.returncode == 0, 'out': (p.stdout + p.stderr)[-1500:], 'cmd': 'cd lean && lake env leanchecker ' + module}


# ---------------------------------------------------------------------------- harness
def repo_sources():
    out = []
    for d, _, fs in os.walk(os.path.join(REPO, 'src')):
        for f in sorted(fs):
            if f.endswith('.c'): out.append(os.path.join(d, f))
    return sorted(out)


def tree_fingerprint():
    h = hashlib.sha256()
    for d, _, fs in sorted(os.walk(os.path.join(REPO, 'src'))):
        for f in sorted(fs):
            if f.endswith(('.c', '.h', '.in')):
                p = os.path.join(d, f); h.update(p.encode()); h.update(open(p, 'rb').read())
    h.update(open(os.path.join(REPO, 'CMakeLists.txt'), 'rb').read())
    return h.hexdigest()[:16]


def build_harness(kind='asan', overrides=None, extra_flags=(), sources=None):
    """Compile the harness + all of REPO/src/**/*.c into BUILD/h-<key>/cborharness (cached on content)."""
    import cast
    flags = {'asan': ['-g', '-O1', '-fsanitize=address,undefined', '-fno-sanitize-recover=all', '-DDEBUG=1'],
             'plain': ['-g', '-O1', '-DDEBUG=1'],
             'asanrel': ['-g', '-O2', '-fsanitize=address,undefined', '-fno-sanitize-recover=all'],      # release configuration: CBOR_ASSERT compiled out
             'o0': ['-g', '-O0'], 'o2': ['-g', '-O2'],
             'tsan': ['-g', '-O1', '-fsanitize=thread', '-pthread']}[kind] + list(extra_flags)
    hsrc = sources or sorted(os.path.join(VERIF, 'harness', f) for f in os.listdir(os.path.join(VERIF, 'harness')) if f.endswith('.c')
                             and not f.startswith('x_'))
    key = hashlib.sha256()
    key.update(tree_fingerprint().encode()); key.update(json.dumps([kind, overrides, list(extra_flags)], sort_keys=True).encode())
    for f in hsrc + [os.path.join(VERIF, 'harness', 'hcommon.h')]:
        key.update(open(f, 'rb').read())
    d = os.path.join(BUILD, 'h-' + key.hexdigest()[:16])
    exe = os.path.join(d, 'cborharness')
    if os.path.exists(exe): return {'ok': True, 'exe': exe, 'cached': True, 'out': ''}
    with Lock('harness'):
        if os.path.exists(exe): return {'ok': True, 'exe': exe, 'cached': True, 'out': ''}
        os.makedirs(d, exist_ok=True)
        cfg = os.path.join(d, 'cfg')
        cast.write_cfg(REPO, cfg, overrides=overrides, with_assert_shadow=False)
        # compile translation units in parallel
        objs = []; procs = []
        for src in hsrc + repo_sources():
            o = os.path.join(d, sha(src) + '.o'); objs.append(o)
            procs.append((src, subprocess.Popen(['clang-14', '-c', '-w', *flags, '-I%s/src' % REPO, '-I' + cfg,
                                                  '-I' + os.path.join(VERIF, 'harness'), src, '-o', o],
                                                 stdout=subprocess.PIPE, stderr=subprocess.STDOUT, text=True)))
        errs = []
        for src, p in procs:
            o, _ = p.communicate()
            if p.returncode != 0: errs.append('%s:\n%s' % (src, o[-1500:]))
        if errs:
            shutil.rmtree(d, ignore_errors=True)
            return {'ok': False, 'exe': None, 'out': '\n'.join(errs)[:4000]}
        p = sh(['clang-14', *[f for f in flags if f.startswith(('-fsanitize', '-pthread', '-g'))], *objs, '-lm', '-o', exe + '.tmp'])
        if p.returncode != 0:
            shutil.rmtree(d, ignore_errors=True)
            return {'ok': False, 'exe': None, 'out': (p.stdout + p.stderr)[-3000:]}
        os.replace(exe + '.tmp', exe)
        for o in objs:
            try: os.remove(o)
            except OSError: pass
        prune_builds(keep=d)
    return {'ok': True, 'exe': exe, 'cached': False, 'out': ''}


def prune_builds(keep, max_dirs=12):
    ds = sorted((os.path.join(BUILD, x) for x in os.listdir(BUILD) if x.startswith('h-')), key=os.path.getmtime)
    for d in ds[:-max_dirs]:
        if d != keep: shutil.rmtree(d, ignore_errors=True)


def driver_exe(name='cbordrv'):
    return os.path.join(LEAN, '.lake', 'build', 'bin', name)


def run_lines(exe, lines, timeout=1800, env=None):
    """feed lines to exe; returns (list of output lines, returncode, stderr tail)"""
    data = '\n'.join(lines) + '\n'
    e = dict(os.environ); e.setdefault('ASAN_OPTIONS', 'detect_leaks=0:abort_on_error=0:allocator_may_return_null=1')
    e.setdefault('UBSAN_OPTIONS', 'print_stacktrace=1')
    if env: e.update(env)
    argv = exe if isinstance(exe, list) else [exe]
    pre = None
    if '.lake' in argv[0]:
        # compiled Lean drivers: cap memory (a model that is fed a broken generated decoder must not eat the machine)
        def pre():
            import resource
            resource.setrlimit(resource.RLIMIT_AS, (12 << 30, 12 << 30))
    try:
        p = subprocess.run(argv, input=data, capture_output=True, text=True, timeout=timeout, env=e, preexec_fn=pre)
    except subprocess.TimeoutExpired as ex:
        return ((ex.stdout or b'').decode(errors='replace').split('\n') if isinstance(ex.stdout, bytes) else (ex.stdout or '').split('\n'),
                -999, 'timeout after %ss' % timeout)
    out = p.stdout.split('\n')
    if out and out[-1] == '': out.pop()
    return out, p.returncode, p.stderr[-3000:]


def first_crash_line(exe, lines, env=None):
    """the implementation died: find the first input line that kills it (bisect by prefix, then confirm alone)"""
    lo, hi = 0, len(lines)
    while hi - lo > 1:
        mid = (lo + hi) // 2
        _, rc, _ = run_lines(exe, lines[lo:mid], env=env)
        if rc != 0: hi = mid
        else: lo = mid
    out, rc, err = run_lines(exe, [lines[lo]], env=env)
    if rc != 0: return lo, lines[lo], err
    # needs history: return the prefix
    return lo, lines[lo], '(only fails after the preceding operations)'


# ---------------------------------------------------------------------------- evidence / findings
def load_known():
    p = os.path.join(VERIF, 'known_findings.json')
    try:
        return json.load(open(p))
    except OSError:
        return {'open': [], 'fixed': []}


def write_json(path, obj):
    os.makedirs(os.path.dirname(path), exist_ok=True)
    tmp = path + '.tmp'
    with open(tmp, 'w') as f: json.dump(obj, f, indent=1, sort_keys=False, default=str)
    os.replace(tmp, path)


def replay_path(prop, tier, tag=''):
    os.makedirs(REPLAYS, exist_ok=True)
    return os.path.join(REPLAYS, '%s-%s-seed%d%s.json' % (prop, tier, SEED, ('-' + tag) if tag else ''))


class Rng:
    """one PRNG (xorshift64*) per run, seeded from VERIF_SEED and a stream name: every random choice replays"""
    def __init__(self, name):
        self.s = (int(hashlib.sha256(('%d/%s' % (SEED, name)).encode()).hexdigest()[:16], 16) or 1) & (2 ** 64 - 1)
    def next(self):
        x = self.s
        x ^= (x >> 12); x ^= (x << 25) & (2 ** 64 - 1); x ^= (x >> 27)
        self.s = x
        return (x * 0x2545F4914F6CDD1D) & (2 ** 64 - 1)
    def below(self, n): return self.next() % n if n > 0 else 0
    def choice(self, xs): return xs[self.below(len(xs))]
    def bytes(self, n): return bytes(self.below(256) for _ in range(n))
    def chance(self, num, den): return self.below(den) < num


def run_parallel(exe, lines, jobs=16, timeout=3000, env=None):
    """split lines round-robin over `jobs` processes; returns outputs in input order, worst rc, stderr tail"""
    from concurrent.futures import ThreadPoolExecutor
    if len(lines) < 2 * jobs: return run_lines(exe, lines, timeout, env)
    chunks = [lines[i::jobs] for i in range(jobs)]
    with ThreadPoolExecutor(max_workers=jobs) as ex:
        res = list(ex.map(lambda c: run_lines(exe, c, timeout, env), chunks))
    out = [None] * len(lines); rc = 0; err = ''
    for j, (o, r, e) in enumerate(res):
        if r != 0: rc = r; err = e
        for k, v in enumerate(o):
            idx = j + k * jobs
            if idx < len(out): out[idx] = v
    return [x if x is not None else '(missing)' for x in out], rc, err

"""The decision procedure common to all properties (DESIGN.md §5):

  regenerate Gen  ->  lake build Props.Cxx + audit  ->  harness build  ->  correspondence (C vs cbordrv)
                  ->  property oracle (C vs specdrv / intrinsic oracles)  ->  decide, evidence, replay
"""
import json, os, sys, time, traceback
from . import core


class Prop:
    id = None
    module = None            # Lean module holding the property theorems
    theorems = []            # fully qualified names audited with #print axioms
    extra_modules = []       # further modules to build (e.g. table shards)
    trusted_base = []
    rule = ''
    needs_harness = True
    harness_kind = 'asan'
    also_release = False     # run the property oracle a second time on a build without -DDEBUG (assertions compiled out, -O2)

    # ---- to override -------------------------------------------------------------
    def corr_lines(self, tier, rng):
        """operations fed to BOTH the C harness and the Lean model driver; outputs must be identical"""
        return []

    def oracle(self, tier, ctx):
        """property oracle on the implementation (uses ctx.run_c / ctx.run_spec); returns list of failures
        [{'input': line, 'expected': .., 'observed': .., 'why': ..}] and updates ctx.stats"""
        return []

    def nontrivial(self, line, out):
        return out != 'bad-op'

    def shrink(self, ctx, fail):
        return fail


class Ctx:
    def __init__(self, prop, tier):
        self.prop, self.tier = prop, tier
        self.harness = None
        self.stats = {}
        self.evaluations = 0
        self.distinct = set()
        self.samples = []
        self.notes = []
        self.exhaustive = {}
        self.model_ok = False      # generated model regenerated and cbordrv rebuilt from the current source

    def run_c(self, lines, env=None, exe=None):
        out, rc, err = core.run_lines(exe or self.harness, lines, env=env)
        return out, rc, err

    def run_drv(self, lines, name='cbordrv', args=()):
        return core.run_lines([core.driver_exe(name)] + [str(a) for a in args], lines)

    def run_spec(self, lines):
        return core.run_lines(core.driver_exe('specdrv'), lines)

    def count(self, line, out):
        self.evaluations += 1
        if self.prop.nontrivial(line, out):
            self.distinct.add(core.sha(line.split(' ', 1)[0] + '|' + line + '|' + str(out))[:12])
        if len(self.samples) < 6 and (self.evaluations % 997 == 1):
            self.samples.append({'op': line[:200], 'result': str(out)[:200]})

    def bump(self, key, n=1):
        self.stats[key] = self.stats.get(key, 0) + n


def compare_streams(ctx, lines, c_out, m_out, what):
    """line-by-line comparison of two output streams; returns list of disagreements"""
    dis = []
    n = min(len(c_out), len(m_out))
    for i in range(n):
        ctx.count(lines[i], c_out[i])
        if c_out[i] != m_out[i]:
            if len(dis) < 50:
                dis.append({'input': lines[i], 'implementation': c_out[i], 'model': m_out[i], 'stream': what})
    if len(c_out) != len(lines) or len(m_out) != len(lines):
        dis.append({'input': lines[n] if n < len(lines) else '(end)', 'implementation': 'lines=%d' % len(c_out),
                    'model': 'lines=%d' % len(m_out), 'stream': what + ' (output truncated)'})
    return dis


def run_check(prop, tier, replay=None):
    t0 = time.time()
    ctx = Ctx(prop, tier)
    rng = core.Rng(prop.id)
    broken = []          # proof obligations / correspondences that no longer check
    fails = []           # concrete failing inputs
    report = {'steps': {}}
    known = core.load_known()

    # 1. regenerate
    rg = core.regen()
    report['steps']['regen'] = {'ok': rg['ok'], 'error': rg['error'], 'changed': rg['changed'], 'hashes': rg['hashes'],
                                'untranslated': rg.get('untranslated', [])}
    if not rg['ok']:
        broken.append({'kind': 'translator', 'what': 'extract/c2lean.py could not translate the current source', 'detail': rg['error']})

    # 2. proof
    cmds = []
    if rg['ok']:
        lb = core.lake_build([prop.module] + list(prop.extra_modules))
        cmds.append(lb['cmd'])
        report['steps']['proof_build'] = {'ok': lb['ok'], 'wall_s': lb['wall_s'], 'tail': '' if lb['ok'] else lb['out'][-2500:]}
        if not lb['ok']:
            broken.append({'kind': 'theorem', 'what': 'lake build %s failed' % prop.module,
                           'detail': first_error(lb['out'])})
        au = core.audit(prop.module, prop.theorems, list(prop.extra_modules)) if lb['ok'] else {'ok': False, 'axioms': {}, 'forbidden': [], 'bad_axioms': {}, 'missing': list(prop.theorems)}
        report['steps']['audit'] = au
        if lb['ok'] and not au['ok']:
            broken.append({'kind': 'audit', 'what': 'audit of %s failed' % prop.module,
                           'detail': json.dumps({k: au[k] for k in ('forbidden', 'bad_axioms', 'missing')})})
        if tier == 'thorough' and lb['ok']:
            lc = core.leanchecker(prop.module); cmds.append(lc['cmd'])
            report['steps']['leanchecker'] = lc
            if not lc['ok']: broken.append({'kind': 'leanchecker', 'what': 'leanchecker rejected ' + prop.module, 'detail': lc['out']})
    else:
        au = {'ok': False, 'axioms': {}}
    discharged = sum(1 for t in prop.theorems if t in au.get('axioms', {}) and t not in au.get('bad_axioms', {})) if not any(
        b['kind'] in ('theorem', 'translator') for b in broken) else 0

    # 3. drivers + harness
    drv_ok = False
    if rg['ok']:
        db = core.lake_build(['cbordrv'])
        drv_ok = db['ok']
        ctx.model_ok = db['ok']
        report['steps']['driver_build'] = {'ok': db['ok'], 'tail': '' if db['ok'] else db['out'][-1500:]}
        if not db['ok']:
            broken.append({'kind': 'correspondence', 'what': 'model driver cbordrv does not build', 'detail': first_error(db['out'])})
    sb = core.lake_build(['specdrv'])
    report['steps']['spec_driver_build'] = {'ok': sb['ok'], 'tail': '' if sb['ok'] else sb['out'][-1500:]}
    if prop.needs_harness:
        hb = core.build_harness(prop.harness_kind)
        report['steps']['harness_build'] = {'ok': hb['ok'], 'cached': hb.get('cached'), 'tail': hb['out'][-1500:]}
        if not hb['ok']:
            broken.append({'kind': 'harness', 'what': 'harness does not build against the current source', 'detail': hb['out'][-800:]})
        ctx.harness = hb['exe']

    # 4. correspondence
    if replay is None and ctx.harness and drv_ok:
        try:
            lines = prop.corr_lines(tier, rng)
            if lines:
                c_out, rc, err = ctx.run_c(lines)
                m_out, mrc, merr = ctx.run_drv(lines)
                if rc != 0:
                    i, l, e = core.first_crash_line(ctx.harness, lines)
                    fails.append({'input': l, 'observed': 'implementation aborted (sanitizer/assert/signal) rc=%d' % rc,
                                  'expected': 'a result line', 'why': e[-1200:]})
                dis = compare_streams(ctx, lines[:len(c_out)] if rc != 0 else lines, c_out, m_out[:len(c_out)] if rc != 0 else m_out, 'model-vs-implementation')
                report['steps']['correspondence'] = {'lines': len(lines), 'disagreements': len(dis)}
                for d in dis[:10]:
                    broken.append({'kind': 'correspondence', 'what': 'model and implementation disagree', 'detail': json.dumps(d)})
                ctx.corr_disagreements = dis
        except Exception as ex:
            broken.append({'kind': 'correspondence', 'what': 'correspondence run failed', 'detail': traceback.format_exc()[-1500:]})

    # 5. property oracle on the implementation (also the search for a failing input)
    if ctx.harness and sb['ok']:
        try:
            if replay is not None:
                fails += prop.replay(ctx, replay)
            else:
                fails += prop.oracle(tier, ctx)
        except Exception as ex:
            broken.append({'kind': 'oracle', 'what': 'property oracle crashed', 'detail': traceback.format_exc()[-1500:]})
    elif not sb['ok']:
        broken.append({'kind': 'oracle', 'what': 'specdrv does not build', 'detail': first_error(sb['out'])})
    # 5b. the same oracle on the release configuration of the library (no -DDEBUG: CBOR_ASSERT compiled out, -O2): behaviour that
    # depends on an assertion's side effect, or on the optimisation level, shows here
    if prop.also_release and replay is None and ctx.harness and sb['ok'] and not fails:
        try:
            hb2 = core.build_harness('asanrel')
            report['steps']['harness_build_release'] = {'ok': hb2['ok'], 'cached': hb2.get('cached'), 'tail': hb2['out'][-800:]}
            if hb2['ok']:
                dbg = ctx.harness; ev0 = ctx.evaluations
                ctx.harness = hb2['exe']
                try:
                    fails += [dict(f, why='[release build, no -DDEBUG] ' + f.get('why', '')) for f in prop.oracle(tier, ctx)]
                finally:
                    ctx.harness = dbg
                ctx.stats['release_build_evaluations'] = ctx.evaluations - ev0
            else:
                broken.append({'kind': 'harness', 'what': 'release-configuration harness does not build', 'detail': hb2['out'][-800:]})
        except Exception as ex:
            broken.append({'kind': 'oracle', 'what': 'property oracle crashed on the release build', 'detail': traceback.format_exc()[-1500:]})

    # 6. decide
    lines_out = []
    violations = 0
    known_hits = []
    seen_inputs = set()
    for f in fails:
        key = f.get('input', '')
        if key in seen_inputs: continue
        seen_inputs.add(key)
        kf = match_known(known, prop.id, f)
        if kf:
            known_hits.append(kf['id']); lines_out.append('KNOWN-FINDING: property=%s %s' % (prop.id, kf['description']))
            continue
        if violations >= 3: continue
        violations += 1
        rp = core.replay_path(prop.id, tier, 'v%d' % violations)
        core.write_json(rp, {'property': prop.id, 'tier': tier, 'seed': core.SEED, 'kind': 'failing-input', 'repo': core.REPO,
                             'failure': f, 'broken': broken[:5],
                             'replay_cmd': 'python3 check.py %s --replay %s' % (prop.id, rp)})
        lines_out.append('VIOLATION property=%s replay=%s' % (prop.id, rp))
    if broken and violations == 0 and not (fails and not violations and known_hits and not any(b['kind'] != 'correspondence' for b in broken) and False):
        rp = core.replay_path(prop.id, tier, 'broken')
        core.write_json(rp, {'property': prop.id, 'tier': tier, 'seed': core.SEED, 'kind': 'no-failing-input-found', 'repo': core.REPO,
                             'no_longer_checks': broken[:10],
                             'note': 'the theorem / correspondence named above no longer checks against the current source; '
                                     'the search over model and implementation found no concrete failing input'})
        violations += 1
        lines_out.append('VIOLATION property=%s replay=%s no-failing-input-found' % (prop.id, rp))

    wall = round(time.time() - t0, 2)
    ev = {
        'property_id': prop.id, 'tier': tier, 'seed': core.SEED, 'level': 'proof',
        'coverage': {
            'obligations': max(1, len(prop.theorems)), 'discharged': discharged,
            'checker_cmd': ' ; '.join(cmds) or 'cd lean && lake build ' + prop.module,
            'trusted_base': prop.trusted_base,
            'theorems': [{'name': t, 'axioms': au.get('axioms', {}).get(t)} for t in prop.theorems],
            'evaluations': ctx.evaluations, 'distinct_nontrivial': len(ctx.distinct),
            'rule': prop.rule, 'samples': ctx.samples or [{'note': 'no correspondence case was run'}],
            'exhaustive': bool(ctx.exhaustive) and all(ctx.exhaustive.values()),
            'exhaustive_subspaces': ctx.exhaustive,
            'input_distribution': ctx.stats,
            'generated_hashes': rg['hashes'], 'steps': {k: (v if k != 'audit' else {'ok': v['ok']}) for k, v in report['steps'].items()},
            'known_findings_hit': known_hits, 'notes': ctx.notes,
            'no_longer_checks': broken[:10],
        },
        'assumptions': prop.trusted_base,
        'wall_s': wall, 'violations': violations,
    }
    cov = ev['coverage']
    if discharged < 1:
        # schema: a proof-level record needs discharged >= 1; a run whose proof is broken reports the counts
        # under other names and falls back to the exploration-style keys (or to level 'other')
        cov['obligations_total'] = cov.pop('obligations'); cov['discharged_count'] = cov.pop('discharged')
        if cov['evaluations'] < 1 or cov['distinct_nontrivial'] < 2:
            ev['level'] = 'other'
            cov['explanation'] = 'proof obligations broken and no correspondence case could be run: ' + json.dumps(broken[:3])[:1500]
    core.write_json(os.path.join(core.EVID, prop.id + '.json'), ev)
    for l in lines_out: print(l)
    print('%s %s: obligations=%d discharged=%d evaluations=%d distinct=%d violations=%d wall=%.1fs' % (
        prop.id, tier, len(prop.theorems), discharged, ctx.evaluations, len(ctx.distinct), violations, wall))
    return 1 if violations else 0


def first_error(out):
    i = out.find('error:')
    return out[i:i + 900] if i >= 0 else out[-900:]


def match_known(known, pid, fail):
    import re
    for k in known.get('open', []):
        if k.get('property') != pid: continue
        if re.search(k['pattern'], fail.get('input', '')):
            return k
    return None

from vlib import core
from .histcheck import HistProp, HEAP_TRUST, BASE_TRUST
from . import hist


class C04(HistProp):
    id = 'C04'
    also_release = True
    module = 'Cbor.Props.C04'
    extra_modules = ['Cbor.Lemmas.Acyclic']
    theorems = ['Props.C04.C04_nothing_left\'', 'Props.C04.C04_acyclic_run', 'Props.C04.C04_acyclic_run_from_init', 'Heap.acyclic_step', 'Props.C04.C04_step', 'Props.C04.C04_run', 'Props.C04.C04_run_from_init', 'Props.C04.C04_no_dangling', 'Props.C04.C04_all_released', 'Props.C04.C04_pos_run', 'Props.C04.C04_nothing_left',
                'Heap.decref_counts', 'Heap.copy_counts_all', 'Heap.load_counts', 'Heap.arrReplace_counts', 'Heap.mapAdd_counts', 'Heap.tagSet_counts']
    trusted_base = BASE_TRUST + HEAP_TRUST + [
        'C04_run covers every operation of the history language incl. cbor_copy (all clean-up paths, any allocator oracle) and cbor_load (tree laid out by Heap.build); '
        'C04_nothing_left assumes acyclic containers (a client obligation in the property); positivity of live counts is an invariant theorem (C04_pos_run)',
    ]
    rule = ('histories over the public API generated with a shadow ownership graph: new/build of every type, push / push-with-move / set / replace / get, '
            'map add, add chunk, tag set (incl. re-tagging) / get / build, copy, incref, decref, shared sub-items in several containers; every history ends '
            'with the client dropping all references (live blocks must be 0); exhaustive for all histories of length <= 3 (4 thorough) over a 3-slot pool, '
            'random of length 60-200 beyond; copy / load / build-tag scenarios re-run refusing allocator request k alone and k and all later, for every k; non-trivial = any API call; distinct by (operation, result line)')

    def histories(self, tier, rng):
        hs = hist.exhaustive(4 if tier == 'thorough' else 3)
        n = 6000 if tier == 'thorough' else 150
        for i in range(n):
            hs.append(hist.history(rng, 200 if i % 4 == 0 else 60))
        # rule-following histories in which the allocator refuses a growth request: the failed insertion must not disturb any count
        from .C12 import refused_growth_histories
        hs += refused_growth_histories()
        # cbor_copy / cbor_load / tag building under every single-fault and fail-stop schedule, then the client drops everything: whatever a
        # clean-up path did with the counts, nothing may remain allocated (the scenarios of C06, judged here by the end state only)
        # loads refused at the nesting limit (one level too deep, every opener kind), and accepted just below it, then everything dropped
        for opener in (b'\x81', b'\xc2', b'\x9f', b'\xa1\x00', b'\xbf\x00'):
            for d in (2048, 2049):
                l = ['HRESET', 'H load 0 ' + (opener * d + b'\x00').hex(), 'H drop 0']
                hs.append((l, [None] * len(l)))
        from .C06 import C06
        for l, e in C06().histories(tier, core.Rng('C04-faulted')):
            if any(x.startswith(('H copy', 'H load', 'H btag')) for x in l): hs.append((l, e))
        return hs

    def judge(self, lines, outs, expect):
        last = outs[-1] if outs else ''
        if 'live=0' not in last:
            return (len(lines) - 1, 'the client dropped every reference but the allocator still has live blocks: ' + last)
        return None


    def oracle(self, tier, ctx):
        from .common import mapkv_check
        return super().oracle(tier, ctx) + mapkv_check(ctx)

    def replay(self, ctx, rp):
        if rp['failure']['input'].startswith('MAPKV '):
            from .common import mapkv_check
            return [f for f in mapkv_check(ctx) if f['input'] == rp['failure']['input']]
        return super().replay(ctx, rp)


PROP = C04()

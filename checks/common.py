"""generators shared by several properties"""
from vlib import core

U64 = 2 ** 64


def boundary_u64():
    s = set()
    for i in range(65):
        for d in (-2, -1, 0, 1, 2):
            v = (1 << i) + d
            if 0 <= v < U64: s.add(v)
    for v in (0, 1, 2, 3, 23, 24, 25, 255, 256, 65535, 65536, 2 ** 32 - 1, 2 ** 32, U64 - 1, U64 - 2, 48, 16, 8):
        s.add(v)
    return sorted(s)


def boundary_small():
    return [0, 1, 2, 3, 7, 8, 15, 16, 17, 23, 24, 25, 31, 32, 47, 48, 49, 255, 256]


BASE_TRUST = [
    'Lean 4.33.0 kernel (leanchecker re-check in the thorough tier); axioms allowed: propext, Quot.sound, Classical.choice',
    'no sorry/admit/native_decide/bv_decide/own axioms (audited every run)',
    'translator extract/c2lean.py + clang-14 AST (validated every run by differential execution against the compiled C)',
    'platform: LP64, 8-bit bytes, two\'s complement, little-endian branch of the code, IEEE-754 floats',
]

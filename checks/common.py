"""generators shared by several properties"""
from vlib import core

U64 = 2 ** 64


def boundary_u64():
    s = set()
    for i in range(65):
        for d in (-2, -1, 0, 1, 2):
            v = (1 << i) + d
            if 0 <= v < U64: s.add(v)
    for v in (0, 1, 2, 3, 23, 24, 25, 255, 256, 65535, 65536, 2 ** 32 - 1, 2 ** 32, U64 - 1, U64 - 2, 48, 16, 8):
        s.add(v)
    return sorted(s)


def boundary_small():
    return [0, 1, 2, 3, 7, 8, 15, 16, 17, 23, 24, 25, 31, 32, 47, 48, 49, 255, 256]


BASE_TRUST = [
    'Lean 4.33.0 kernel (leanchecker re-check in the thorough tier); axioms allowed: propext, Quot.sound, Classical.choice',
    'no sorry/admit/native_decide/bv_decide/own axioms (audited every run)',
    'translator extract/c2lean.py + clang-14 AST (validated every run by differential execution against the compiled C)',
    'platform: LP64, 8-bit bytes, two\'s complement, little-endian branch of the code, IEEE-754 floats',
]


def mapkv_lines(tier='quick'):
    """maps assembled with the two halves of cbor_map_add used separately: any pair, not only the last, may still lack its value when the map is released"""
    import itertools
    pats = set()
    for n in range(1, 6 if tier == 'thorough' else 5):
        for units in itertools.product(('k', 'kv'), repeat=n): pats.add(''.join(units))
    pats |= {'k' * 9 + 'kv' * 3, 'kv' * 8 + 'k' + 'kv' * 8, 'k' + 'kv' * 17}
    return ['MAPKV %d %s' % (d, p) for p in sorted(pats, key=lambda x: (len(x), x)) for d in (0, 1)]


def mapkv_check(ctx, env=None):
    """C-only: sizes as assembled, and once the map is released no block obtained for it, its keys or its values remains"""
    lines = mapkv_lines()
    out, rc, err = core.run_lines(ctx.harness, lines, env=env)
    if rc != 0:
        i, l, e = core.first_crash_line(ctx.harness, lines, env=env)
        return [{'input': l, 'expected': 'a result', 'observed': 'implementation aborted', 'why': e[-800:]}]
    fails = []
    for l, o in zip(lines, out):
        ctx.count(l, o); ctx.bump('MAPKV')
        pat = l.split()[2]; nk = pat.count('k'); nv = pat.count('v')
        exp = 'size=%d novalue=%d' % (nk, nk - nv)
        if not o.startswith(exp + ' before=') or not o.endswith(' after=0'):
            fails.append({'input': l, 'expected': exp + ' before=<n> after=0', 'observed': o,
                          'why': 'a map whose pairs were added key first, value later: wrong size, or blocks obtained from the allocator remain after the map was released'})
    return fails

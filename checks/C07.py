from vlib.flow import Prop
from vlib import core
from .common import BASE_TRUST
from . import gen, trees
from .C10 import INT_ENC, BYTE_ENC, ref_bytes

SER_TRUST = [
    'hand-written value-level model of cbor_serialize / cbor_serialized_size / cbor_serialize_alloc (lean/Cbor/Model/Serialize.lean; heads written by the '
    'generated Gen.cbor_encode_*, sizes by the generated Gen._cbor_safe_signaling_add / Gen._cbor_encoded_header_size), tied to the C code by the '
    'SER / SERA correspondence: same tree, every n; compared: return value, all n buffer bytes, size, allocator requests',
    'Spec.encode is my reading of RFC 8949 section 3 (lean/Cbor/Spec/Item.lean); cross-checked every run against an independent Python encoder',
    'out-of-bounds writes of the real code are observed by AddressSanitizer on exactly-sized heap blocks (n = 0: pointer one past a 1-byte block)',
]


class C07(Prop):
    id = 'C07'
    also_release = True
    module = 'Cbor.Props.C07'
    extra_modules = ['Cbor.Props.LeafSerializers']      # cbor_serialized_size on leaves: the GENERATED function (Gen/Serializers.lean) = Model.size = encoded length
    theorems = ['Props.LeafSerializers.leaf_size_eq', 'Props.LeafSerializers.leaf_size_spec', 'Props.C07.C07_serialize', 'Props.C07.C07_size', 'Props.C07.C07_size_overflow', 'Props.C07.C07_alloc', 'Props.C07.C07_alloc_overflow',
                'Props.C07.C07_encoders', 'Props.C07.encoder_frame', 'Props.C07.C07_encoders_safe', 'Lemmas.Ser.ser_item', 'Lemmas.Ser.size_spec']
    trusted_base = BASE_TRUST + SER_TRUST
    rule = ('(item, n): every tree of the C03 corpus (all leaf kinds x boundary values, indefinite strings, nested containers to depth 4, partially '
            'filled and shared members, counts/lengths at 255/256/65535/65536) x every n in 0..size+2 (size <= 48) or n in {0,1,size-2..size+2, 3 random}; '
            'serialize_alloc under allocator schedules {none, first request refused}; (encoder, value, n): all public encoders x boundary values x n in 0..10; '
            'non-trivial = n within 2 of the size or a failing size; distinct by (op, tree/encoder, n, result)')

    def trees(self, tier, rng):
        return trees.corpus(tier, rng, assigned_only=False)

    def ser_lines(self, tier, rng):
        lines = []
        for t in self.trees(tier, rng):
            s = len(trees.enc(t)); f = trees.fmt(t)
            if s <= 48: ns = range(0, s + 3)
            else: ns = sorted({0, 1, s - 2, s - 1, s, s + 1, s + 2, rng.below(s), rng.below(s), s - 1 - rng.below(min(s - 1, 12))})
            if s > 5000 and tier != 'thorough': ns = [s - 1, s, s + 1]
            for n in ns: lines.append('SER %s %d' % (f, n))
            lines.append('SERA %s' % f)
            if s <= 600: lines.append('SERA %s 1 0' % f)
        return lines

    def enc_lines(self, tier, rng):
        lines = []
        for fn, (mt, rule, bits) in INT_ENC.items():
            vals = [v for v in trees.BOUND + [22, 25, 254, 257, 2 ** 31, 2 ** 63] if v < 2 ** bits]
            for v in vals:
                for n in range(11): lines.append('ENC %s %d %d' % (fn, v, n))
        for fn in BYTE_ENC:
            for n in range(11): lines.append('ENC %s 0 %d' % (fn, n))
        for b in (0, 1):
            for n in range(11): lines.append('ENC bool %d %d' % (b, n))
        for fn, vals in (('half', [gen.half_to_f32bits(h) for h in trees.HALVES] + [0x7fc00001, 0xffc00000]),
                         ('single', [0, 0x3f800000, 0x7fc00001, 0xffc00000, 0x7f800001]),
                         ('double', [0, 0x3ff0000000000000, 0x7ff8000000000001, 0xfff8000000000000, 0x7ff0000000000001])):
            for v in vals:
                for n in range(11): lines.append('ENC %s %d %d' % (fn, v, n))
        return lines

    def odd_half_lines(self):
        lines = []
        for b in trees.ODD_HALF_BITS:
            for f, size in (('h(%d)' % b, 3), ('h!(%d)' % b, 3), ('A[u8(1),h(%d),u8(2)]' % b, 6), ('G(1,h(%d))' % b, 4)):
                for n in range(0, size + 2): lines.append('SER %s %d' % (f, n))
        return lines

    def corr_lines(self, tier, rng):
        return self.ser_lines(tier, rng) + self.enc_lines(tier, rng) + self.odd_half_lines()

    def nontrivial(self, line, out):
        return True

    def judge_ser(self, t, line, out):
        e = trees.enc(t); s = len(e); w = line.split(); n = int(w[2])
        ow = out.split()
        if ow[0] == 'bad-tree': return 'harness could not build the tree'
        ret = int(ow[0]); buf = bytes.fromhex(ow[1]) if ow[1] != '-' else b''
        kv = dict(x.split('=', 1) for x in ow[2:])
        if int(kv['size']) != s: return 'cbor_serialized_size = %s, the encoding has %d bytes' % (kv['size'], s)
        if n >= s:
            if ret != s: return 'returned %d with n = %d >= size %d' % (ret, n, s)
            if buf[:s] != e: return 'bytes written differ from the RFC 8949 encoding'
            if buf[s:] != b'\xee' * (n - s): return 'bytes beyond the reported length were modified'
        else:
            if ret != 0: return 'returned %d with n = %d < size %d' % (ret, n, s)
        if len(buf) != n: return 'harness buffer length'
        if kv.get('noalloc') != '1': return 'cbor_serialize called the allocator'
        if kv.get('unchanged') != '1': return 'cbor_serialize modified the item'
        return None

    def judge_sera(self, t, line, out):
        e = trees.enc(t); s = len(e); w = line.split()
        fail = len(w) >= 4 and w[2] == '1'
        ow = out.split()
        if ow[0] == 'bad-tree': return 'harness could not build the tree'
        kv = dict(x.split('=', 1) for x in ow[3:])
        if kv.get('reqs') != '1' or kv.get('reqsize') != str(s): return 'serialize_alloc must request exactly one block of %d bytes (%s)' % (s, out[-60:])
        if fail:
            if ow[0] != '0' or ow[1] != '0' or ow[2] != 'null' or kv.get('live') != '0': return 'refused allocation must give 0 / NULL / size 0 and leave nothing allocated'
            return None
        if int(ow[0]) != s or int(ow[1]) != s: return 'returned %s, buffer_size %s, size is %d' % (ow[0], ow[1], s)
        if bytes.fromhex(ow[2]) != e: return 'buffer does not hold the encoding'
        if kv.get('live') != '1': return 'live blocks after serialize_alloc: ' + str(kv.get('live'))
        return None

    def judge_enc(self, line, out):
        w = line.split(); fn, v, n = w[1], int(w[2]), int(w[3])
        if fn == 'half': exp = trees.enc(('h', v))
        elif fn == 'single': exp = trees.enc(('s', v))
        elif fn == 'double': exp = trees.enc(('d', v))
        else: exp = ref_bytes(fn, v)
        ow = out.split(); ret = int(ow[0]); buf = bytes.fromhex(ow[1]) if ow[1] != '-' else b''
        if n >= len(exp):
            if ret != len(exp): return 'returned %d, head has %d bytes and n = %d' % (ret, len(exp), n)
            if buf[:ret] != exp: return 'wrote %s, expected %s' % (buf[:ret].hex(), exp.hex())
            if buf[ret:] != b'\xaa' * (n - ret): return 'bytes beyond the reported length were modified'
        else:
            if ret != 0: return 'returned %d although n = %d < %d' % (ret, n, len(exp))
            if buf != b'\xaa' * n: return 'returned 0 but modified the buffer: ' + buf.hex()
        return None

    def oracle(self, tier, ctx):
        rng = core.Rng(self.id)       # the same trees as the correspondence
        ts = self.trees(tier, rng)
        by_fmt = {trees.fmt(t): t for t in ts}
        rng = core.Rng(self.id)
        lines = self.ser_lines(tier, rng) + self.enc_lines(tier, rng)
        out, rc, err = core.run_parallel(ctx.harness, lines, jobs=8) if len(lines) > 20000 else ctx.run_c(lines)
        if rc != 0:
            i, l, e = core.first_crash_line(ctx.harness, lines)
            return [{'input': l, 'expected': 'a result', 'observed': 'implementation aborted / sanitizer report (rc=%d)' % rc, 'why': e[-1000:]}]
        # Spec.encode against the independent Python encoder (keeps the oracle honest)
        fs = list(by_fmt)
        sp, _, _ = ctx.run_spec(['ENCODE ' + f for f in fs])
        fails = []
        for f, so in zip(fs, sp):
            if so.split()[0] != gen.hexs(trees.enc(by_fmt[f])):
                ctx.notes.append('Spec.encode and the Python reference encoder disagree on ' + f[:200])
                fails.append({'input': 'ENCODE ' + f, 'expected': gen.hexs(trees.enc(by_fmt[f])), 'observed': so, 'why': 'oracle self-check: the two reference encoders disagree'})
        for l, o in zip(lines, out):
            ctx.count(l, o)
            w = l.split()
            ctx.bump(w[0])
            try:
                if w[0] == 'SER': why = self.judge_ser(by_fmt[w[1]], l, o)
                elif w[0] == 'SERA': why = self.judge_sera(by_fmt[w[1]], l, o)
                else: why = self.judge_enc(l, o)
            except Exception as ex:
                why = 'unparseable output %r: %r' % (o[:100], ex)
            if why: fails.append({'input': l, 'expected': 'see why', 'observed': o[:400], 'why': why})
        # half-width items holding values no half denotes: three bytes all the same - size and return value agree at every n, nothing beyond n is written
        ol = self.odd_half_lines()
        oo, rc, err = ctx.run_c(ol)
        if rc != 0:
            i, l, e = core.first_crash_line(ctx.harness, ol)
            return fails + [{'input': l, 'expected': 'a result', 'observed': 'implementation aborted / sanitizer report', 'why': e[-1000:]}]
        for l, o in zip(ol, oo):
            ctx.count(l, o); ctx.bump('odd_half')
            w = l.split(); n = int(w[2]); f = w[1]
            size = 3 if f[0] == 'h' else 6 if f[0] == 'A' else 4
            ow = o.split(); ret = int(ow[0]); buf = bytes.fromhex(ow[1]) if ow[1] != '-' else b''
            why = None
            if 'size=%d ' % size not in o + ' ': why = 'cbor_serialized_size is not %d' % size
            elif ret != (size if n >= size else 0): why = 'returned %d with n=%d, size %d' % (ret, n, size)
            elif buf[ret:] != b'\xee' * (len(buf) - ret) and ret: why = 'bytes beyond the reported length were modified'
            elif 'unchanged=1' not in o or 'noalloc=1' not in o or 'DIFFERS' in o: why = 'the item was modified / memory requested / the type-specific serializer disagrees'
            if why: fails.append({'input': l, 'expected': 'ret = %d if n >= %d else 0; size=%d' % (size, size, size), 'observed': o[:300], 'why': why})
        ctx.exhaustive['n_0_to_size_plus_2_for_small_trees'] = True
        ctx.exhaustive['encoders_n_0_to_10'] = True
        return fails[:20]

    def replay(self, ctx, rp):
        l = rp['failure']['input']; w = l.split()
        out, rc, err = ctx.run_c([l])
        if rc != 0: return [dict(rp['failure'], observed='implementation aborted')]
        if w[0] == 'ENC': why = self.judge_enc(l, out[0])
        else:
            sp, _, _ = ctx.run_spec(['ENCODE ' + w[1]])
            e = bytes.fromhex(sp[0].split()[0]) if sp and sp[0].split()[0] != '-' else b''
            t = ('b', b'')  # judge against the Spec bytes
            saved = trees.enc
            try:
                trees.enc = lambda _t: e
                why = self.judge_ser(t, l, out[0]) if w[0] == 'SER' else self.judge_sera(t, l, out[0])
            finally:
                trees.enc = saved
        return [dict(rp['failure'], observed=out[0][:400], why=why)] if why else []


PROP = C07()

from vlib.flow import Prop
from vlib import core
from .common import BASE_TRUST
from .C02 import MODEL_TRUST
from . import gen, dec


class C14(Prop):
    id = 'C14'
    module = 'Cbor.Props.C14'
    extra_modules = ['Cbor.Lemmas.Sequence']
    theorems = ['Props.C14.C14_sequence', 'Props.C14.C14_sequence_fuel', 'Props.C14.C14_sequence_encoded', 'Props.C14.C14_suffix', 'Props.C14.C14_two', 'Lemmas.Local.run_suffix', 'Lemmas.Refine.load_eq']
    trusted_base = BASE_TRUST + MODEL_TRUST
    rule = ('pairs (x, y): x an enumerated well-formed item in an exactly-sized block, y in {empty, every single byte (sampled), other items, garbage, several hundred bytes of further items / of break bytes}; text strings with invalid UTF-8 content followed by every single byte; a dictionary of 29 meaningful continuations (byte-order marks, self-described-CBOR tag, reserved heads, breaks, truncated heads, huge lengths) after every short item; '
            'and concatenations of up to 6 items split by repeated decoding; sequences of 6000 items (all kinds; containers and tags only) decoded in one process; non-trivial = y non-empty; distinct by (x, y, outcome)')

    def pairs(self, tier, rng):
        _, wf, _, _ = dec.corpus(tier, rng, rounds=1 if tier == 'quick' else 3)
        wf = wf + [gen.head(4, 65537) + b'\x01' * 65537, gen.head(5, 32769) + b'\x01\x02' * 32769, gen.head(4, 300) + b'\x00' * 300]
        out = []
        for x in wf:
            if len(x) > 4096:
                out += [(x, b''), (x, b'\x00'), (x, b'\x01\x02')]; continue
            ys = [b'', b'\xff', b'\x00', bytes([rng.below(256)]), bytes(rng.below(256) for _ in range(1 + rng.below(6))), rng.choice(wf[:200])]
            if tier == 'thorough': ys += [bytes([v]) for v in range(0, 256, 5)]
            for y in ys: out.append((x, y))
        # long continuations: what follows x is hundreds of bytes of further items (a decoder that looks ahead, or takes a different path when
        # much input remains, shows here); every kind of x head, incl. strings with 1- and 2-byte length heads
        tail = b''.join(w for w in wf[:400] if len(w) <= 12)[:600]
        for x in wf[:: (2 if tier == 'thorough' else 5)]:
            if len(x) <= 300: out.append((x, tail)); out.append((x, b'\xff' * 300))
        # a dictionary of continuations that mean something to SOME decoder or text routine (byte-order marks, the self-described-CBOR tag, replacement
        # character, reserved heads, breaks, NULs, a huge declared length) after every short item (up to 12 bytes) and after one item in four beyond
        DICT = [b'\xef\xbb\xbf', b'\xef\xbb\xbfabc', b'\xfe\xff', b'\xff\xfe', b'\xff\xff', b'\xd9\xd9\xf7', b'\xef\xbf\xbd', b'\x1c', b'\x1f\x00', b'\x00\x00\x00\x00',
                b'\x5b' + b'\xff' * 8, b'\x7b' + b'\xff' * 8 + b'a', b'\x9b' + b'\xff' * 8, b'\xf8\x00', b'\xf8\xff', b'\xc0', b'\xdb' + b'\xff' * 8, b'\x80\x80\x80', b'\xc3\xa9', b'\xe2\x82',
                b'\xf0\x9f\x98\x80', b'\xed\xa0\x80', b'\x7f', b'\x5f', b'\x9f', b'\xbf', b'\x1b', b'\xf9\x7e', b'\xfb' + b'\x00' * 7]
        for i, x in enumerate(wf):
            if len(x) <= 12 or (len(x) <= 300 and i % 4 == 0):
                for y in DICT: out.append((x, y))
        # text whose content is not valid UTF-8 (decoding must not depend on it), followed by bytes that would continue a UTF-8 sequence, look
        # like a container head, a break, more payload ...
        bad = [b'\x62\x61\xc3', b'\x61\xc3', b'\x63\x61\xe2\x82', b'\x64\xf0\x9f\x98\x61', b'\x61\x80', b'\x78\x18' + b'a' * 23 + b'\xc3', b'\x7f\x61\xc3\xff',
               b'\x82\x61\xc3\x01', b'\xa1\x61\xe2\x00']
        wf = wf + [b for b in bad if b not in wf]
        for x in bad:
            for v in range(256): out.append((x, bytes([v])))
            out.append((x, b'\x82\x01\x02')); out.append((x, b'\xa9\x00')); out.append((x, tail))
        return wf, out

    def corr_lines(self, tier, rng):
        wf, ps = self.pairs(tier, rng)
        return ['LOAD ' + gen.hexs(x + y) + ' 0 0 %d' % dec.HUGE for x, y in ps if len(x) <= 4096]

    def nontrivial(self, line, out): return True

    def oracle(self, tier, ctx):
        rng = core.Rng('C14-oracle')
        wf, ps = self.pairs(tier, rng)
        l1 = ['LOAD ' + gen.hexs(x) + ' 0 0 %d' % dec.HUGE for x in wf]
        o1, rc, err = ctx.run_c(l1)
        alone = dict(zip(wf, o1))
        l2 = ['LOAD ' + gen.hexs(x + y) + ' 0 0 %d' % dec.HUGE for x, y in ps]
        o2, rc2, err2 = ctx.run_c(l2)
        fails = []
        if rc or rc2:
            i, l, e = core.first_crash_line(ctx.harness, l1 + l2)
            return [{'input': l, 'expected': 'a result', 'observed': 'implementation aborted', 'why': e[-600:]}]
        for (x, y), l, o in zip(ps, l2, o2):
            ctx.count(l, o); ctx.bump('y_len_%d' % min(len(y), 8))
            a = dec.parse_load(alone[x]); b = dec.parse_load(o)
            if not a.get('ok'):
                fails.append({'input': 'LOAD ' + gen.hexs(x), 'expected': 'enumerated well-formed item accepted', 'observed': alone[x], 'why': 'well-formed x rejected'}); continue
            if not b.get('ok') or b['tree'] != a['tree'] or b['read'] != a['read']:
                fails.append({'input': l, 'expected': 'tree %s read %s (as for x alone)' % (a['tree'], a['read']), 'observed': o,
                              'why': 'decoding x followed by y differs from decoding x alone'})
        # x at the front of a window of several GiB (what follows are zero bytes = further items): same tree, same read
        big = [x for x in wf if 1 <= len(x) <= 40][:: (3 if tier == 'thorough' else 17)][:60]
        totals = [2 ** 31 - 1, 2 ** 31, 2 ** 31 + 1, 2 ** 31 + 2, 5 * 2 ** 29, 3 * 2 ** 30, 2 ** 32 - 1, 2 ** 32, 2 ** 32 + 1, 2 ** 32 + 7, 13 * 2 ** 29, 2 ** 33 + 3]
        bl = ['LOADBIG %s %d' % (gen.hexs(x), t + (len(x) if i % 2 else 0)) for i, x in enumerate(big) for t in totals]
        bo, rcb, errb = ctx.run_c(bl)
        if rcb != 0:
            i, l, e = core.first_crash_line(ctx.harness, bl)
            fails.append({'input': l, 'expected': 'a result', 'observed': 'implementation aborted', 'why': e[-600:]})
        else:
            k = 0
            for x in big:
                a = dec.parse_load(alone[x])
                for t in totals:
                    l, o = bl[k], bo[k]; k += 1
                    ctx.count(l, o); ctx.bump('window_GiB')
                    if o == 'no-map': continue
                    exp = 'OK %s read=%s' % (a['tree'], a['read']) if a.get('ok') else None
                    if exp and o != exp:
                        fails.append({'input': l, 'expected': exp[:300], 'observed': o[:300], 'why': 'decoding x at the front of a large window differs from decoding x alone'})
        # sequences: split a concatenation of up to 6 items by repeated decoding at the advanced offset
        for _ in range(400 if tier == 'thorough' else 60):
            items = [rng.choice(wf[:200]) for _ in range(1 + rng.below(6))]
            buf = b''.join(items); off = 0; got = []
            while off < len(buf) and len(got) <= len(items) + 1:
                o, rc, _ = ctx.run_c(['LOAD ' + gen.hexs(buf[off:]) + ' 0 0 %d' % dec.HUGE])
                r = dec.parse_load(o[0]); ctx.count('SEQ ' + gen.hexs(buf[off:]), o[0])
                if not r.get('ok'): break
                got.append(int(r['read'])); off += int(r['read'])
            if got != [len(i) for i in items] or off != len(buf):
                fails.append({'input': 'LOAD ' + gen.hexs(buf) + ' 0 0 %d' % dec.HUGE, 'expected': 'items of lengths %s' % [len(i) for i in items],
                              'observed': 'lengths %s, stopped at %d of %d' % (got, off, len(buf)), 'why': 'a concatenation of items does not split into exactly those items'})
        # long sequences decoded in ONE process (state that survives between calls would show here): thousands of items of every kind
        def fnv(lens):
            h = 1469598103934665603
            for n in lens: h = ((h ^ n) * 1099511628211) % 2 ** 64
            return h
        small = [x for x in wf if len(x) <= 40]
        maps = [x for x in small if x and (x[0] >> 5) in (4, 5, 6)] or small
        for n in ((6000, 9000) if tier == 'thorough' else (6000,)):
            dmaps = [x for x in small if x and 0xa1 <= x[0] <= 0xbb] or maps
            for pool in (small, maps, dmaps):
                items = [rng.choice(pool) for _ in range(n)]
                buf = b''.join(items)
                l = 'LOADSEQ ' + gen.hexs(buf)
                o, rc, e = ctx.run_c([l])
                ctx.count(l[:200], o[0] if o else ''); ctx.bump('long_sequences')
                exp = 'OK items=%d end=%d digest=%016x live=0' % (n, len(buf), fnv([len(i) for i in items]))
                if rc != 0 or not o or o[0] != exp:
                    fails.append({'input': l, 'expected': exp, 'observed': (o[0] if o else 'implementation aborted') + (e[-300:] if rc else ''),
                                  'why': 'a concatenation of %d items decoded in one process does not split into exactly those items' % n})
        return fails[:20]

    def replay(self, ctx, rp):
        l = rp['failure']['input']
        o, rc, _ = ctx.run_c([l])
        exp = rp['failure']['expected']
        if l.startswith('LOADBIG'):
            return [dict(rp['failure'], observed=o[0] if o else 'abort')] if rc != 0 or not o or o[0] != exp else []
        if l.startswith('LOADSEQ'):
            return [dict(rp['failure'], observed=o[0] if o else 'abort')] if rc != 0 or not o or o[0] != exp else []
        if rc != 0: return [dict(rp['failure'], observed='implementation aborted')]
        import re
        m = re.match(r'tree (\S+) read (\d+)', exp)
        r = dec.parse_load(o[0])
        if m and (not r.get('ok') or r['tree'] != m.group(1) or r['read'] != m.group(2)): return [dict(rp['failure'], observed=o[0])]
        return []


PROP = C14()

from vlib.flow import Prop
from vlib import core
from .common import BASE_TRUST
from . import gen, trees, dec, acc3
from .C07 import SER_TRUST


class C03(Prop):
    id = 'C03'
    also_release = True
    module = 'Cbor.Props.C03'
    extra_modules = ['Cbor.Props.LeafSerializers']      # the leaf cases of Model.serialize as theorems about GENERATED code (lean/Cbor/Gen/Serializers.lean)
    theorems = ['Props.LeafSerializers.' + t for t in acc3.SER_THEOREMS] + ['Props.C03.C03_bytes', 'Props.C03.C03_deterministic', 'Props.C03.int_width', 'Props.C03.shortest_heads', 'Props.C03.head_shortest',
                'Props.C03.indefinite_shape', 'Props.C03.members_in_order', 'Props.C03.nan_canonical', 'Lemmas.Ser.ser_item',
                'Props.C03.C03_decode_encode', 'Props.C03.C03_roundtrip', 'Spec.RT.decode_encode', 'Lemmas.RoundTrip.encode_renorm']
    trusted_base = BASE_TRUST + SER_TRUST + [
        'Props.LeafSerializers: cbor_serialize_uint / _negint / _float_ctrl, the definite branch of cbor_serialize_bytestring / _string and the leaf cases of '
        'cbor_serialized_size are GENERATED (Gen/Serializers.lean) and proved equal to the hand model on every represented leaf; assumed: the output buffer does not overlap '
        'the item or its payload (value semantics; overlapping memcpy would be UB anyway), memcpy = C.copyBytes (lean/Cbor/PreludeMem.lean), item->data == NULL is not '
        'distinguished from an empty payload; the string serializers / cbor_serialized_size are translated under stated assumptions (definite; not ARRAY / MAP / TAG) that '
        'are conjuncts of the generated .ok; compared with the compiled functions on real constructor-built items by the ACC lines of every run',
        'round trip: a theorem (Spec.RT.decode_encode, lifted through load_eq: C03_roundtrip) for canonical trees below 2^56 encoded bytes with the non-refusing allocator '
        'oracle; additionally evaluated by the specification driver on every tree of the corpus, and the implementation and the model are compared on serialize -> load -> serialize (ROUND)']
    rule = ('trees: every leaf kind x boundary value (0,23,24,255,256,65535,65536,2^32-1,2^32,2^64-1), empty and multi-chunk indefinite strings, '
            'all container kinds nested to depth 4 (5 thorough) with partially filled definite containers and shared members, counts/lengths at '
            '255/256/65535/65536, a 40-deep chain; plus every tree the decoder returns for the enumerated well-formed inputs of C02; '
            'non-trivial = tree with more than one node; distinct by (tree, result)')

    def trees(self, tier, rng):
        return trees.corpus(tier, rng, assigned_only=True)

    def load_inputs(self, tier, rng):
        wf = []
        for r in range(3 if tier == 'thorough' else 1): wf += gen.wellformed(tier, rng)
        seen = set(); out = []
        for e in wf:
            if e[0] not in seen: seen.add(e[0]); out.append(e[0])
        return out

    def corr_lines(self, tier, rng):
        # the list-based load model is quadratic in the members of one container: big trees go through the Spec oracle (and C07's SER) only
        lines = ['ROUND ' + trees.fmt(t) for t in self.trees(tier, rng) if len(trees.enc(t)) <= 4096]
        lines += ['LOAD ' + gen.hexs(b) + ' 0 0 %d' % dec.HUGE for b in self.load_inputs(tier, rng)]
        lines += acc3.ser_lines(tier, core.Rng('C03-acc'))          # generated leaf serializers vs the compiled ones (ACC)
        return lines

    def nontrivial(self, line, out):
        return any(c in line for c in '[G')

    def oracle(self, tier, ctx):
        rng = core.Rng(self.id)
        ts = self.trees(tier, rng)
        bufs = self.load_inputs(tier, rng)
        lines = ['ROUND ' + trees.fmt(t) for t in ts]
        out, rc, err = ctx.run_c(lines)
        if rc != 0:
            i, l, e = core.first_crash_line(ctx.harness, lines)
            return [{'input': l, 'expected': 'a result', 'observed': 'implementation aborted / sanitizer report (rc=%d)' % rc, 'why': e[-1000:]}]
        sp_enc, _, _ = ctx.run_spec(['ENCODE ' + trees.fmt(t) for t in ts])
        encs = [so.split()[0] for so in sp_enc]
        sp_dec, _, _ = ctx.run_spec(['DECODE 1 2048 ' + e for e in encs])
        fails = []
        for t, l, o, e, d in zip(ts, lines, out, encs, sp_dec):
            ctx.count(l, o); ctx.bump('kind_' + t[0]); ctx.bump('depth_%d' % trees.depth(t))
            why = None
            pe = gen.hexs(trees.enc(t))
            want = 'OK %s %d' % (trees.plain(trees.norm(t)), len(trees.enc(t)))
            if e != pe: why = 'oracle self-check: Spec.encode %s, Python reference %s' % (e[:80], pe[:80])
            elif d != want: why = 'oracle self-check: Spec.decode (Spec.encode t) = %s, expected %s' % (d[:120], want[:120])
            else:
                w = o.split()
                kv = dict(x.split('=', 1) for x in w[1:] if '=' in x)
                if w[0] != e: why = 'bytes written differ from the RFC 8949 encoding the tree determines'
                elif kv.get('reload', '').startswith('ERR'): why = 'its own output does not load: ' + kv['reload']
                elif kv.get('reload') != trees.plain(trees.norm(t)): why = 'reloaded tree differs from the original'
                elif kv.get('read') != str(len(trees.enc(t))): why = 'reload consumed %s of %d bytes' % (kv.get('read'), len(trees.enc(t)))
                elif 'again==' not in w: why = 'serializing the reloaded tree gives different bytes'
            if why: fails.append({'input': l, 'expected': e[:400], 'observed': o[:400], 'why': why})
        # trees the decoder returns: serialize(load(b)) must be Spec.encode of that tree
        llines = ['LOAD ' + gen.hexs(b) + ' 0 0 %d' % dec.HUGE for b in bufs]
        lout, rc, err = ctx.run_c(llines)
        if rc != 0:
            i, l, e = core.first_crash_line(ctx.harness, llines)
            return fails + [{'input': l, 'expected': 'a result', 'observed': 'implementation aborted', 'why': e[-1000:]}]
        oks = [(b, l, o, dec.parse_load(o)) for b, l, o in zip(bufs, llines, lout)]
        oks = [x for x in oks if x[3]['ok']]
        sp, _, _ = ctx.run_spec(['ENCODE ' + x[3]['tree'] for x in oks])
        for (b, l, o, c), so in zip(oks, sp):
            ctx.count(l, o); ctx.bump('decoder_trees')
            exp = so.split()[0]
            if 'ser' not in c and ' ser==' not in o: continue
            got = gen.hexs(b[:int(c['read'])]) if ' ser==' in o else c['ser'].split(':', 1)[1]
            got = got or '-'
            if got != exp:
                fails.append({'input': l, 'expected': exp[:400], 'observed': o[:400], 'why': 'serialization of the decoded tree differs from the encoding the tree determines'})
        fails += acc3.oracle(ctx, tier)          # the type-specific leaf serializers on constructor-built items vs the RFC 8949 bytes (Python)
        return fails[:20]

    def replay(self, ctx, rp):
        l = rp['failure']['input']
        if l.startswith('ACC '):
            out, rc, _ = ctx.run_c([l])
            if rc != 0 or not out: return [dict(rp['failure'], observed='implementation aborted')]
            e = acc3.ser_expect(l)
            return [dict(rp['failure'], observed=out[0][:400])] if e is not None and out[0] != e else []
        if l.startswith('LOAD'):
            out, rc, _ = ctx.run_c([l])
            if rc != 0: return [dict(rp['failure'], observed='implementation aborted')]
            c = dec.parse_load(out[0])
            if not c['ok']: return []
            sp, _, _ = ctx.run_spec(['ENCODE ' + c['tree']])
            b = bytes.fromhex(l.split()[1])
            got = gen.hexs(b[:int(c['read'])]) if ' ser==' in out[0] else c.get('ser', ':').split(':', 1)[1]
            return [dict(rp['failure'], observed=out[0][:400])] if got != sp[0].split()[0] else []
        out, rc, _ = ctx.run_c([l])
        if rc != 0: return [dict(rp['failure'], observed='implementation aborted')]
        f = l.split()[1]
        sp, _, _ = ctx.run_spec(['ENCODE ' + f]); e = sp[0].split()[0]
        d, _, _ = ctx.run_spec(['DECODE 1 2048 ' + e])
        w = out[0].split(); kv = dict(x.split('=', 1) for x in w[1:] if '=' in x)
        dw = d[0].split()
        bad = w[0] != e or dw[0] != 'OK' or kv.get('reload') != dw[1] or kv.get('read') != dw[2] or 'again==' not in w
        return [dict(rp['failure'], observed=out[0][:400])] if bad else []


PROP = C03()

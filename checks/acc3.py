"""ACC lines for the leaf serializers (generated model lean/Cbor/Gen/Serializers.lean vs the compiled library), used by C03, plus an
independent expectation for each line computed here (the RFC 8949 bytes, Python only), so that a change of the source shows as a concrete
failing input even when the regenerated model follows the changed code.

    ACC <fn> <kind> <value> <n>      kind: u8 u16 u32 u64 n8 n16 n32 n64 ctrl f2 f4 f8 (value decimal; floats: IEEE-754 bit pattern)
                                           bs ts (value = hex bytes or -);   n = size of the output buffer (prefilled with 0xAA)
    ->  <return value> <the n bytes afterwards> ok=1          fn = cbor_serialized_size:  <return value> - ok=1
"""
import struct
from . import gen, trees, acc2

FN_OF = {'u': 'cbor_serialize_uint', 'n': 'cbor_serialize_negint', 'c': 'cbor_serialize_float_ctrl', 'f': 'cbor_serialize_float_ctrl',
         'b': 'cbor_serialize_bytestring', 't': 'cbor_serialize_string'}
SER_ALL = sorted(set(FN_OF.values())) + ['cbor_serialized_size']
SER_THEOREMS = ['rep_exists', 'rep_leaf', 'copyBytes_eq', 'serialize_uint_eq', 'serialize_negint_eq', 'serialize_simple_eq', 'serialize_half_eq',
                'serialize_single_eq', 'serialize_double_eq', 'serialize_bytestring_eq', 'serialize_string_eq',
                'serialize_uint_ok', 'serialize_negint_ok', 'serialize_simple_ok', 'serialize_half_ok', 'serialize_single_ok', 'serialize_double_ok',
                'serialize_bytestring_ok', 'serialize_string_ok', 'leaf_serialize_eq', 'leaf_serialize_ok', 'rep_valid', 'leaf_bytes',
                'leaf_too_small', 'readonly_serializers']
SIZE_THEOREMS = ['leaf_size_eq', 'leaf_size_spec']

# half-representable and not half-representable singles, for the f2 lines (a half item stores a binary32 value; cbor_encode_half narrows it)
HALFISH = [0x00000000, 0x80000000, 0x3f800000, 0xbf800000, 0x3fc00000, 0x477fe000, 0x38800000, 0x33800000, 0x387fc000, 0x33000000, 0x33000001,
           0x477ff000, 0x47800000, 0x7f800000, 0xff800000, 0x7fc00000, 0xffc00000, 0x7f800001, 0x7fc12345, 0xffffffff, 0x3f801000, 0x3f800fff,
           0x00000001, 0x007fffff, 0x00800000, 0x7f7fffff, 0x38000000, 0x37800000, 0x3f802000]


def half_exact(bits):
    """binary16 pattern of a binary32 value that a half represents EXACTLY (or of a NaN: canonical); None if the value is not half-representable
    (libcbor then narrows with its own rounding rule, which RFC 8949 does not determine: such lines are compared model-vs-implementation only)"""
    if trees.is_nan32(bits): return 0x7e00
    f = struct.unpack('>f', struct.pack('>I', bits))[0]
    try:
        h = struct.pack('>e', f)
    except OverflowError:
        return None
    back = struct.unpack('>I', struct.pack('>f', struct.unpack('>e', h)[0]))[0]
    return struct.unpack('>H', h)[0] if back == bits else None


def enc_of(kind, v):
    """the RFC 8949 bytes the item determines (independent of the Lean side); None: not determined (half item holding a non-half value)"""
    if kind[0] in 'un':
        w = int(kind[1:]); mt = 0 if kind[0] == 'u' else 1
        return gen.head(mt, v, (v if v < 24 else 24) if w == 8 else {16: 25, 32: 26, 64: 27}[w])
    if kind == 'ctrl': return gen.head(7, v, v if v < 24 else 24)
    if kind == 'f2':
        h = half_exact(v)
        return None if h is None else b'\xf9' + struct.pack('>H', h)
    if kind == 'f4': return b'\xfa' + struct.pack('>I', 0x7fc00000 if trees.is_nan32(v) else v)
    if kind == 'f8': return b'\xfb' + struct.pack('>Q', 0x7ff8000000000000 if trees.is_nan64(v) else v)
    if kind in ('bs', 'ts'): return gen.head(2 if kind == 'bs' else 3, len(v)) + v
    raise ValueError(kind)


def head_len(kind, v):
    return len(gen.head(2, len(v))) if kind in ('bs', 'ts') else (3 if kind == 'f2' else len(enc_of(kind, v)))


def line(fn, kind, v, n):
    return 'ACC %s %s %s %d' % (fn, kind, (v.hex() or '-') if isinstance(v, bytes) else str(v), n)


def items(tier, rng):
    """(kind, value) pairs: every width x boundary values; every ctrl value; float patterns at each width; strings of the boundary lengths"""
    out = []
    for w in (8, 16, 32, 64):
        top = 2 ** w
        vs = {0, 1, 23, 24, 25, 255, 256, 65535, 65536, 2 ** 32 - 1, 2 ** 32, top - 1, top - 2, top // 2, top // 2 - 1}
        if tier == 'thorough': vs |= {rng.next() % top for _ in range(40)}
        for v in sorted(x for x in vs if x < top):
            out.append(('u%d' % w, v)); out.append(('n%d' % w, v))
    for v in range(256): out.append(('ctrl', v))
    r32 = [rng.next() & 0xffffffff for _ in range(200 if tier == 'thorough' else 8)]
    r64 = [rng.next() for _ in range(200 if tier == 'thorough' else 8)]
    for b in HALFISH + acc2.B32[:10]: out.append(('f2', b))
    for b in acc2.B32 + r32: out.append(('f4', b))
    for b in acc2.B64 + r64: out.append(('f8', b))
    for n in (0, 1, 23, 24, 255, 256) + ((65535, 65536) if tier == 'thorough' else ()):
        body = bytes((i * 7 + 1) & 0xff for i in range(n))
        out.append(('bs', body))
        out.append(('ts', bytes(0x61 + (i % 26) for i in range(n))))
    out.append(('ts', 'héllo€\U0001F600'.encode()))
    out.append(('ts', bytes.fromhex('c3')))              # invalid UTF-8: serialized as is
    out.append(('bs', bytes.fromhex('00ff00ff')))
    return out


def ser_lines(tier, rng):
    L = []
    for kind, v in items(tier, rng):
        fn = FN_OF['f' if kind[0] == 'f' else kind[0]]
        hl = head_len(kind, v); need = hl + (len(v) if kind in ('bs', 'ts') else 0)
        ns = {0, need - 1, need, need + 3}
        if kind == 'ctrl' and v not in (0, 19, 20, 21, 22, 23, 24, 31, 32, 255): ns = {need - 1, need}
        if kind in ('bs', 'ts'): ns |= {1, hl - 1, hl, hl + 1, need - 2, need + 1}
        for n in sorted(x for x in ns if x >= 0): L.append(line(fn, kind, v, n))
        L.append(line('cbor_serialized_size', kind, v, 0))
    return L


def parse(l):
    w = l.split()
    kind = w[2]
    v = (bytes.fromhex(w[3]) if w[3] != '-' else b'') if kind in ('bs', 'ts') else int(w[3])
    return w[1], kind, v, int(w[4])


def ser_expect(l):
    fn, kind, v, n = parse(l)
    e = enc_of(kind, v)
    if e is None: return None
    if fn == 'cbor_serialized_size': return '%d - ok=1' % len(e)
    if len(e) <= n:
        buf = e + b'\xaa' * (n - len(e)); r = len(e)
    else:
        # does not fit: 0; integers / floats / simple values write nothing (the encoders test the size first); a string whose head fits
        # has the head written and the payload not
        hl = head_len(kind, v)
        wrote = e[:hl] if kind in ('bs', 'ts') and hl <= n else b''
        buf = wrote + b'\xaa' * (n - len(wrote)); r = 0
    return '%d %s ok=1' % (r, buf.hex() or '-')


def oracle(ctx, tier):
    from vlib import core
    return acc2.oracle(ctx, ser_lines(tier, core.Rng('C03-acc')), ser_expect,
                       'leaf serializer: return value / bytes written differ from the RFC 8949 encoding the item determines (independent Python expectation)')

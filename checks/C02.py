from vlib.flow import Prop
from vlib import core
from .common import BASE_TRUST
from . import gen, dec

MODEL_TRUST = [
    'hand-written value-level model of cbor_load / builder callbacks / decoding stack (lean/Cbor/Model/Builder.lean), tied to the C code by the '
    'LOAD correspondence (same inputs, same allocator schedules; compared: outcome, tree, code, position, read, number of allocator requests, live blocks)',
    'Spec.decode is my reading of RFC 8949 section 3 / Appendix C (recursive-descent reference decoder, lean/Cbor/Spec/Decode.lean)',
    'heap-level facts of the returned tree (every node refcount 1, definite containers filled, no pointer into the input) are checked on the '
    'implementation by the harness (input block overwritten and freed before the tree is walked), not proved',
]


class C02(Prop):
    id = 'C02'
    also_release = True
    module = 'Cbor.Props.C02'
    extra_modules = ['Cbor.Props.HeapLoad']
    theorems = ['Props.HeapLoad.loaded_tree_owned', 'Props.HeapLoad.hload_result', 'HB.hload_refines', 'Props.C02.C02_load_iff', 'Props.C02.C02_load_eq', 'Props.C02.C02_tokenise', 'Props.C02.C02_read_bounds',
                'Lemmas.Refine.load_eq', 'Lemmas.Fund.abs_decode_eq', 'Lemmas.sd_spec']
    trusted_base = BASE_TRUST + MODEL_TRUST
    rule = ('all byte strings of length <= 2, enumerated well-formed items of every shape (major type x argument width x definite/indefinite x '
            'nesting position), every single-edit neighbour (truncation at each offset, head overwrite, break insert/delete, count inflate/deflate, '
            'chunk-type swap), structurally biased random strings of length 3-4; non-trivial = more than one head; distinct by (input, outcome)')

    def inputs(self, tier, rng):
        bufs, wf, nb, rnd = dec.corpus(tier, rng)
        return bufs + wf + nb + rnd

    def corr_lines(self, tier, rng):
        # the list-based model is quadratic in the number of members of one container: very large containers go through
        # the Spec oracle only (the reference decoder is linear)
        return ['LOAD ' + gen.hexs(b) + ' 0 0 %d' % dec.HUGE for b in self.inputs(tier, rng) if len(b) <= 4096]

    def nontrivial(self, line, out):
        return len(line.split()[1]) > 2

    def oracle(self, tier, ctx):
        rng = core.Rng(self.id + '-oracle')
        fails = dec.run(ctx, self.inputs(tier, rng))
        ctx.exhaustive['strings_up_to_2_bytes'] = True
        return fails[:20]

    def replay(self, ctx, rp):
        l = rp['failure']['input']; w = l.split()
        b = bytes.fromhex(w[1]) if w[1] != '-' else b''
        return dec.run(ctx, [b])


PROP = C02()

import struct
from vlib.flow import Prop
from vlib import core
from .common import BASE_TRUST
from . import gen


def tokenise(b):
    """independent RFC 8949 tokeniser: the event texts of the complete stream b (stops at an incomplete head / payload or a reserved initial byte)"""
    ev = []; p = 0; n = len(b)
    W = {24: 1, 25: 2, 26: 4, 27: 8}
    while p < n:
        ib = b[p]; mt, ai = ib >> 5, ib & 31
        if mt == 7:
            if ai in (20, 21): ev.append('boolean ' + ('true' if ai == 21 else 'false')); p += 1; continue
            if ai == 22: ev.append('null'); p += 1; continue
            if ai == 23: ev.append('undefined'); p += 1; continue
            if ai == 31: ev.append('indef_break'); p += 1; continue
            if ai in (25, 26, 27):
                k = W[ai]
                if p + 1 + k > n: break
                raw = b[p + 1:p + 1 + k]
                if ai == 25: ev.append('float2 %d' % gen.half_to_f32bits(int.from_bytes(raw, 'big')))
                elif ai == 26: ev.append('float4 %d' % int.from_bytes(raw, 'big'))
                else: ev.append('float8 %d' % int.from_bytes(raw, 'big'))
                p += 1 + k; continue
            break
        if ai < 24: v = ai; hl = 1; w = 8
        elif ai in W:
            k = W[ai]
            if p + 1 + k > n: break
            v = int.from_bytes(b[p + 1:p + 1 + k], 'big'); hl = 1 + k; w = 8 * k
        elif ai == 31:
            name = {2: 'byte_string_start', 3: 'string_start', 4: 'indef_array_start', 5: 'indef_map_start'}.get(mt)
            if name is None: break
            ev.append(name); p += 1; continue
        else: break
        if mt == 0: ev.append('uint%d %d' % (w, v))
        elif mt == 1: ev.append('negint%d %d' % (w, v))
        elif mt in (2, 3):
            if p + hl + v > n: break
            ev.append('%s %d %d' % ('byte_string' if mt == 2 else 'string', p + hl, v)); p += hl + v; continue
        elif mt == 4: ev.append('array_start %d' % v)
        elif mt == 5: ev.append('map_start %d' % v)
        else: ev.append('tag %d' % v)
        p += hl
    return ev


def pending_len(b, p):
    """full encoded length (head + payload of a definite string) of the item head at offset p, from the bytes that are there; None if it cannot be
    determined yet from fewer bytes than the head (then any request up to the head length is in range: return the head length)"""
    W = {24: 1, 25: 2, 26: 4, 27: 8}
    if p >= len(b): return 1
    ib = b[p]; mt, ai = ib >> 5, ib & 31
    k = W.get(ai, 0)
    hl = 1 + k
    if mt in (2, 3) and ai != 31:
        if ai < 24: return hl + ai
        if p + hl > len(b): return hl          # length bytes not all there: the decoder can only ask for the head
        return hl + int.from_bytes(b[p + 1:p + hl], 'big')
    return hl


class C09(Prop):
    id = 'C09'
    module = 'Cbor.Props.C09'
    theorems = ['Props.C09.C09_fragments', 'Props.C09.C09_from_start', 'Props.C09.C09_same_events', 'Props.C09.C09_equals_one_shot', 'Props.C09.C09_wait_bounds', 'Props.C09.waitFor_spec',
                'Spec.decodeHead_need_le', 'Spec.decodeHead_error_stable', 'Lemmas.sd_spec']
    trusted_base = BASE_TRUST + [
        'the client loop (lean/Cbor/Model/StreamClient.lean) is hand-written: it is the protocol the property describes, run against the generated decoder; the harness runs the '
        'same loop in C against the real decoder (FRAG), each call on an exactly-sized copy of the buffered window so that a read beyond the arrived bytes is an ASan report',
        'the theorem relates events to tokens through tokMatch (the event denotes the token at its offset); NaN payloads of half floats are compared as decoded bits',
    ]
    rule = ('streams: concatenations of 1-4 enumerated well-formed items, raw head sequences, streams ending inside an item, streams with a reserved byte; fragmentations: every single '
            'cut point, byte-at-a-time, nothing-buffered start, random cuts (3 per stream, 12 thorough); reference: independent Python tokeniser; non-trivial = stream with at least '
            '2 tokens and at least one cut; distinct by (stream, fragmentation, events)')

    def streams(self, tier, rng):
        wf = [e[0] for e in gen.wellformed('quick', rng)]
        small = [b for b in wf if len(b) <= 24]
        out = []
        for i in range(2000 if tier == 'thorough' else 120):
            k = 1 + rng.below(4)
            out.append(b''.join(rng.choice(small) for _ in range(k)))
        for b in small[:: (1 if tier == 'thorough' else 6)]: out.append(b)
        # streams that end inside an item / contain a reserved byte
        for i in range(60):
            s = rng.choice(small) + rng.choice(small)
            out.append(s[:max(1, len(s) - 1 - rng.below(3))])
            out.append(rng.choice(small) + bytes([rng.choice(gen.RESERVED)]) + rng.choice(small))
        for v in (2 ** 64 - 1, 2 ** 64 - 2, 2 ** 64 - 8, 2 ** 64 - 9, 2 ** 64 - 10, 2 ** 63, 2 ** 32):
            for mt in (2, 3):
                h = gen.head(mt, v, 27)
                out += [h, h + b'abc', b'\x01' + h + b'abcdefghij', h[:5]]
        for d in range(0, 12):
            for mt in (2, 3):
                h = gen.head(mt, 2 ** 64 - 1 - d, 27)
                out += [h, b'\x01\x82\x02\x03' + h, h + b'x', b'\x18\x2a' + h + b'xyz']
        for v in (2 ** 32 - 1, 2 ** 32 - 2, 2 ** 32 - 4, 2 ** 32 - 5):
            for mt in (2, 3):
                h = gen.head(mt, v, 26)
                out += [h, b'\x01' + h + b'abcdef', h + b'ab']
        out += [b'', b'\x18', b'\x5a\x00\x00\x00\x05abcde\x01', b'\xfb' + b'\x00' * 8 + b'\xf9\x7e\x00\xfa\x7f\xc0\x00\x01', b'\x78\x18' + b'a' * 24 + b'\xff\xff']
        seen = set(); u = []
        for s in out:
            if s not in seen: seen.add(s); u.append(s)
        return u

    def cases(self, tier, rng):
        cs = []
        for s in self.streams(tier, rng):
            n = len(s); h = gen.hexs(s)
            cs.append((s, 'FRAG %s %d -' % (h, n)))
            if n == 0: continue
            if n <= 40 or tier == 'thorough':
                for k in range(0, n): cs.append((s, 'FRAG %s %d %d' % (h, k, n - k)))
            cs.append((s, 'FRAG %s 0 %s' % (h, ','.join(['1'] * n))))
            for _ in range(12 if tier == 'thorough' else 3):
                cuts = []; left = n; first = rng.below(min(n, 4) + 1); left -= first
                while left > 0:
                    a = 1 + rng.below(min(left, 9)); cuts.append(a); left -= a
                cs.append((s, 'FRAG %s %d %s' % (h, first, ','.join(map(str, cuts)) or '-')))
        return cs

    def corr_lines(self, tier, rng):
        return [l for _, l in self.cases(tier, rng)]

    def nontrivial(self, line, out):
        return out.split(' ', 1)[0] not in ('0', '1') and not line.endswith(' -')

    def oracle(self, tier, ctx):
        rng = core.Rng(self.id)
        cs = self.cases(tier, rng)
        lines = [l for _, l in cs]
        out, rc, err = ctx.run_c(lines)
        if rc != 0:
            i, l, e = core.first_crash_line(ctx.harness, lines)
            return [{'input': l, 'expected': 'a result', 'observed': 'implementation aborted / sanitizer report (rc=%d)' % rc, 'why': e[-1000:]}]
        fails = []
        for (s, l), o in zip(cs, out):
            ctx.count(l, o); ctx.bump('len_%d' % min(len(s), 32))
            ev = tokenise(s)
            exp = '%d %s' % (len(ev), ';'.join(ev) if ev else 'none')
            if o != exp: fails.append({'input': l, 'expected': exp[:400], 'observed': o[:400], 'why': 'events received through this fragmentation differ from the tokenisation of the complete stream'})
        # every wait: strictly more than is buffered, never more than the pending item occupies
        wl = ['FRAGW' + l[4:] for _, l in cs]
        wo, rc, err = ctx.run_c(wl)
        for (s, _), l, o in zip(cs, wl, wo):
            ctx.bump('waits', 0 if o == 'none' else len(o.split()))
            if o == 'none': continue
            for w in o.split():
                p, req, buf = (int(x) for x in w.split(':'))
                full = pending_len(s, p)
                # the head may itself be incomplete: then the decoder may ask for the head first
                W = {24: 1, 25: 2, 26: 4, 27: 8}
                hl = 1 + W.get(s[p] & 31, 0) if p < len(s) else 1
                ok = buf < req <= min(max(full, hl), 2 ** 64 - 1) or (buf < hl and req == hl)
                if not ok:
                    fails.append({'input': l, 'expected': 'buffered %d < required <= %d (what the pending item at offset %d occupies)' % (buf, min(full, 2 ** 64 - 1), p),
                                  'observed': 'wait %s (offset:required:buffered)' % w, 'why': 'a wait does not ask for strictly more than is buffered, or asks for more than the pending item occupies'})
                    break
        return fails[:20]

    def replay(self, ctx, rp):
        l = rp['failure']['input']; s = bytes.fromhex(l.split()[1]) if l.split()[1] != '-' else b''
        if l.startswith('FRAGW'):
            out, rc, _ = ctx.run_c([l])
            for w in (out[0].split() if out and out[0] != 'none' else []):
                p, req, buf = (int(x) for x in w.split(':'))
                full = pending_len(s, p); hl = 1 + {24: 1, 25: 2, 26: 4, 27: 8}.get(s[p] & 31, 0) if p < len(s) else 1
                if not (buf < req <= min(max(full, hl), 2 ** 64 - 1) or (buf < hl and req == hl)): return [dict(rp['failure'], observed='wait ' + w)]
            return [dict(rp['failure'], observed='abort')] if rc != 0 else []
        out, rc, _ = ctx.run_c([l])
        ev = tokenise(s); exp = '%d %s' % (len(ev), ';'.join(ev) if ev else 'none')
        if rc != 0 or out[0] != exp: return [dict(rp['failure'], observed=(out[0] if out else 'abort')[:400])]
        return []


PROP = C09()

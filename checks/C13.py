from vlib import core
from .histcheck import HistProp, HEAP_TRUST, BASE_TRUST, split_histories
from . import hist, gen, trees, dec

CENSUS_TRUST = [
    'effect census extract/effects.py over clang-14 JSON ASTs of every translation unit under src/ (call expressions, assignments through pointers, '
    'file-scope variables, static locals), regenerated on every run into lean/Cbor/Gen/Effects.lean; calls through function pointers other than the '
    'allocator hooks appear as "(indirect)" (only the client callbacks of the streaming decoder)',
]


class C13(HistProp):
    id = 'C13'
    module = 'Cbor.Props.C13'
    theorems = ['Props.C13.C13_no_libc_heap_call', 'Props.C13.C13_hooks_assigned_once', 'Props.C13.C13_allocates_nothing', 'Props.C13.C13_hook_callers', 'Props.C13.C13_no_indirect_bypass']
    trusted_base = BASE_TRUST + CENSUS_TRUST + [
        'that every block released was obtained from the installed allocator, is live, and is released once is observed at run time: tagging allocator '
        '(hidden header with live/dead magic: a foreign or repeated free / realloc aborts), arena allocator with no libc backing (a stray libc free/realloc of an arena '
        'pointer is fatal in glibc), and a forbid-all mode around the operations that must not allocate',
    ]
    rule = ('the API histories of C04 (exhaustive short + random long) and decoder / serializer operations on the C01/C03 inputs, each run under the tagging allocator, under the '
            'arena allocator (outputs must be identical and nothing may abort) and after replacing a previously installed triple that shares one or two hooks with the final one (a call to a replaced hook is fatal); every streaming-decode, encode, UTF-8, arithmetic operation runs with allocator requests forbidden; '
            'fixed-buffer serialization and size computation are checked for zero requests; copy / load / build-tag scenarios under every single-fault and fail-stop schedule followed by releasing everything (live blocks must be 0); non-trivial = any operation; distinct by (operation, result)')

    def histories(self, tier, rng):
        hs = hist.exhaustive(3)
        for i in range(400 if tier == 'thorough' else 60): hs.append(hist.history(rng, 120))
        # copy / load / build-tag under every single-fault and fail-stop schedule, then everything is released: every block obtained must have gone back
        # through the installed free (a block that is never handed back, or handed back behind the allocator's back, shows as live != 0 or an abort)
        from .C06 import C06
        for l, e in C06().histories(tier, core.Rng('C13-faulted')):
            if any(x.startswith(('H copy', 'H load', 'H btag')) for x in l): hs.append((l, e))
        return hs

    def judge(self, lines, outs, expect):
        last = outs[-1] if outs else ''
        if lines and lines[-1].startswith('H drop') and 'live=0' not in last:
            return (len(lines) - 1, 'everything was released but blocks obtained from the installed allocator were never handed back to it: ' + last)
        return None

    def value_lines(self, tier, rng, oversize=False):
        bufs, wf, nb, rnd = dec.corpus('quick', rng, rounds=1)
        ins = [b for b in wf + nb[:: (1 if tier == 'thorough' else 7)] + bufs[:300] if len(b) <= 300]
        lines = ['LOAD ' + gen.hexs(b) + ' 0 0 %d' % dec.HUGE for b in ins]
        # nesting one level beyond the decoder's limit (every opener kind): the load is refused, everything obtained on the way goes back
        for opener, closer in ((b'\x81', b''), (b'\xc2', b''), (b'\x9f', b''), (b'\xa1\x00', b''), (b'\xbf\x00', b'')):
            for d in (2048, 2049, 2050):
                lines.append('LOAD %s 0 0 %d' % (gen.hexs(opener * d + b'\x00'), dec.HUGE))
        # every block obtained during a load that is then refused must still go back through the installed free: single-fault schedules
        strs = [b for b in wf if len(b) <= 40 and any(c >> 5 in (2, 3) for c in b)]
        for b in strs[:: (1 if tier == 'thorough' else 3)]:
            for k in range(0, 8): lines.append('LOAD %s 1 %d' % (gen.hexs(b), k))
            lines.append('LOAD %s 2 2' % gen.hexs(b))
        ts = [t for t in trees.corpus('quick', rng, assigned_only=False) if len(trees.enc(t)) <= 300]
        for t in ts[:: (1 if tier == 'thorough' else 4)]:
            f = trees.fmt(t); s = len(trees.enc(t))
            lines += ['SER %s %d' % (f, s), 'SER %s %d' % (f, max(0, s - 1)), 'SERA ' + f, 'ROUND ' + f, 'RO ' + f]
        if oversize:
            # items whose encoding does not fit in size_t (implementation only; the tree syntax of the model driver has no length-only strings):
            # cbor_serialize_alloc must report 0 / NULL without asking the allocator for anything
            for sk in ('f(18446744073709551615)', 'g(18446744073709551611)', 'A[f(18446744073709551600),u8(1)]', 'A[f(18446744073709551610),u8(1)]', 'G(5,g(18446744073709551615))',
                       'a[f(9223372036854775808),f(9223372036854775808)]', 'G(1,G(2,A[g(18446744073709551614)]))'):
                lines += ['SIZES ' + sk, 'SERA ' + sk, 'SERA %s 1 0' % sk]
        for b in ins[::5]: lines.append('SD ' + gen.hexs(b))
        for fn in ('uint', 'negint', 'tag', 'array_start', 'half', 'double', 'bool', 'break'):
            for v in (0, 24, 65536, 1 << 40):
                if fn in ('bool', 'break') and v > 1: continue
                lines.append('ENC %s %d 9' % (fn, v if fn not in ('half',) else 1065353216))
        return lines

    def corr_lines(self, tier, rng):
        return super().corr_lines(tier, rng) + self.value_lines(tier, rng)

    def oracle(self, tier, ctx):
        fails = []
        envs = [('tagging', None), ('arena', {'HALLOC': 'arena'})] + [('triple replaced (swap%d)' % i, {'HALLOC': 'swap%d' % i}) for i in (1, 2, 3, 4)]
        for envname, env in envs:
            self._env = env
            fails += [dict(f, why='[%s allocator] %s' % (envname, f['why'])) for f in super().oracle(tier, ctx)]
            if fails and envname.startswith('triple'): break
        # value-level operations: identical output under both allocators, no abort, SER reports zero requests
        rng = core.Rng(self.id); self._all(tier, rng)
        lines = self.value_lines(tier, rng, oversize=True)
        outs = {}
        for envname, env in (('tagging', None), ('arena', {'HALLOC': 'arena'})):
            o, rc, err = core.run_lines(ctx.harness, lines, env=env)
            if rc != 0:
                i, l, e = core.first_crash_line(ctx.harness, lines, env=env)
                fails.append({'input': l, 'expected': 'a result', 'observed': 'aborted under the %s allocator (rc=%d)' % (envname, rc), 'why': (o[-1] if o else '') + ' ' + e[-900:]})
                return fails[:20]
            outs[envname] = o
        sizes = {}
        for l, a, b in zip(lines, outs['tagging'], outs['arena']):
            ctx.count(l, a); ctx.bump(l.split()[0])
            if a != b: fails.append({'input': l, 'expected': a[:300], 'observed': b[:300], 'why': 'result depends on which allocator is installed'})
            if l.startswith('LOAD ') and ((a.startswith('ERR') and 'live=0' not in a) or (a.startswith('OK') and 'final=0' not in a)):
                fails.append({'input': l, 'expected': 'every block obtained is handed back to the installed free', 'observed': a[:300],
                              'why': 'blocks obtained from the installed allocator were never handed to the installed free'})
            if l.startswith('SIZES '): sizes[l.split()[1]] = a
            if l.startswith('SERA ') and sizes.get(l.split()[1]) == '0' and not a.startswith('0 0 null reqs=0 reqsize=0 live=0'):
                fails.append({'input': l, 'expected': '0 0 null reqs=0 ... live=0', 'observed': a[:300], 'why': 'cbor_serialize_alloc of an item whose size does not fit asked the allocator for memory'})
            if l.startswith('SER ') and 'noalloc=1' not in a:
                fails.append({'input': l, 'expected': 'noalloc=1', 'observed': a[:300], 'why': 'fixed-buffer serialization / size computation called the allocator'})
        from .common import mapkv_check
        fails += mapkv_check(ctx) + mapkv_check(ctx, env={'HALLOC': 'arena'})
        return fails[:20]

    def env(self):
        return getattr(self, '_env', None)

    def replay(self, ctx, rp):
        l = rp['failure']['input']
        if l.startswith('HRESET'):
            out = []
            for env in (None, {'HALLOC': 'arena'}):
                self._env = env
                out += super().replay(ctx, rp)
            return out
        if l.startswith('MAPKV '):
            from .common import mapkv_check
            return [f for f in mapkv_check(ctx) if f['input'] == l]
        for env in (None, {'HALLOC': 'arena'}):
            o, rc, err = core.run_lines(ctx.harness, [l], env=env)
            if rc != 0: return [dict(rp['failure'], observed='aborted rc=%d' % rc)]
        return []


PROP = C13()

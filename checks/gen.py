"""Input generators shared by the decoder-side properties: heads, well-formed items by shape, single-edit
neighbours, random byte strings.  Every random choice comes from the Rng passed in."""
import struct

ARG_W = {24: 1, 25: 2, 26: 4, 27: 8}


def hexs(b):
    return b.hex() if b else '-'


def head(mt, v, force_ai=None):
    """shortest head for (mt, v) or with a forced additional-information code"""
    if force_ai is None:
        force_ai = v if v < 24 else 24 if v < 256 else 25 if v < 65536 else 26 if v < 2 ** 32 else 27
    if force_ai < 24: return bytes([mt * 32 + force_ai])
    return bytes([mt * 32 + force_ai]) + v.to_bytes(ARG_W[force_ai], 'big')


def arg_values(k, tier, rng):
    """argument values for a k-byte argument"""
    if k == 1: return list(range(256))
    if k == 2:
        if tier == 'thorough': return list(range(65536))
        vs = {0, 1, 23, 24, 255, 256, 257, 0x7fff, 0x8000, 0xfffe, 0xffff}
        vs |= {rng.below(65536) for _ in range(200)}
        return sorted(vs)
    top = 2 ** (8 * k)
    vs = set()
    for i in range(8 * k + 1):
        for d in (-1, 0, 1):
            x = (1 << i) + d
            if 0 <= x < top: vs.add(x)
    vs |= {0, 1, 2, 3, 8, 9, 10, 23, 24, 255, 256, 65535, 65536, top - 1, top - 2, top - 9, top - 10, top - 8}
    for _ in range(300 if tier == 'thorough' else 40): vs.add(rng.next() % top)
    return sorted(vs)


def head_buffers(tier, rng):
    """buffers probing one cbor_stream_decode call: every initial byte x every truncation 0..head+1,
    string payloads at len-1/len/len+1 of the declared length (when small), declared lengths up to 2^64-1"""
    out = []
    out.append(b'')
    for ib in range(256):
        mt, ai = ib >> 5, ib & 31
        if ai < 24 or ai > 27:
            tails = [b'', b'\x00', b'\xff\x00', bytes([rng.below(256) for _ in range(3)])]
            if mt in (2, 3) and ai < 24:
                tails = [bytes(rng.below(256) for _ in range(n)) for n in range(0, ai + 2)]
            for t in tails: out.append(bytes([ib]) + t)
            continue
        k = ARG_W[ai]
        for v in arg_values(k, tier, rng):
            full = bytes([ib]) + v.to_bytes(k, 'big')
            if mt in (2, 3):
                if v <= 40:
                    for n in sorted({0, max(0, v - 1), v, v + 1}):
                        out.append(full + bytes(rng.below(256) for _ in range(n)))
                else:
                    out.append(full); out.append(full + b'\x01\x02\x03')
            else:
                out.append(full); 
                if v in (0, 1, 255) or rng.chance(1, 16): out.append(full + b'\x00')
        # truncations of the head itself
        v = rng.next() % (2 ** (8 * k))
        full = bytes([ib]) + v.to_bytes(k, 'big')
        for n in range(1, 1 + k): out.append(full[:n])
        full = bytes([ib]) + b'\xff' * k
        for n in range(1, 1 + k): out.append(full[:n])
    return out


def half_to_f32bits(h):
    f = struct.unpack('>e', struct.pack('>H', h))[0]
    return struct.unpack('>I', struct.pack('>f', f))[0]


def is_nan32(b): return (b >> 23) & 0xff == 0xff and b & 0x7fffff != 0

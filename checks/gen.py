"""Input generators shared by the decoder-side properties: heads, well-formed items by shape, single-edit
neighbours, random byte strings.  Every random choice comes from the Rng passed in."""
import struct

ARG_W = {24: 1, 25: 2, 26: 4, 27: 8}


def hexs(b):
    return b.hex() if b else '-'


def head(mt, v, force_ai=None):
    """shortest head for (mt, v) or with a forced additional-information code"""
    if force_ai is None:
        force_ai = v if v < 24 else 24 if v < 256 else 25 if v < 65536 else 26 if v < 2 ** 32 else 27
    if force_ai < 24: return bytes([mt * 32 + force_ai])
    return bytes([mt * 32 + force_ai]) + v.to_bytes(ARG_W[force_ai], 'big')


def arg_values(k, tier, rng):
    """argument values for a k-byte argument"""
    if k == 1: return list(range(256))
    if k == 2:
        if tier == 'thorough': return list(range(65536))
        vs = {0, 1, 23, 24, 255, 256, 257, 0x7fff, 0x8000, 0xfffe, 0xffff}
        vs |= {rng.below(65536) for _ in range(200)}
        return sorted(vs)
    top = 2 ** (8 * k)
    vs = set()
    for i in range(8 * k + 1):
        for d in (-1, 0, 1):
            x = (1 << i) + d
            if 0 <= x < top: vs.add(x)
    vs |= {0, 1, 2, 3, 8, 9, 10, 23, 24, 255, 256, 65535, 65536, top - 1, top - 2, top - 9, top - 10, top - 8}
    for _ in range(3000 if tier == 'thorough' else 40): vs.add(rng.next() % top)
    return sorted(vs)


def head_buffers(tier, rng):
    """buffers probing one cbor_stream_decode call: every initial byte x every truncation 0..head+1,
    string payloads at len-1/len/len+1 of the declared length (when small), declared lengths up to 2^64-1"""
    out = []
    out.append(b'')
    for ib in range(256):
        mt, ai = ib >> 5, ib & 31
        if ai < 24 or ai > 27:
            tails = [b'', b'\x00', b'\xff\x00', bytes([rng.below(256) for _ in range(3)])]
            if mt in (2, 3) and ai < 24:
                tails = [bytes(rng.below(256) for _ in range(n)) for n in range(0, ai + 2)]
            for t in tails: out.append(bytes([ib]) + t)
            # what follows a complete one-byte head must not matter: the same byte again after every such head, and every possible follower after the
            # indefinite starts, the break and one head of each major type
            out.append(bytes([ib, ib])); out.append(bytes([ib, ib, ib]))
            if ib in (0x5f, 0x7f, 0x9f, 0xbf, 0xff, 0x00, 0x20, 0x40, 0x60, 0x80, 0xa0, 0xc0, 0xf4, 0xf5, 0xf6, 0xf7):
                for v in range(256): out.append(bytes([ib, v]))
            continue
        k = ARG_W[ai]
        for v in arg_values(k, tier, rng):
            full = bytes([ib]) + v.to_bytes(k, 'big')
            if mt in (2, 3):
                if v <= 40:
                    for n in sorted({0, max(0, v - 1), v, v + 1}):
                        out.append(full + bytes(rng.below(256) for _ in range(n)))
                else:
                    out.append(full); out.append(full + b'\x01\x02\x03')
            else:
                out.append(full); 
                if v in (0, 1, 255) or rng.chance(1, 16): out.append(full + b'\x00')
        # truncations of the head itself
        v = rng.next() % (2 ** (8 * k))
        full = bytes([ib]) + v.to_bytes(k, 'big')
        for n in range(1, 1 + k): out.append(full[:n])
        full = bytes([ib]) + b'\xff' * k
        for n in range(1, 1 + k): out.append(full[:n])
        # declared string lengths within a few bytes of 2^64 with some payload present: head + payload length is at / just below / beyond SIZE_MAX
        if k == 8 and mt in (2, 3):
            for d in range(0, 36):
                for n in (1, 2, 3, 9, 17):
                    if tier == 'thorough' or (d + n) % 3 == 0 or d in (9, 10, 11, 12) :
                        out.append(bytes([ib]) + (2 ** 64 - 1 - d).to_bytes(8, 'big') + bytes(range(1, n + 1)))
    return out


def half_to_f32bits(h):
    f = struct.unpack('>e', struct.pack('>H', h))[0]
    return struct.unpack('>I', struct.pack('>f', f))[0]


def is_nan32(b): return (b >> 23) & 0xff == 0xff and b & 0x7fffff != 0


# ---------------------------------------------------------------------------------------------------
# grammar-directed enumeration of well-formed items (as encodings) and their single-edit neighbours
# an "enc" is (bytes, [offsets of item heads within bytes])

def _cat(parts):
    b = b''; offs = []
    for pb, po in parts:
        offs += [len(b) + o for o in po]; b += pb
    return b, offs


def leaf_items():
    """one-head items: every major type x every argument width (lengths small so that payloads are present)"""
    out = []
    for mt in (0, 1):
        for ai, v in ((0, 0), (23, 23), (24, 24), (24, 255), (25, 256), (25, 65535), (26, 65536), (26, 2 ** 32 - 1), (27, 2 ** 32), (27, 2 ** 64 - 1), (24, 0), (27, 1)):
            out.append((head(mt, v, ai), [0]))
    for mt in (2, 3):
        for ai, n in ((0, 0), (1, 1), (3, 3), (24, 0), (24, 2), (25, 1), (26, 2), (27, 1), (23, 23), (24, 24)):
            payload = (b'abcdefghijklmnopqrstuvwxyz' if mt == 3 else bytes(range(1, 27)))[:n]
            out.append((head(mt, n, ai) + payload, [0]))
        out.append((head(3, 2) + b'\xc3\xa9', [0])); out.append((head(3, 2) + b'\xc3\x28', [0]))
    for ai, n in ((0, 0), (24, 0), (25, 0), (26, 0), (27, 0)):
        out.append((head(4, n, ai), [0])); out.append((head(5, n, ai), [0]))
    for b in (0xf4, 0xf5, 0xf6, 0xf7):
        out.append((bytes([b]), [0]))
    out += [(b'\xf9\x3c\x00', [0]), (b'\xf9\x7e\x00', [0]), (b'\xf9\xfc\x00', [0]), (b'\xf9\x00\x01', [0]),
            (b'\xfa\x3f\x80\x00\x00', [0]), (b'\xfa\x7f\xc0\x00\x01', [0]),
            (b'\xfb\x3f\xf0\x00\x00\x00\x00\x00\x00', [0]), (b'\xfb\xff\xf8\x00\x00\x00\x00\x00\x01', [0])]
    return out


def wrap_all(children_pool, rng, tier):
    """containers of every kind around children drawn from the pool"""
    out = []
    few = children_pool
    def pick(): return rng.choice(few)
    for n in (1, 2, 3):
        for ai in ((n, 24, 25) if n == 1 else (n, 24)) + ((26, 27) if n == 2 else ()):
            kids = [pick() for _ in range(n)]
            out.append(_cat([(head(4, n, ai), [0])] + kids))
            kv = [pick() for _ in range(2 * n)]
            out.append(_cat([(head(5, n, ai), [0])] + kv))
    for n in (0, 1, 2, 3):
        kids = [pick() for _ in range(n)]
        out.append(_cat([(b'\x9f', [0])] + kids + [(b'\xff', [0])]))
        kv = [pick() for _ in range(2 * n)]
        out.append(_cat([(b'\xbf', [0])] + kv + [(b'\xff', [0])]))
    for t, ai in ((0, 0), (1, 1), (24, 24), (255, 24), (256, 25), (65536, 26), (2 ** 32, 27), (2 ** 64 - 1, 27), (2, 27)):
        out.append(_cat([(head(6, t, ai), [0]), pick()]))
    for mt, start in ((2, 0x5f), (3, 0x7f)):
        for n in (0, 1, 2, 3, 5):
            chunks = []
            for _ in range(n):
                ln = rng.below(4)
                chunks.append((head(mt, ln, rng.choice([ln, 24, 25])) + bytes(65 + rng.below(26) for _ in range(ln)), [0]))
            out.append(_cat([(bytes([start]), [0])] + chunks + [(b'\xff', [0])]))
    return out


def wellformed(tier, rng):
    """encodings of well-formed items by shape, nesting up to 3 (4 in thorough)"""
    L0 = leaf_items()
    L1 = wrap_all(L0, rng, tier)
    pool = L0 + L1
    L2 = wrap_all(pool, rng, tier)
    pool2 = pool + L2
    L3 = wrap_all(pool2, rng, tier)
    out = L0 + L1 + L2 + L3
    if tier == 'thorough':
        out += wrap_all(pool2 + L3, rng, tier) + wrap_all(L1, rng, tier) + wrap_all(L2, rng, tier)
    return out


RESERVED = [0x1c, 0x1f, 0x3c, 0x3f, 0x5c, 0x5e, 0x7c, 0x7e, 0x9c, 0xbc, 0xdc, 0xdf, 0xe0, 0xf3, 0xf8, 0xfc, 0xfe]
OTHER = [0x00, 0x17, 0x18, 0x20, 0x40, 0x41, 0x5f, 0x60, 0x7f, 0x80, 0x81, 0x9f, 0xa0, 0xa1, 0xbf, 0xc0, 0xf4, 0xf6, 0xf9, 0xff]


def neighbours(enc, rng, tier):
    """single-edit corruptions of one encoding: truncation at each offset, head overwrite, break insert/delete,
    count/length inflate/deflate, chunk-type swap"""
    b, offs = enc
    out = []
    for n in range(len(b)): out.append(b[:n])
    for o in offs:
        for v in (RESERVED if tier == 'thorough' else [rng.choice(RESERVED), rng.choice(RESERVED)]) + [rng.choice(OTHER), rng.choice(OTHER)]:
            out.append(b[:o] + bytes([v]) + b[o + 1:])
        out.append(b[:o] + b'\xff' + b[o:])              # insert a break before this head
        out.append(b[:o] + b[o + 1:])                    # delete the initial byte
        ib = b[o]; mt, ai = ib >> 5, ib & 31
        if ai < 23: out.append(b[:o] + bytes([ib + 1]) + b[o + 1:])      # inflate an immediate count/length/value
        if 0 < ai < 24: out.append(b[:o] + bytes([ib - 1]) + b[o + 1:])  # deflate
        if mt in (2, 3): out.append(b[:o] + bytes([ib ^ 0x20]) + b[o + 1:])  # swap string type (chunk type mismatch)
    for i, c in enumerate(b):
        if c == 0xff: out.append(b[:i] + b[i + 1:])      # delete a break
    out.append(b + b'\xff')
    return out

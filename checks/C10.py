from vlib.flow import Prop
from vlib import core
from .common import BASE_TRUST
from . import gen
import struct

# encoder -> (major type, fixed additional information or None for shortest / 'ai8' for the 8-bit rule, value bits)
INT_ENC = {
    'uint8': (0, 'ai8', 8), 'uint16': (0, 25, 16), 'uint32': (0, 26, 32), 'uint64': (0, 27, 64), 'uint': (0, None, 64),
    'negint8': (1, 'ai8', 8), 'negint16': (1, 25, 16), 'negint32': (1, 26, 32), 'negint64': (1, 27, 64), 'negint': (1, None, 64),
    'bytestring_start': (2, None, 64), 'string_start': (3, None, 64), 'array_start': (4, None, 64), 'map_start': (5, None, 64),
    'tag': (6, None, 64), 'ctrl': (7, 'ai8', 8)}
BYTE_ENC = {'indef_bytestring_start': (0x5F, 'byte_string_start'), 'indef_string_start': (0x7F, 'string_start'),
            'indef_array_start': (0x9F, 'indef_array_start'), 'indef_map_start': (0xBF, 'indef_map_start'),
            'break': (0xFF, 'indef_break'), 'null': (0xF6, 'null'), 'undef': (0xF7, 'undefined')}
EVNAME = {0: 'uint', 1: 'negint'}


def ref_bytes(fn, v):
    """independent reference: RFC 8949 head for encoder fn and value v"""
    if fn in INT_ENC:
        mt, rule, _ = INT_ENC[fn]
        if rule == 'ai8': return gen.head(mt, v, v if v < 24 else 24)
        return gen.head(mt, v, rule)
    if fn in BYTE_ENC: return bytes([BYTE_ENC[fn][0]])
    if fn == 'bool': return bytes([0xF5 if v else 0xF4])
    raise KeyError(fn)


def ref_event(fn, v, b):
    """expected callback when the bytes b are decoded (None: not decodable -> ERROR; 'payload': needs payload)"""
    if fn in INT_ENC:
        mt, _, _ = INT_ENC[fn]
        ai = b[0] & 31
        w = {24: 8, 25: 16, 26: 32, 27: 64}.get(ai, 8)
        if mt in (0, 1): return '%s%d %d' % (EVNAME[mt], w, v)
        if mt in (2, 3): return 'payload'
        if mt == 4: return 'array_start %d' % v
        if mt == 5: return 'map_start %d' % v
        if mt == 6: return 'tag %d' % v
        if mt == 7:
            return {20: 'boolean false', 21: 'boolean true', 22: 'null', 23: 'undefined'}.get(v)
    if fn in BYTE_ENC: return BYTE_ENC[fn][1]
    if fn == 'bool': return 'boolean true' if v else 'boolean false'


class C10(Prop):
    id = 'C10'
    module = 'Cbor.Props.C10'
    theorems = ['Props.C10.C10_bytes', 'Props.C10.C10_shortest', 'Props.C10.C10_inverse_arg', 'Props.C10.C10_inverse_float',
                'Props.C10.C10_inverse_byte', 'Props.C10.C10_ctrl_undecodable', 'Lemmas.encUint', 'Lemmas.sd_spec']
    trusted_base = BASE_TRUST + ['C10: cbor_encode_half is covered by C15 (its value semantics need the half-float tables)']
    rule = ('(encoder, value, n) triples: 8- and 16-bit domains exhaustive, booleans/null/undef/break/indefinite starts, '
            '32/64-bit: every 2^k-1, 2^k, 2^k+1, width boundaries, seeded random; n in {exact length, 10}; each followed by a decode of the '
            'bytes written; non-trivial = value >= 24 or a one-byte head; distinct by (encoder, value, n, result)')

    def cases(self, tier, rng):
        out = []
        for fn, (mt, rule, bits) in INT_ENC.items():
            if bits == 8: vals = range(256)
            elif bits == 16: vals = range(65536) if tier == 'thorough' or fn in ('uint16',) else gen.arg_values(2, 'quick', rng)
            else: vals = gen.arg_values(bits // 8, tier, rng)
            if rule is None:
                vals = sorted(set(vals) | set(range(0, 300)) | {65534, 65535, 65536, 65537, 2 ** 32 - 1, 2 ** 32, 2 ** 32 + 1})
            for v in vals: out.append((fn, v))
        for fn in BYTE_ENC: out.append((fn, 0))
        out += [('bool', 0), ('bool', 1)]
        return out

    def corr_lines(self, tier, rng):
        lines = []
        for fn, v in self.cases(tier, rng):
            lines.append('ENC %s %d 10' % (fn, v))
            if rng.chance(1, 8): lines.append('ENC %s %d %d' % (fn, v, rng.below(10)))
        return lines

    def nontrivial(self, line, out):
        w = line.split()
        return w[0] == 'SD' or int(w[2]) >= 24 or w[1] in BYTE_ENC or w[1] == 'bool'

    def check_case(self, fn, v, enc_out, sd_out):
        exp = ref_bytes(fn, v)
        w = enc_out.split()
        ret = int(w[0]); buf = bytes.fromhex(w[1]) if w[1] != '-' else b''
        if ret != len(exp): return 'returned %d, the RFC head has %d bytes' % (ret, len(exp))
        if buf[:ret] != exp: return 'wrote %s, the RFC head is %s' % (buf[:ret].hex(), exp.hex())
        if buf[ret:] != b'\xaa' * (len(buf) - ret): return 'bytes beyond the reported length were modified'
        ev = ref_event(fn, v, exp)
        sw = sd_out.split(' ', 3)
        status, read = int(sw[0]), int(sw[1]); events = sw[3].rsplit(' ok=', 1)[0]
        if ev == 'payload':
            need = len(exp) + v
            if v == 0:
                if status != 0 or read != len(exp): return 'empty string head did not decode: ' + sd_out
            elif status != 1: return 'string head without payload should be NEDATA: ' + sd_out
            return None
        if ev is None:
            return None if status == 2 else 'undecodable simple value decoded: ' + sd_out
        if status != 0: return 'bytes written do not decode: ' + sd_out
        if read != len(exp): return 'decoder consumed %d bytes, encoder wrote %d' % (read, len(exp))
        if events != ev: return 'decoded "%s", encoded "%s"' % (events, ev)
        return None

    def oracle(self, tier, ctx):
        rng = core.Rng('C10-oracle')
        cases0 = self.cases(tier, rng)
        # every case with room to spare and with a buffer of exactly the length of the head (nothing may be required beyond the bytes written)
        cases = []; lines = []
        for fn, v in cases0:
            cases.append((fn, v)); lines.append('ENC %s %d 10' % (fn, v))
            cases.append((fn, v)); lines.append('ENC %s %d %d' % (fn, v, len(ref_bytes(fn, v))))
        enc, rc, err = ctx.run_c(lines)
        if rc != 0:
            i, l, e = core.first_crash_line(ctx.harness, lines)
            return [{'input': l, 'expected': 'a result', 'observed': 'implementation aborted', 'why': e[-800:]}]
        sd_lines = []
        for (fn, v), eo in zip(cases, enc):
            w = eo.split(); ret = int(w[0])
            b = bytes.fromhex(w[1])[:ret] if w[1] != '-' else b''
            sd_lines.append('SD ' + gen.hexs(b))
        sd, rc, err = ctx.run_c(sd_lines)
        fails = []
        for (fn, v), l, eo, so in zip(cases, lines, enc, sd):
            ctx.count(l, eo); ctx.bump(fn)
            try:
                why = self.check_case(fn, v, eo, so)
            except Exception as ex:
                why = 'unparseable output: %r' % ex
            if why: fails.append({'input': l, 'expected': 'bytes ' + ref_bytes(fn, v).hex(), 'observed': eo + ' / decode: ' + so, 'why': why})
        ctx.exhaustive['8bit_domains'] = True
        ctx.exhaustive['uint16_domain'] = True
        return fails[:20]

    def replay(self, ctx, rp):
        l = rp['failure']['input']; w = l.split(); fn, v = w[1], int(w[2])
        eo, rc, _ = ctx.run_c([l])
        if rc != 0: return [dict(rp['failure'], observed='implementation aborted')]
        ww = eo[0].split(); ret = int(ww[0]); b = bytes.fromhex(ww[1])[:ret] if ww[1] != '-' else b''
        so, _, _ = ctx.run_c(['SD ' + gen.hexs(b)])
        why = self.check_case(fn, v, eo[0], so[0])
        return [dict(rp['failure'], observed=eo[0], why=why)] if why else []


PROP = C10()

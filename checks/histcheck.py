"""Base for the history-driven properties (C04, C06, C11, C12, C13): a check is a list of histories, each a list of
lines starting with HRESET, with the shadow's expectation for every line (None = no expectation, only the
model/implementation correspondence applies)."""
from vlib.flow import Prop
from vlib import core
from .common import BASE_TRUST

HEAP_TRUST = [
    'hand-written heap-level model of the item API (lean/Cbor/Model/Heap.lean, Client.lean: reference counts, ownership, container contents and '
    'capacities, order and number of allocator requests, cbor_copy with its clean-up paths; overflow guards are the generated '
    'Gen._cbor_safe_to_multiply), tied to the C code by the history correspondence: after every API call both sides print the result, every '
    'slot\'s reference count, container size/capacity, live allocator blocks and the number of allocator requests',
    'addresses are not modelled (an item is an index that is never reused); cbor_array_replace is modelled as store-then-release (the C code '
    'releases first; indistinguishable for a client that owns the new member, which the rules require)',
    'a naive Python shadow (objects + child lists; expected refcount = slots + parent links) predicts every fault-free result line independently of the Lean model',
]


def split_histories(lines):
    hs = []; cur = None
    for i, l in enumerate(lines):
        if l == 'HRESET':
            cur = [i, i + 1]; hs.append(cur)
        elif cur is not None: cur[1] = i + 1
    return hs


class HistProp(Prop):
    """subclasses provide histories(tier, rng) -> list of (lines, expect)"""

    def histories(self, tier, rng):
        return []

    def judge(self, lines, outs, expect):
        """extra property-specific judgement of one history; returns (index, why) or None"""
        return None

    def env(self):
        return None

    def _all(self, tier, rng):
        lines = []; expect = []
        for l, e in self.histories(tier, rng):
            lines += l; expect += e
        return lines, expect

    def corr_lines(self, tier, rng):
        return self._all(tier, rng)[0]

    def nontrivial(self, line, out):
        return line.startswith('H ') and not line.startswith('H dump')

    def run_history(self, ctx, lines):
        return core.run_lines(ctx.harness, lines, env=self.env())

    def oracle(self, tier, ctx):
        rng = core.Rng(self.id)
        lines, expect = self._all(tier, rng)
        out, rc, err = core.run_lines(ctx.harness, lines, env=self.env())
        fails = []
        spans = split_histories(lines)
        if rc != 0:
            # find the history that kills the implementation
            for a, b in spans:
                o, r, e = self.run_history(ctx, lines[a:b])
                if r != 0:
                    n = len(o)
                    return [{'input': ' ; '.join(lines[a:b][:n + 1]), 'expected': 'a result line for every operation',
                             'observed': 'implementation aborted / sanitizer report (rc=%d) at operation %d: %s' % (r, n, lines[a:b][n] if n < b - a else '?'),
                             'why': e[-1200:]}]
            return [{'input': '(whole run)', 'expected': 'no crash', 'observed': 'rc=%d' % rc, 'why': err[-1200:]}]
        for a, b in spans:
            hl = lines[a:b]; ho = out[a:b]; he = expect[a:b]
            bad = None
            for i, (l, o, e) in enumerate(zip(hl, ho, he)):
                ctx.count(l, o); ctx.bump(l.split()[1] if l.startswith('H ') else l.split()[0])
                if bad is None and e is not None and o != e:
                    bad = (i, 'operation %d (%s): implementation %r, the rules / list model predict %r' % (i, l, o, e))
            if bad is None: bad = self.judge(hl, ho, he)
            if bad is not None and len(fails) < 20:
                i, why = bad
                fails.append({'input': ' ; '.join(hl[:i + 1]), 'expected': str(he[i])[:300] if i < len(he) else '', 'observed': ho[i][:300] if i < len(ho) else '(no output)', 'why': why})
        ctx.bump('histories', len(spans))
        return fails

    def replay(self, ctx, rp):
        hl = rp['failure']['input'].split(' ; ')
        o, r, e = self.run_history(ctx, hl)
        if r != 0 or len(o) != len(hl): return [dict(rp['failure'], observed='implementation aborted (rc=%d)' % r)]
        exp = rp['failure'].get('expected')
        if exp and o[-1][:300] != exp: return [dict(rp['failure'], observed=o[-1][:300])]
        j = self.judge(hl, o, [None] * len(hl))
        return [dict(rp['failure'], observed=o[-1][:300], why=j[1])] if j else []

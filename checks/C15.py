from vlib.flow import Prop
from vlib import core
from .common import BASE_TRUST
from . import gen, acc2
import struct, math


def is_nan16(h): return (h >> 10) & 31 == 31 and h & 0x3ff != 0
def is_nan64(b): return (b >> 52) & 0x7ff == 0x7ff and b & ((1 << 52) - 1) != 0


def half_f32(h):
    """independent IEEE conversion binary16 -> binary32 bit pattern (exact); NaN -> None"""
    if is_nan16(h): return None
    f = struct.unpack('>e', struct.pack('>H', h))[0]
    return struct.unpack('>I', struct.pack('>f', f))[0]


class C15(Prop):
    id = 'C15'
    module = 'Cbor.Props.C15'
    extra_modules = ['Cbor.Props.FloatAccessors']       # theorems over the generated float getters / setters (lean/Cbor/Gen/Accessors2.lean)
    FLOAT_ACC_THEOREMS = ['leStore_getD', 'leStore_leStore', 'get_set_float2', 'get_set_float4', 'get_set_float8', 'set_set_float2', 'set_set_float4',
                          'set_set_float8', 'set_pos_zero_neg_zero', 'set_float2_fields', 'set_float4_fields', 'set_float8_fields', 'set_float2_frame',
                          'set_float4_frame', 'set_float8_frame', 'setters_keep_tags', 'get_float2_val', 'get_float4_val', 'get_float8_val',
                          'get_float2_ok', 'get_float4_ok', 'get_float8_ok', 'set_float_ok', 'get_float_ok', 'get_float_eq', 'get_float_set',
                          'norm_mul_two_pow', 'f32ToF64_toNat', 'f32ToF64_exact', 'f32ToF64_inf', 'f32ToF64_nan', 'f32ToF64_not_nan', 'f32ToF64_inj',
                          'f32ToF64_nan_collision', 'get_float_value']
    theorems = ['Props.FloatAccessors.' + t for t in FLOAT_ACC_THEOREMS] + ['Props.C15.C15_half_value', 'Props.C15.C15_half_roundtrip', 'Props.C15.C15_half_total', 'Props.C15.half_ok',
                'Props.C15.C15_single', 'Props.C15.C15_double', 'Props.C15.isNaN32_spec', 'Props.C15.isNaN64_spec',
                'Lemmas.halfCheck_all', 'Lemmas.half_struct']
    trusted_base = BASE_TRUST + [
        'C15: _cbor_decode_half uses double/ldexp/(float) and is hand-modelled at bit level (Ext.decodeHalfBits); the model is compared with the compiled function on all 65536 inputs on every run',
        'C15: x86-64 SSE passes float/double bit patterns (including NaN payloads) through calls and the item store unchanged; isnan() is the IEEE predicate',
        'C15: the 65536-entry half table is checked by kernel evaluation (decide +kernel) in 64 shards; no native_decide',
        'Props.FloatAccessors: float / double are their IEEE-754 bit patterns; *(float*)item->data = the 4 (8) little-endian bytes at data[0..] (alignment / effective type as for the '
        'integer accessors, C18); (double)f is the hand-written Prelude.f32ToF64 (NaN: quiet bit set, payload kept = x86-64 cvtss2sd), compared with the compiled conversion by the ACC lines of every run']
    rule = ('all 65536 half patterns (decode, re-encode); singles: every exponent x boundary mantissas, strided blocks of 65536 consecutive patterns '
            '(every block = all 2^32 in thorough) by digest on C and generated model, each also through cbor_encode_half (totality under UBSan); '
            'doubles: every exponent x boundary mantissas + random; the same patterns of all three widths through the item path (cbor_load -> item -> dump -> cbor_serialize); non-trivial = not a zero pattern; distinct by (op, pattern, result)')

    def singles(self, tier, rng):
        out = set()
        for e in range(256):
            for m in (0, 1, 2, 0x1000, 0x1fff, 0x2000, 0x3fffff, 0x400000, 0x400001, 0x7ffffe, 0x7fffff):
                for s in (0, 1): out.add((s << 31) | (e << 23) | m)
        for _ in range(20000 if tier == 'thorough' else 3000): out.add(rng.next() & 0xffffffff)
        return sorted(out)

    def doubles(self, tier, rng):
        out = set()
        for e in list(range(0, 2048, 1 if tier == 'thorough' else 7)) + [0, 1, 1022, 1023, 1024, 2046, 2047]:
            for m in (0, 1, (1 << 32) - 1, 1 << 32, (1 << 32) + 1, (1 << 51), (1 << 51) + 1, (1 << 52) - 1, 1 << 20):
                for s in (0, 1): out.add((s << 63) | (e << 52) | m)
        for _ in range(20000 if tier == 'thorough' else 2000): out.add(rng.next())
        return sorted(out)

    def corr_lines(self, tier, rng):
        lines = ['HALFD %d' % h for h in range(65536)]
        for h in range(65536):
            f = half_f32(h)
            lines.append('ENC half %d 3' % (f if f is not None else 0x7fc00000 | (h & 0x3ff)))
        for b in self.singles(tier, rng):
            lines += ['ENC single %d 5' % b, 'ENC half %d 3' % b, 'SD fa%08x' % b]
        for b in self.doubles(tier, rng):
            lines += ['ENC double %d 9' % b, 'SD fb%016x' % b]
        for h in range(0, 65536, 1 if tier == 'thorough' else 17):
            lines.append('SD f9%04x' % h)
        lines += acc2.float_lines(tier, rng)          # generated float getters / setters vs the compiled ones (ACC)
        return lines

    def nontrivial(self, line, out):
        w = line.split()
        return w[0] in ('F32ALL', 'ACC') or (w[0] == 'HALFD' and int(w[1]) & 0x7fff != 0) or (w[0] in ('ENC', 'SD') and not w[-2 if w[0] == 'ENC' else -1].strip('0') == '')

    def oracle(self, tier, ctx):
        rng = core.Rng('C15-oracle')
        fails = []
        # halves: decode exact, re-encode identical / canonical NaN
        lines = ['HALFD %d' % h for h in range(65536)]
        out, rc, err = ctx.run_c(lines)
        if rc != 0: return [{'input': 'HALFD *', 'expected': 'results', 'observed': 'implementation aborted', 'why': err[-600:]}]
        enc_lines = []
        for h, o in zip(range(65536), out):
            ctx.count(lines[h], o)
            got = int(o); exp = half_f32(h)
            if exp is None:
                if not gen.is_nan32(got):
                    fails.append({'input': lines[h], 'expected': 'a NaN', 'observed': o, 'why': 'half NaN decoded to a non-NaN'})
            elif got != exp:
                fails.append({'input': lines[h], 'expected': str(exp), 'observed': o, 'why': 'decoded float is not the value the half pattern denotes'})
            enc_lines.append('ENC half %d 3' % got)
        eo, rc, err = ctx.run_c(enc_lines)
        if rc != 0:
            i, l, e = core.first_crash_line(ctx.harness, enc_lines)
            return fails + [{'input': l, 'expected': '3 bytes', 'observed': 'implementation aborted (UBSan/ASan)', 'why': e[-600:]}]
        for h, l, o in zip(range(65536), enc_lines, eo):
            ctx.count(l, o)
            exp = 'f9%04x' % (0x7e00 if is_nan16(h) else h)
            w = o.split()
            if w[0] != '3' or w[1] != exp:
                fails.append({'input': l, 'expected': '3 ' + exp, 'observed': o, 'why': 're-encoding half pattern %04x does not reproduce it' % h})
        ctx.exhaustive['half_patterns'] = True
        # singles / doubles explicit
        S = self.singles(tier, rng); D = self.doubles(tier, rng)
        sl = []
        for b in S: sl += ['SD fa%08x' % b, 'ENC single %d 5' % b, 'ENC half %d 3' % b]
        for b in D: sl += ['SD fb%016x' % b, 'ENC double %d 9' % b]
        so, rc, err = ctx.run_c(sl)
        if rc != 0:
            i, l, e = core.first_crash_line(ctx.harness, sl)
            return fails + [{'input': l, 'expected': 'a result', 'observed': 'implementation aborted (UBSan/ASan)', 'why': e[-600:]}]
        it = iter(zip(sl, so))
        for b in S:
            (l1, o1), (l2, o2), (l3, o3) = next(it), next(it), next(it)
            ctx.count(l1, o1); ctx.count(l2, o2); ctx.count(l3, o3); ctx.bump('single')
            if not o1.startswith('0 5 0 float4 %d ' % b):
                fails.append({'input': l1, 'expected': '0 5 0 float4 %d' % b, 'observed': o1, 'why': 'single not decoded bit-exactly'})
            exp = 'fa%08x' % (0x7fc00000 if gen.is_nan32(b) else b)
            if o2.split()[:2] != ['5', exp]:
                fails.append({'input': l2, 'expected': '5 ' + exp, 'observed': o2, 'why': 'single not re-encoded to its bytes / canonical NaN'})
            w = o3.split()
            if w[0] != '3' or not w[1].startswith('f9'):
                fails.append({'input': l3, 'expected': '3 f9....', 'observed': o3, 'why': 'half encoder is not total'})
        for b in D:
            (l1, o1), (l2, o2) = next(it), next(it)
            ctx.count(l1, o1); ctx.count(l2, o2); ctx.bump('double')
            if not o1.startswith('0 9 0 float8 %d ' % b):
                fails.append({'input': l1, 'expected': '0 9 0 float8 %d' % b, 'observed': o1, 'why': 'double not decoded bit-exactly'})
            exp = 'fb%016x' % (0x7ff8000000000000 if is_nan64(b) else b)
            if o2.split()[:2] != ['9', exp]:
                fails.append({'input': l2, 'expected': '9 ' + exp, 'observed': o2, 'why': 'double not re-encoded to its bytes / canonical NaN'})
        # the same patterns through the ITEM path: cbor_load builds an item at the recorded width (builder callback -> cbor_set_float*), the item
        # is read back (dump: h / s / d with the stored bits) and serialized again: exact bits in, identical bytes out, NaN canonical
        il = []
        halves = list(range(0, 65536, 1 if tier == 'thorough' else 13)) + [0x7c00, 0xfc00, 0x7e00, 0xfe00, 0x7c01, 0xfc01, 0x0001, 0x8001, 0x03ff, 0x0400, 0x7bff, 0x8000]
        Ss = sorted(set(S[:: 1 if tier == 'thorough' else 5]) | {0, 1 << 31, 0x7f800000, 0xff800000, 0x7fc00000, 0xffc00000, 0x7f800001, 0xff800001, 1, 0x007fffff, 0x00800000, 0x7f7fffff, 0x3f800000})
        Ds = sorted(set(D[:: 1 if tier == 'thorough' else 3]) | {0, 1 << 63, 0x7ff0000000000000, 0xfff0000000000000, 0x7ff8000000000000, 0xfff8000000000000, 0x7ff0000000000001, 0xfff0000000000001,
                                                                 1, 0x000fffffffffffff, 0x0010000000000000, 0x7fefffffffffffff, 0x3ff0000000000000})
        for h in halves: il.append(('h', h, 'LOAD f9%04x' % h))
        for b in Ss: il.append(('s', b, 'LOAD fa%08x' % b))
        for b in Ds: il.append(('d', b, 'LOAD fb%016x' % b))
        io, rc, err = ctx.run_c([l for _, _, l in il])
        if rc != 0:
            i, l, e = core.first_crash_line(ctx.harness, [l for _, _, l in il])
            return fails + [{'input': l, 'expected': 'an item', 'observed': 'implementation aborted (UBSan/ASan)', 'why': e[-600:]}]
        for (k, b, l), o in zip(il, io):
            ctx.count(l, o); ctx.bump('item_' + k)
            w = o.split()
            if k == 'h':
                nan = is_nan16(b); val = half_f32(b); canon = 'f97e00'
            elif k == 's':
                nan = gen.is_nan32(b); val = b; canon = 'fa7fc00000'
            else:
                nan = is_nan64(b); val = b; canon = 'fb7ff8000000000000'
            why = None
            if w[0] != 'OK': why = 'a float head was not decoded into an item'
            else:
                got = int(w[1][2:-1]) if w[1][:2] == k + '(' else None
                if got is None: why = 'decoded item is not a float of the recorded width'
                elif nan:
                    if not (gen.is_nan32(got) if k != 'd' else is_nan64(got)): why = 'a NaN pattern decoded into an item holding a non-NaN'
                    elif ('ser=%d:%s' % (len(canon) // 2, canon)) not in o and not ('ser==' in o and l.split()[1] == canon): why = 'an item holding a NaN does not serialize as the canonical NaN of its width'
                else:
                    if got != val: why = 'the item does not hold exactly the value the bytes denote (bits %d, expected %d)' % (got, val)
                    elif 'ser==' not in o: why = 'serializing the decoded item does not reproduce the original bytes'
            if why: fails.append({'input': l, 'expected': 'item %s(%s) and identical bytes back (NaN: canonical)' % (k, 'NaN' if nan else val), 'observed': o[:200], 'why': why})
        # the getters of the item API: the width-specific getter returns the stored bits, cbor_float_get_float the exactly converted double
        gl = []     # (kind, stored bits, expected serialization or None for NaN)
        kinds = lambda k: (k, k + '!', k + '!!')      # cbor_build_*, cbor_new_* + cbor_set_*, set to the opposite sign first and then to the value
        for h in halves[:: 1 if tier == 'thorough' else 7] + [0x0000, 0x8000, 0x7c00, 0xfc00, 0x0001, 0x8001, 0x7bff, 0xfbff, 0x3c00]:
            v = half_f32(h)
            if v is not None:
                for kk in kinds('h'): gl.append((kk, v, 'f9%04x' % h))
        for b in Ss[:: 1 if tier == 'thorough' else 3] + [0, 1 << 31, 0x7f800000, 0xff800000, 1, 0x80000001]:
            if not gen.is_nan32(b):
                for kk in kinds('s'): gl.append((kk, b, 'fa%08x' % b))
        for b in Ds[:: 1 if tier == 'thorough' else 3] + [0, 1 << 63, 0x7ff0000000000000, 0xfff0000000000000, 1, (1 << 63) + 1]:
            if not is_nan64(b):
                for kk in kinds('d'): gl.append((kk, b, 'fb%016x' % b))
        # items holding a NaN with any payload, through the item API: still a NaN when read back, canonical quiet NaN of the width when serialized
        nan32 = [0x7fc00000, 0xffc00000, 0x7f800001, 0xff800001, 0x7fffffff, 0xffffffff, 0x7f800fff, 0x7f801000, 0x7f802000, 0x7fa00000, 0x7fbfffff, 0xff800800, 0x7fffe000, 0xffffe000, 0x7fc00001]
        nan64 = [0x7ff8000000000000, 0xfff8000000000000, 0x7ff0000000000001, 0xfff0000000000001, 0x7fffffffffffffff, 0xffffffffffffffff, 0x7ff00000ffffffff, 0x7ff4000000000000, 0x7ff0000100000000]
        for b in nan32:
            for kk in kinds('h') + kinds('s'): gl.append((kk, b, None))
        for b in nan64:
            for kk in kinds('d'): gl.append((kk, b, None))
        glines = ['FLTGET %s(%d)' % (k, b) for k, b, _ in gl]
        go_, rc, err = ctx.run_c(glines)
        if rc != 0:
            i, l, e = core.first_crash_line(ctx.harness, glines)
            return fails + [{'input': l, 'expected': 'values', 'observed': 'implementation aborted (UBSan/ASan)', 'why': e[-600:]}]
        for (k, b, ser), l, o in zip(gl, glines, go_):
            ctx.count(l, o); ctx.bump('getter_' + k[0] + ('_nan' if ser is None else ''))
            expw = {'h': 16, 's': 32, 'd': 64}[k[0]]
            if ser is None:
                w = o.replace('ser=', '').split()
                canon = {'h': 'f97e00', 's': 'fa7fc00000', 'd': 'fb7ff8000000000000'}[k[0]]
                okv = len(w) == 4 and w[0] == str(expw) and (is_nan64(int(w[1])) if k[0] == 'd' else gen.is_nan32(int(w[1]))) and is_nan64(int(w[2]))
                if not okv:
                    fails.append({'input': l, 'expected': '%d <a NaN> <a NaN> ser=%s' % (expw, canon), 'observed': o, 'why': 'an item set to a NaN does not read back as a NaN'})
                elif w[3] != canon:
                    fails.append({'input': l, 'expected': '%d <a NaN> <a NaN> ser=%s' % (expw, canon), 'observed': o, 'why': 'an item holding a NaN does not serialize as the canonical quiet NaN of its width'})
                continue
            if k[0] == 'd': expd = b
            else: expd = struct.unpack('>Q', struct.pack('>d', struct.unpack('>f', struct.pack('>I', b))[0]))[0]
            exp = '%d %d %d ser=%s' % (expw, b, expd, ser)
            if o != exp:
                fails.append({'input': l, 'expected': exp + '  (width, stored bits, bits of the exactly converted double, bytes)', 'observed': o,
                              'why': 'a float item does not hold / return / serialize the value it was given (width-specific getter, cbor_float_get_float, cbor_serialize)'})
        # the float getters / setters of the item API called directly on a laid-out item (ACC), against an expectation computed here
        fails += acc2.oracle(ctx, acc2.float_lines(tier, core.Rng('C15-acc')), acc2.float_expect,
                             'a float getter / setter does not return / store exactly the bit pattern (or the exactly widened double), or its assertions differ')
        # blocks of 65536 consecutive singles: C vs generated model digests (also runs cbor_encode_half on each under UBSan)
        step = 1 if tier == 'thorough' else 61
        his = sorted(set(range(0, 65536, step)) | {0, 0x0080, 0x3300, 0x3380, 0x3880, 0x477f, 0x4780, 0x7f80, 0x7fc0, 0x8000, 0xb300, 0xff80, 0xffff})
        bl = ['F32ALL %d' % h for h in his]
        co, rc, err = core.run_parallel(ctx.harness, bl)
        if rc != 0:
            return fails + [{'input': 'F32ALL (some block)', 'expected': 'digest', 'observed': 'implementation aborted (UBSan/ASan)', 'why': err[-600:]}]
        go = core.run_parallel(core.driver_exe('cbordrv'), bl)[0] if ctx.model_ok else co
        for l, a, b in zip(bl, co, go):
            ctx.evaluations += 65535; ctx.count(l, a)
            if a != b:
                fails.append({'input': l, 'expected': 'generated model digest ' + b, 'observed': a, 'why': 'model and implementation differ on some single in this block of 65536'})
        ctx.exhaustive['all_2^32_singles'] = (tier == 'thorough')
        ctx.stats['single_blocks'] = len(bl)
        return fails[:20]

    def replay(self, ctx, rp):
        l = rp['failure']['input']
        if l.startswith(('LOAD ', 'FLTGET ')): return [f for f in self.oracle('quick', ctx) if f['input'] == l]
        o, rc, _ = ctx.run_c([l])
        if rc != 0: return [dict(rp['failure'], observed='implementation aborted')]
        return [dict(rp['failure'], observed=o[0])] if o[0] != rp['failure'].get('expected') and not o[0].startswith(rp['failure'].get('expected', '\0')) else []


PROP = C15()

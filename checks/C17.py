import subprocess, os
from vlib.flow import Prop
from vlib import core
from .common import BASE_TRUST
from .C13 import CENSUS_TRUST


class C17(Prop):
    id = 'C17'
    module = 'Cbor.Props.C17'
    theorems = ['Props.C17.C17_mutable_globals', 'Props.C17.C17_global_writers', 'Props.C17.C17_static_locals', 'Props.C17.C17_workers_write_no_global',
                'Props.C17.C17_any_schedule', 'Props.C17.C17_disjoint_writes', 'Props.C17.C17_only_reentrant_externals']
    trusted_base = BASE_TRUST + CENSUS_TRUST + [
        'C17_any_schedule: in the heap-level client model (no state besides each thread\'s own items and slots - which is what the census establishes for the code) every interleaving of the '
        'threads\' API calls gives each thread the final state and the results of its solo run, and a step of one thread leaves the others\' states untouched; the allocator is modelled per thread '
        '(the installed allocator is assumed thread-safe and to answer a thread independently of the others)',
        'the census theorems show that no function other than cbor_set_allocs assigns a file-scope variable or static local; that stores through pointers stay inside '
        'the calling thread\'s own items follows from the premise that no item is shared, and is observed (not proved) by ThreadSanitizer on randomized schedules',
        'ThreadSanitizer reports races on the schedules that occurred and on happens-before-unordered accesses of those runs only',
    ]
    rule = ('N threads (2,3,4,8,16; thorough adds 12 and more seeds) each run an independent seeded workload over the whole API (build all types, serialize, size, load, '
            'truncated load, copy, describe, streaming decode, release) under ThreadSanitizer; each thread\'s digest must equal the digest of the same workload run alone; '
            'non-trivial = a run with at least 2 threads; distinct by (threads, seed, digests)')
    harness_kind = 'asan'

    def corr_lines(self, tier, rng):
        return []

    def runs(self, tier):
        ns = [2, 3, 4, 8, 16]
        seeds = range(1, 17) if tier == 'thorough' else range(1, 3)
        iters = 1500 if tier == 'thorough' else 120
        return [(n, s + core.SEED * 100, iters) for n in ns for s in seeds] + ([(12, 77, iters)] if tier == 'thorough' else [])

    def one(self, exe, n, seed, iters):
        env = dict(os.environ); env['TSAN_OPTIONS'] = 'halt_on_error=0:exitcode=66:report_signal_unsafe=0'
        try:
            p = subprocess.run([exe, str(n), str(seed), str(iters)], capture_output=True, text=True, timeout=60 + iters // 2, env=env)
        except subprocess.TimeoutExpired:
            return 'the threaded workload did not terminate (the same workload run alone takes about a second)', {}
        multi = {}; single = {}
        for l in p.stdout.split('\n'):
            w = l.split()
            if len(w) == 2 and w[0].isdigit(): multi[w[0]] = w[1]
            elif len(w) == 3 and w[0] == 'single': single[w[1]] = w[2]
        why = None
        if 'NONREENTRANT' in p.stdout: why = 'the library called a non-reentrant, process-global libc facility from worker threads: ' + [l for l in p.stdout.split('\n') if 'NONREENTRANT' in l][0]
        elif 'ThreadSanitizer' in p.stderr: why = 'ThreadSanitizer report: ' + p.stderr[:1500]
        elif p.returncode != 0: why = 'workload aborted rc=%d: %s' % (p.returncode, p.stderr[-800:])
        elif multi != single or len(multi) != n: why = 'a thread computed a different result than the same workload run alone: %r vs %r' % (multi, single)
        return why, multi

    def oracle(self, tier, ctx):
        hb = core.build_harness('tsan', sources=[os.path.join(core.VERIF, 'harness', 'x_threads.c')])
        if not hb['ok']:
            return [{'input': 'build x_threads.c with -fsanitize=thread', 'expected': 'builds', 'observed': hb['out'][-800:], 'why': 'thread harness does not build against the current source'}]
        fails = []
        for n, seed, iters in self.runs(tier):
            why, digests = self.one(hb['exe'], n, seed, iters)
            line = 'THREADS %d %d %d' % (n, seed, iters)
            ctx.count(line, str(sorted(digests.items()))); ctx.bump('threads_%d' % n)
            if why: fails.append({'input': line, 'expected': 'no race report, per-thread digests equal to the single-threaded run', 'observed': str(digests)[:300], 'why': why})
        return fails[:10]

    def nontrivial(self, line, out):
        return True

    def replay(self, ctx, rp):
        w = rp['failure']['input'].split()
        hb = core.build_harness('tsan', sources=[os.path.join(core.VERIF, 'harness', 'x_threads.c')])
        if not hb['ok']: return [rp['failure']]
        for _ in range(3):
            why, d = self.one(hb['exe'], int(w[1]), int(w[2]), int(w[3]))
            if why: return [dict(rp['failure'], why=why)]
        return []


PROP = C17()

import re
from vlib import core
from .histcheck import HistProp, HEAP_TRUST, BASE_TRUST
from . import hist, gen, trees
from .C06 import summary_of, strip_reqs


SHARED = [
    ['int 0 0 64 18446744073709551615', 'arr 1 0 0', 'push 1 0', 'push 1 0', 'arr 2 1 2', 'push 2 1', 'push 2 1', 'drop 0', 'drop 1', 'incref 0 2', 'drop 2'],
    ['str 5 0 6162', 'stri 1 0', 'chunk 1 5', 'chunk 1 5', 'map 2 0 0', 'madd 2 1 1', 'btag 0 9 2', 'drop 1', 'drop 2', 'drop 5'],
    ['int 5 1 8 3', 'btag 1 1 5', 'btag 2 2 1', 'arr 0 0 0', 'push 0 2', 'push 0 1', 'push 0 5', 'push 0 2', 'drop 1', 'drop 2', 'drop 5'],
    ['stri 0 1'], ['stri 0 0'], ['arr 0 1 0'], ['arr 0 0 0'], ['map 0 1 0'], ['map 0 0 0'],
    ['arr 0 1 5', 'int 1 0 8 1', 'push 0 1', 'push 0 1', 'drop 1'],          # partially filled definite array
    ['map 0 1 3', 'int 1 0 8 1', 'madd 0 1 1', 'drop 1'],
    ['f8 1 9221120237041090561', 'f4 2 2143289345', 'f2 3 2143289344', 'arr 0 0 0', 'push 0 1', 'push 0 2', 'push 0 3', 'drop 1', 'drop 2', 'drop 3'],
]


class C11(HistProp):
    id = 'C11'
    also_release = True
    module = 'Cbor.Props.C11'
    theorems = ['Props.C11.C11_copy', 'Props.C11.C11_copy_denotes', 'Props.C11.C11_same_bytes', 'Props.C11.C11_copy_counts_one', 'Props.C11.C11_release_copy',
                'Props.C11.C11_release_source', 'Props.C11.C11_source_intact', 'Props.C11.C11_books', 'Props.C11.copy_scalar', 'Props.C11.copy_string',
                'Props.C11.copy_leaf_source_intact', 'Heap.copy_spec', 'Heap.decref_own', 'Heap.need_le_copyFuel', 'Heap.decref_below', 'Heap.copy_frame_all', 'Heap.copy_counts_all']
    trusted_base = BASE_TRUST + HEAP_TRUST + [
        'theorems (for every tree, every acyclic heap in which the source denotes it, every allocator oracle): a successful copy is an exclusively owned tree denoting the '
        'same tree (types, widths, flavour, chunking, member order), laid out in exactly the cells the copy created, every node with count one (C11_copy / copy_spec, a mutual '
        'structural induction over the tree with all clean-up paths); a failed copy has released every cell it created; no pre-existing cell changes; releasing the copy restores the '
        'heap exactly, releasing the source leaves the copy untouched (decref_own, decref_below); the model\'s fuel suffices for acyclic heaps (need_le_copyFuel).  The heap model itself '
        '(Heap.copy mirrors cbor_copy case by case) is tied to the C code by the history correspondence and the harness: address-set disjointness, refcount 1 on every node, no node twice, '
        'equal dump and serialization, mutate / release one tree and re-inspect the other',
    ]
    rule = ('trees: the C03 corpus (all leaf kinds at boundary values incl. maximal-width integers, empty containers, zero-chunk indefinite strings, nesting to depth 4) '
            'loaded from their encodings, plus hand-built trees with shared sub-items, partially filled definite containers and NaN payloads, plus random API histories '
            'with copy operations; per tree: copy, compare dump and serialization, then release / mutate either tree and re-inspect the other; '
            'non-trivial = any tree with more than one node; distinct by (tree, step, result)')

    def histories(self, tier, rng):
        hs = []
        ts = [t for t in trees.corpus(tier, rng, assigned_only=True) if len(trees.enc(t)) <= 300]
        if tier != 'thorough': ts = ts[::3]
        setups = [(['load 0 ' + gen.hexs(trees.enc(t))], t[0]) for t in ts] + [(x, {'arr': 'a', 'map': 'm'}.get(x[-1].split()[0] if x[-1].split()[0] in ('arr', 'map') else ('arr' if any(y.startswith('push 0') for y in x) else 'map' if any(y.startswith('madd 0') for y in x) else ''), '')) for x in SHARED]
        # text with multi-byte UTF-8 (the decoder records its code point count), also as chunks incl. an empty one, also nested: the copy must carry the same counts
        mb = 'h\u00e9llo\u20ac\U0001F600'.encode('utf-8'); mb2 = '\u00e9\u20ac'.encode('utf-8')
        def tx(b): return bytes([0x60 + len(b)]) + b
        nul = b'a\x00b'; nul2 = b'\x00\x00xyz\x00'
        for e in (tx(nul), tx(nul2), b'\x7f' + tx(nul) + tx(b'q') + b'\xff', b'\xa1' + tx(nul) + tx(nul2), b'\x82' + b'\x43' + nul + tx(nul), b'\xc1' + tx(b'\x00')):
            setups.append((['load 0 ' + gen.hexs(e)], ''))        # text with embedded NUL bytes (followed by other bytes): a copy made with a C-string routine stops there
        for e in (tx(mb), b'\x7f' + tx(mb2) + tx(b'') + tx(mb) + b'\xff', b'\xa1' + tx(mb2) + b'\x82' + tx(mb) + b'\xc1' + tx(mb2), b'\x9f\x7f' + tx(mb) + b'\xff\xff'):
            setups.append((['load 0 ' + gen.hexs(e)], ''))
        for setup, kind in setups:
            for variant in ('release_source', 'release_copy', 'mutate'):
                l = ['HRESET'] + ['H ' + x for x in setup]
                l += ['H dump 0', 'H ser 0', 'H copy 1 0', 'H dump 1', 'H ser 1', 'H dump 0', 'H ser 0']
                if variant == 'release_source': l += ['H drop 0', 'H dump 1', 'H ser 1', 'H drop 1']
                elif variant == 'release_copy': l += ['H drop 1', 'H dump 0', 'H ser 0', 'H drop 0']
                else:
                    # mutate the copy when it is a container: push / add a fresh member, then look at the source again
                    if kind in 'Aa' and kind: mut = ['H push 1 7']
                    elif kind in 'Mm' and kind: mut = ['H madd 1 7 7']
                    else: continue
                    l += ['H int 7 0 8 42'] + mut + ['H dump 0', 'H ser 0', 'H drop 7', 'H drop 1', 'H dump 0', 'H drop 0']
                hs.append((l, [None] * len(l)))
        for i in range(1000 if tier == 'thorough' else 30):
            hs.append(hist.history(rng, 80))
        # a copy that fails part-way (every single-fault and fail-stop schedule): the source's contents and reference counts are exactly as before
        # (the copy scenarios of C06, judged by C06's state comparison)
        from .C06 import C06
        self._c06 = C06()
        for l, e in self._c06.histories(tier, core.Rng('C11-faulted')):
            if any(x.startswith('H copy') for x in l) and any(x.startswith('HFAULT') for x in l): hs.append((l, e))
        for setup, top in ((['int 0 0 8 7', 'btag 1 24 0', 'btag 2 55799 1'], 2), (['str 0 1 6162', 'arr 1 0 0', 'push 1 0', 'btag 2 24 1', 'btag 3 55799 2'], 3)):
            for k in range(0, 8):
                for mode in (1, 2):
                    l, mark, oi = self._c06.build(setup, 'copy 7 %d' % top, mode, k)
                    hs.append((l, [None] * len(l)))
        return hs

    def judge(self, lines, outs, expect):
        if any(l.startswith('HFAULT') and not l.startswith('HFAULT 0 0') for l in lines):
            fi = next(i for i, l in enumerate(lines) if l.startswith('HFAULT') and not l.startswith('HFAULT 0 0'))
            if outs[fi + 1].split(' ')[0] not in ('NULL', 'false'):      # the schedule did not bite (k beyond the requests of this copy): only the end state counts
                return None if 'live=0' in outs[-1] else (len(lines) - 1, 'blocks left: ' + outs[-1])
            return self._c06.judge(lines, outs, expect)
        scen = 'H copy 1 0' in lines and lines.index('H copy 1 0') >= 3 and lines[lines.index('H copy 1 0') - 1] == 'H ser 0' and lines[lines.index('H copy 1 0') - 2] == 'H dump 0'
        if not scen: return None if 'live=0' in outs[-1] else (len(lines) - 1, 'blocks left: ' + outs[-1])
        ci = lines.index('H copy 1 0')
        d0, s0 = outs[ci - 2], outs[ci - 1]
        c = outs[ci]
        if 'COPY-METADATA-DIFFERS' in c: return (ci, 'the copy differs from the source in the code point count of a text string')
        if not c.startswith('item'): return (ci, 'cbor_copy returned NULL without any allocation failure')
        if 'fresh=1' not in c:
            return (ci, 'the copy shares a node or buffer with the source, contains a node twice, or has a node with refcount != 1')
        before = summary_of(outs[ci - 3]) if ci - 3 >= 1 else ''
        m0 = re.search(r' s0=(\S+)', before); m1 = re.search(r' s0=(\S+)', c)
        if m0 and m1 and m0.group(1) != m1.group(1): return (ci, 'the source changed (refcount/size/capacity %s -> %s)' % (m0.group(1), m1.group(1)))
        if not re.search(r' s1=1(\D|$)', c): return (ci, 'the copy\'s root does not have reference count 1')
        if outs[ci + 1] != d0: return (ci + 1, 'the copy differs from the source: %s vs %s' % (outs[ci + 1][:120], d0[:120]))
        if outs[ci + 2] != s0: return (ci + 2, 'the copy serializes differently from the source')
        if outs[ci + 3] != d0 or outs[ci + 4] != s0: return (ci + 3, 'the source changed while it was copied')
        # whatever tree is inspected after the other was released / mutated must look as before
        for i in range(ci + 5, len(lines)):
            if lines[i] in ('H dump 0', 'H dump 1') and outs[i] not in (d0, 'EMPTY'):
                return (i, 'after releasing / mutating the other tree this one reads %s, before %s' % (outs[i][:120], d0[:120]))
            if lines[i] in ('H ser 0', 'H ser 1') and outs[i] not in (s0, 'EMPTY'):
                return (i, 'after releasing / mutating the other tree this one serializes differently')
        if 'live=0' not in outs[-1]: return (len(lines) - 1, 'blocks left after both trees were released: ' + outs[-1])
        return None


PROP = C11()

from vlib.flow import Prop
from vlib import core
from .common import BASE_TRUST
from .C02 import MODEL_TRUST
from . import gen, dec

LIMITS = [1, 2, 3, 8, 64, 2048]


def nest(kind, depth, leaf):
    """depth levels of one container kind around leaf"""
    pre, post = {'tag': (b'\xc1', b''), 'arr': (b'\x81', b''), 'arrI': (b'\x9f', b'\xff'), 'mapK': (b'\xa1', b'\x00'),
                 'mapV': (b'\xa1\x00', b''), 'mapI': (b'\xbf\x00', b'\xff')}[kind]
    return pre * depth + leaf + post * depth


class C19(Prop):
    id = 'C19'
    module = 'Cbor.Props.C19'
    extra_modules = ['Cbor.Lemmas.Depth']
    theorems = ['Props.C19.C19_rdepth_decoded', 'Props.C19.C19_loaded_depth', 'Props.C19.C19_release_depth', 'Props.C19.C19_release_restores', 'Lemmas.Depth.decode_ok_depth', 'Lemmas.Depth.decref_own_depth', 'Lemmas.Depth.rdepth_le_openDepth',
                'Props.C19.C19_all_limits', 'Props.C19.C19_stack_bound', 'Props.C19.C19_reject_step', 'Props.C19.C19_accept_step',
                'Props.C19.C19_flat_step', 'Lemmas.Refine.load_eq']
    trusted_base = BASE_TRUST + MODEL_TRUST + [
        'C19: native stack consumption per frame cannot be exhibited by the model; the pipeline (load, describe, size, serialize, copy, release) '
        'is run by the harness on deep inputs under ASan (stack-overflow detection) as a runtime check only']
    rule = ('L in {1,2,3,8,64,2048} and, implementation only with closed-form expectations, 70000 (harness rebuilt with CBOR_MAX_STACK_SIZE=L, model run with the same L) x nests of every container kind '
            '(tags, definite/indefinite arrays and maps in key and value position, chunked strings innermost, empty containers innermost) at depths '
            'L-1, L, L+1, 4L; non-trivial = depth >= L; distinct by (L, input, outcome)')

    def inputs(self, L, tier):
        out = []
        depths = sorted({max(L - 1, 0), L, L + 1, min(4 * L, 9000)})
        leaves = [b'\x00', b'\x80', b'\xa0', b'\x5f\x41\x01\xff', b'\x7f\xff', b'\x81\x00', b'\xc1\x00', b'\x9f\xff']
        for kind in ('tag', 'arr', 'arrI', 'mapK', 'mapV', 'mapI'):
            for d in depths:
                for leaf in (leaves if (L <= 64 or tier == 'thorough') else leaves[:3]):
                    out.append(nest(kind, d, leaf))
        # mixed kinds
        kinds = [b'\xc1', b'\x81', b'\x9f', b'\xa1\x00', b'\xbf\x00']
        for d in depths:
            pre = b''.join(kinds[i % len(kinds)] for i in range(d))
            out.append(pre + b'\x00')
        return out

    def corr_lines(self, tier, rng):
        return []   # per-L correspondence is run inside the oracle (one harness build per L)

    def nontrivial(self, line, out): return True

    def oracle(self, tier, ctx):
        fails = []
        for L in LIMITS:
            hb = core.build_harness('asan', overrides={'CBOR_MAX_STACK_SIZE': str(L)})
            if not hb['ok']:
                fails.append({'input': 'build L=%d' % L, 'expected': 'harness builds', 'observed': hb['out'][-400:], 'why': 'cannot build with this limit'}); continue
            bufs = self.inputs(L, tier)
            fails += dec.run(ctx, bufs, L=L, exe=hb['exe'], tag=' (L=%d)' % L)
            if ctx.model_ok:
                lines = ['LOAD ' + gen.hexs(b) + ' 0 0 %d' % dec.HUGE for b in bufs]
                co, rc, _ = core.run_lines(hb['exe'], lines)
                mo, _, _ = ctx.run_drv(lines, args=[L])
                for l, a, b in zip(lines, co, mo):
                    if a != b:
                        fails.append({'input': l + ' (L=%d)' % L, 'expected': 'model: ' + b[:300], 'observed': a[:300], 'why': 'model and implementation differ at this limit'})
                        break
            # describing a decoded tree completes: whatever the layout of the description, the content of the innermost text leaf appears in it
            mark = b'zq9xv'
            dl = []
            for kind in ('tag', 'arr', 'arrI', 'mapK', 'mapV', 'mapI'):
                for d in sorted({1, max(L // 2, 1), max(L // 2 + 1, 1), max(L - 1, 1), L}):
                    dl.append('DESC %s %s' % (gen.hexs(nest(kind, d, bytes([0x60 + len(mark)]) + mark)), mark.hex()))
                    if L >= 2: dl.append('DESC %s %s' % (gen.hexs(nest(kind, max(d - 1, 0), b'\x7f' + bytes([0x60 + len(mark)]) + mark + b'\xff')), mark.hex()))
            do, rc, _ = core.run_lines(hb['exe'], dl)
            for l, o in zip(dl, do):
                ctx.count(l[:200] + ' (L=%d)' % L, o); ctx.bump('describe')
                if not (o.startswith('described ') and o.endswith('marker=1')):
                    fails.append({'input': l + ' (L=%d)' % L, 'expected': 'described ... marker=1', 'observed': o, 'why': 'cbor_describe of a tree nested within the limit did not print its innermost leaf'})
            if rc != 0: fails.append({'input': 'DESC (L=%d)' % L, 'expected': 'results', 'observed': 'implementation aborted', 'why': 'describe of a nested tree aborted'})
            ctx.bump('limit_%d' % L, len(bufs))
        fails += self.big_limit(tier, ctx)
        return fails[:20]

    BIG = 70000     # a limit above 2^16: counters narrower than size_t would wrap below it

    @staticmethod
    def run_big_stack(exe, line):
        """one line through the harness on an 8 GiB main-thread stack (recursion 70000 deep in release / copy / serialize / describe under ASan)"""
        import subprocess, resource, os
        want = 8 << 30
        soft, hard = resource.getrlimit(resource.RLIMIT_STACK)
        if hard != resource.RLIM_INFINITY and hard < want: return None, 0, 'hard limit %d' % hard
        def pre(): resource.setrlimit(resource.RLIMIT_STACK, (want, hard))
        e = dict(os.environ); e.setdefault('ASAN_OPTIONS', 'detect_leaks=0:abort_on_error=0:allocator_may_return_null=1'); e.setdefault('UBSAN_OPTIONS', 'print_stacktrace=1')
        try:
            p = subprocess.run([exe], input=line + '\n', capture_output=True, text=True, timeout=600, env=e, preexec_fn=pre)
        except subprocess.TimeoutExpired:
            return [], -999, 'timeout'
        out = p.stdout.split('\n')
        if out and out[-1] == '': out.pop()
        return out, p.returncode, p.stderr[-3000:]

    def big_limit(self, tier, ctx, only=None):
        """implementation only, closed-form expectation: nests of L-4465 .. L levels are decoded (and copied, serialized, described, released: the LOAD pipeline, on a 8 GiB stack),
        L+1 levels are refused with MEMERROR just past the head that would open level L+1, nothing left allocated"""
        L = self.BIG
        hb = core.build_harness('asan', overrides={'CBOR_MAX_STACK_SIZE': str(L)})
        if not hb['ok']:
            return [{'input': 'build L=%d' % L, 'expected': 'harness builds', 'observed': hb['out'][-400:], 'why': 'cannot build with this limit'}]
        kinds = ('arr', 'mapV') if tier != 'thorough' else ('tag', 'arr', 'arrI', 'mapK', 'mapV', 'mapI')
        depths = (65536, L, L + 1) if tier != 'thorough' else (65535, 65536, 65537, L - 1, L, L + 1)
        fails = []
        for kind in kinds:
            pre = {'tag': b'\xc1', 'arr': b'\x81', 'arrI': b'\x9f', 'mapK': b'\xa1', 'mapV': b'\xa1\x00', 'mapI': b'\xbf\x00'}[kind]
            for d in depths:
                b = nest(kind, d, b'\x00')
                l = 'LOAD ' + gen.hexs(b) + ' 0 0 %d' % dec.HUGE
                if only and only != l: continue
                o, rc, err = self.run_big_stack(hb['exe'], l)
                if o is None:
                    ctx.notes.append('C19: the stack limit of this sandbox cannot be raised to 8 GiB (%s): the limit-%d runs were skipped' % (err, L)); return fails
                got = o[0] if o else ''
                ctx.count(l[:120] + ' (L=%d)' % L, got[-160:]); ctx.bump('limit_%d' % L)
                if d <= L: ok = rc == 0 and got.startswith('OK ') and (' read=%d ' % len(b)) in got and ' ser==' in got and ' copy=ok' in got and got.endswith(' final=0')
                else: ok = rc == 0 and got.startswith('ERR MEMERROR pos=%d ' % (L * len(pre) + 1)) and got.endswith(' live=0')
                if not ok:
                    fails.append({'input': l + ' (L=%d)' % L, 'expected': ('decoded, read=%d, copied, serialized back, released' % len(b)) if d <= L else 'ERR MEMERROR pos=%d ... live=0' % (L * len(pre) + 1),
                                  'observed': (got[:60] + ' ... ' + got[-200:]) if got else 'implementation aborted rc=%d: %s' % (rc, err[-300:]),
                                  'why': '%d levels of %s at a configured limit of %d' % (d, kind, L)})
        return fails

    def replay(self, ctx, rp):
        import re
        l = rp['failure']['input']; m = re.search(r'\(L=(\d+)\)', l)
        L = int(m.group(1)) if m else 2048
        if L == self.BIG: return self.big_limit('thorough', ctx, only=l.split(' (L=')[0])
        hb = core.build_harness('asan', overrides={'CBOR_MAX_STACK_SIZE': str(L)})
        w = l.split(); b = bytes.fromhex(w[1]) if w[1] != '-' else b''
        if w[0] == 'DESC':
            o, rc, _ = core.run_lines(hb['exe'], [' '.join(w[:3])])
            return [] if rc == 0 and o and o[0].endswith('marker=1') else [dict(rp['failure'], observed=o[0] if o else 'abort')]
        return dec.run(ctx, [b], L=L, exe=hb['exe'], tag=' (L=%d)' % L)


PROP = C19()

from vlib import core
from .histcheck import HistProp, HEAP_TRUST, BASE_TRUST
from . import hist
from .hist import Gen, Obj, grow


def container_histories(kinds, caps, depth, idx_extra=2):
    """every sequence of `depth` operations on one container of each kind/capacity: push, set i, replace i, get i (i = 0..size+2),
    add-pair, add-chunk; three member items of different types are at hand"""
    import copy as _copy
    out = []
    for kind in kinds:
        for cap in (caps if kind in ('darr', 'dmap') else [0]):
            g = Gen(None); sh = g.sh
            sh.slots[1] = Obj('leaf', leaf='u8(1)'); sh.reqs += 1; g.emit('int 1 0 8 1', 'item')
            sh.slots[2] = Obj('str', text=False, data=b'ab'); sh.reqs += 2; g.emit('str 2 0 6162', 'item')
            if kind == 'darr': sh.slots[0] = Obj('arr', definite=True, cap=cap); sh.reqs += 2; g.emit('arr 0 1 %d' % cap, 'item')
            elif kind == 'iarr': sh.slots[0] = Obj('arr'); sh.reqs += 1; g.emit('arr 0 0 0', 'item')
            elif kind == 'dmap': sh.slots[0] = Obj('map', definite=True, cap=cap); sh.reqs += 2; g.emit('map 0 1 %d' % cap, 'item')
            elif kind == 'imap': sh.slots[0] = Obj('map'); sh.reqs += 1; g.emit('map 0 0 0', 'item')
            else: sh.slots[0] = Obj('strI', text=False); sh.reqs += 2; g.emit('stri 0 0', 'item')

            def moves(sh):
                C = sh.slots[0]; n = len(C.kids)
                if C.kind == 'arr':
                    ms = [('push', 1), ('push', 2)]
                    for i in range(n + idx_extra + 1): ms += [('set', i, 2), ('replace', i, 1), ('get', i)]
                    return ms
                if C.kind == 'map': return [('madd', 1, 2), ('madd', 2, 2)]
                return [('chunk', 2)]

            def apply(g, m):
                sh = g.sh; C = sh.slots[0]; n = len(C.kids)
                if m[0] == 'push': g.do_push(0, m[1])
                elif m[0] == 'set':
                    i, x = m[1], m[2]
                    if i == n: g.do_push(0, x, 'set', i)
                    elif i < n: C.kids[i] = sh.slots[x]; g.emit('set 0 %d %d' % (i, x), 'true')
                    else: g.emit('set 0 %d %d' % (i, x), 'false')
                elif m[0] == 'replace':
                    i, x = m[1], m[2]
                    if i < n: C.kids[i] = sh.slots[x]; g.emit('replace 0 %d %d' % (i, x), 'true')
                    else: g.emit('replace 0 %d %d' % (i, x), 'false')
                elif m[0] == 'get':
                    i = m[1]
                    if i < n:
                        sh.slots[3] = C.kids[i]; g.emit('get 3 0 %d' % i, 'item'); g.observe(3)
                        sh.slots[3] = None; g.emit('decref 3', 'done')
                    else: g.emit('get 3 0 %d' % i, 'NULL')
                elif m[0] == 'madd':
                    full = n >= C.cap
                    if C.definite and full: g.emit('madd 0 %d %d' % (m[1], m[2]), 'false')
                    else:
                        if full: C.cap = grow(C.cap); sh.reqs += 1
                        C.kids.append((sh.slots[m[1]], sh.slots[m[2]])); g.emit('madd 0 %d %d' % (m[1], m[2]), 'true')
                elif m[0] == 'chunk':
                    if n == C.cap: C.cap = grow(C.cap); sh.reqs += 1
                    C.kids.append(sh.slots[m[1]]); g.emit('chunk 0 %d' % m[1], 'true')
                g.observe(0)

            def rec(g, d):
                if d == 0:
                    g2 = _copy.deepcopy(g); g2.finish()
                    out.append((['HRESET'] + g2.lines, ['reset'] + g2.expect)); return
                for m in moves(g.sh):
                    g2 = _copy.deepcopy(g); apply(g2, m); rec(g2, d - 1)
            rec(g, depth)
    return out


def refused_growth_histories():
    """a growth reallocation is refused: the insertion fails, contents / capacity / counts stay, and the container keeps working"""
    out = []
    for kind in ('arr', 'map', 'stri', 'strt'):
        for n in (0, 1, 2, 4, 8):
            g = Gen(None); sh = g.sh
            if kind == 'arr': sh.slots[0] = Obj('arr'); sh.reqs += 1; g.emit('arr 0 0 0', 'item'); op = 'push 0 1'
            elif kind == 'map': sh.slots[0] = Obj('map'); sh.reqs += 1; g.emit('map 0 0 0', 'item'); op = 'madd 0 1 1'
            else: sh.slots[0] = Obj('strI', text=(kind == 'strt')); sh.reqs += 2; g.emit('stri 0 %d' % (kind == 'strt'), 'item'); op = 'chunk 0 1'
            sh.slots[1] = Obj('str', text=(kind == 'strt'), data=b'x'); sh.reqs += 2; g.emit('str 1 %d 78' % (kind == 'strt'), 'item')
            C = sh.slots[0]
            def add():
                if len(C.kids) >= C.cap: C.cap = grow(C.cap); sh.reqs += 1
                C.kids.append((sh.slots[1], sh.slots[1]) if kind == 'map' else sh.slots[1]); g.emit(op, 'true')
            for _ in range(n): add()
            if len(C.kids) >= C.cap:      # the next insertion must grow
                for mode in (1, 2):
                    g.lines.append('HFAULT %d 0' % mode); g.expect.append('fault-schedule')
                    sh.reqs += 1; g.emit(op, 'false'); g.observe(0)
                    g.lines.append('HFAULT 0 0'); g.expect.append('fault-schedule')
            add(); g.observe(0)
            g.finish()
            out.append((['HRESET'] + g.lines, ['reset'] + g.expect))
    return out


class C12(HistProp):
    id = 'C12'
    also_release = True
    module = 'Cbor.Lemmas.SeqRefine'      # imports Cbor.Props.C12 (per-operation theorems) and adds the theorems about arbitrary operation sequences
    theorems = ['Props.C12.push_definite', 'Props.C12.push_indefinite', 'Props.C12.get_spec', 'Props.C12.get_out_of_range', 'Props.C12.replace_out_of_range',
                'Props.C12.set_spec', 'Props.C12.map_add_definite', 'Props.C12.map_add_indefinite', 'Props.C12.add_chunk_spec',
                'Props.C12.capFor_bounds', 'Props.C12.C12_logarithmic', 'Props.C12.C12_growth',
                'Props.C12.C12_array_sequences', 'Props.C12.C12_array_size_le_cap_every_step', 'Props.C12.C12_array_definite_pushes', 'Props.C12.C12_array_refused_untouched',
                'Props.C12.C12_map_sequences', 'Props.C12.C12_map_definite_adds', 'Props.C12.C12_chunk_sequences', 'Props.C12.C12_array_growth_sequences',
                'Props.C12.C12_map_growth_sequences', 'Props.C12.C12_chunk_growth_sequences']
    trusted_base = BASE_TRUST + HEAP_TRUST
    rule = ('operation sequences on every container kind (definite/indefinite array and map, chunked string): exhaustive sequences of length <= 3 (maps / chunked strings <= 6 in thorough) '
            'over push, set i, replace i, get i with i in 0..size+2, add-pair, add-chunk, definite capacities 0..4 (0..8 thorough); 3000 (6000 thorough) insertions into '
            'each growing container with the reallocation count checked at every step; growth runs of 1 .. 100000 (10^6 thorough) insertions per kind with the capacity after every insertion digested and the reallocations counted; a refused growth reallocation at sizes 0,1,2,4,8 (insertion fails, container intact and still usable); container-biased random histories; compared step by step with a '
            'Python list model and with the Lean heap model; non-trivial = any container operation; distinct by (operation, result line)')

    def histories(self, tier, rng):
        th = tier == 'thorough'
        hs = container_histories(['darr', 'dmap'], range(0, 9) if th else [0, 1, 2, 3, 4], 2)
        hs += container_histories(['darr'], [1, 2, 3] + ([4, 8] if th else []), 3)
        hs += container_histories(['iarr', 'imap', 'stri'], [0], 3)
        if th: hs += container_histories(['imap', 'stri'], [0], 6)
        hs += refused_growth_histories()
        for kind in ('arr', 'map', 'stri'):
            hs.append(hist.growth_history(kind, 6000 if th else 3000))
        for i in range(400 if th else 40):
            hs.append(hist.history(rng, 120, profile='containers'))
        return hs

    # ---- long growth runs (the geometric-growth clause at sizes where a linear policy would show): one line per run
    def growruns(self, tier):
        ns = [1, 2, 3, 5, 9, 1000, 8192, 8193, 20000, 100000] + ([1000000] if tier == 'thorough' else [])
        return ['GROWRUN %s %d' % (k, n) for k in 'ambs' for n in ns]

    def corr_lines(self, tier, rng):
        return self.growruns(tier) + super().corr_lines(tier, rng)

    def oracle(self, tier, ctx):
        fails = super().oracle(tier, ctx)
        lines = self.growruns(tier)
        out, rc, err = ctx.run_c(lines)
        for l, o in zip(lines, out):
            ctx.count(l, o); ctx.bump('GROWRUN')
            n = int(l.split()[2]); cap = 0; reqs = 0; h = 1469598103934665603
            for i in range(n):
                if i >= cap: cap = 1 if cap == 0 else 2 * cap; reqs += 1
                h = ((h ^ cap) * 1099511628211) % 2 ** 64
            exp = 'ok size=%d cap=%d reqs=%d digest=%016x' % (n, cap, reqs, h)
            if o != exp:
                fails.append({'input': l, 'expected': exp + '  (doubling: at most log2(n)+1 reallocations)', 'observed': o,
                              'why': 'n insertions into a growing container did not follow geometric growth (capacity after every insertion / number of reallocations)'})
        return fails[:20]

    def replay(self, ctx, rp):
        l = rp['failure']['input']
        if l.startswith('GROWRUN'):
            o, rc, _ = ctx.run_c([l])
            return [dict(rp['failure'], observed=o[0] if o else 'abort')] if rc != 0 or not o or not rp['failure']['expected'].startswith(o[0]) else []
        return super().replay(ctx, rp)


PROP = C12()

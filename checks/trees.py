"""Item trees in the harness / driver text syntax (fmtItem in lean/Cbor/Drv/Tree.lean, parse_tree in harness/tree_ops.c),
generated from the construction API's own vocabulary, plus a Python reference encoder used for sizes.

A tree is a tuple:  ('u'|'n', width, value) | ('b'|'t', bytes) | ('B'|'T', [bytes..]) | ('A'|'a', [tree..], flags) |
('M'|'m', [(k, v)..], flags) | ('G', tag, tree) | ('c', v) | ('h', f32bits) | ('s', f32bits) | ('d', f64bits)
flags: '+' spare capacity (partially filled definite container); members may be marked shared (pushed twice)."""
import struct
from . import gen

BOUND = [0, 1, 23, 24, 255, 256, 65535, 65536, 2 ** 32 - 1, 2 ** 32, 2 ** 64 - 1]


def hx(b): return b.hex() if b else '-'


def final(t):
    """trees modified in place after construction denote their final state:
    ('R', n, old, new)  a tag built around `old`, then re-pointed to `new` with cbor_tag_set_item     -> ('G', n, new)
    ('b2'|'t2', old, new)  a string whose handle is set twice on the same block                      -> ('b'|'t', new)
    ('b3'|'t3', old, new)  a string whose handle is replaced by another block, the first released by the client  -> ('b'|'t', new)
    ('>', old, new)  (only as an array member) pushed `old`, then replaced in place by `new`           -> new"""
    k = t[0]
    if k == 'R': return ('G', t[1], t[3])
    if k in ('b2', 't2', 'b3', 't3'): return (k[0], t[2])
    if k == '>': return final(t[2])
    if k == '!': return t[1]
    return t


def fmt(t):
    k = t[0]
    if k == 'R': return 'R(%d,%s,%s)' % (t[1], fmt(t[2]), fmt(t[3]))
    if k in ('b2', 't2'): return '%s(%s>%s)' % (k[0], hx(t[1]), hx(t[2]))
    if k in ('b3', 't3'): return '%s(%s>>%s)' % (k[0], hx(t[1]), hx(t[2]))      # second handle is another block; the client releases the first
    if k == '>': return fmt(t[1]) + '>' + fmt(t[2])
    if k == '!': return fmt(t[1]).replace('(', '!(', 1)      # the same leaf built through cbor_new_* + cbor_set_* (or cbor_new_null / undef / build_bool)
    if k in 'un': return '%s%d(%d)' % (k, t[1], t[2])
    if k in 'bt': return '%s(%s)' % (k, hx(t[1]))
    if k in 'BT': return '%s[%s]' % (k, ','.join('%s(%s)' % (k.lower(), hx(c)) for c in t[1]))
    if k in 'Aa':
        return k + ('+' if '+' in t[2] and k == 'A' else '') + '[' + ','.join(fmt(x[0]) + ('*' if x[1] else '') for x in t[1]) + ']'
    if k in 'Mm':
        return k + ('+' if '+' in t[2] and k == 'M' else '') + '[' + ','.join(fmt(x[0]) + ':' + fmt(x[1]) + ('*' if x[2] else '') for x in t[1]) + ']'
    if k == 'G': return 'G(%d,%s)' % (t[1], fmt(t[2]))
    return '%s(%d)' % (k, t[1])


def plain(t):
    """the text print_item / fmtItem prints (no flags, shared members expanded)"""
    t = final(t); k = t[0]
    if k in 'Aa':
        xs = []
        for x in t[1]: xs += [plain(x[0])] * (2 if x[1] else 1)
        return k + '[' + ','.join(xs) + ']'
    if k in 'Mm':
        xs = []
        for x in t[1]: xs += [plain(x[0]) + ':' + plain(x[1])] * (2 if x[2] else 1)
        return k + '[' + ','.join(xs) + ']'
    if k == 'G': return 'G(%d,%s)' % (t[1], plain(t[2]))
    return fmt(t)


def is_nan32(b): return (b >> 23) & 0xff == 0xff and b & 0x7fffff != 0
def is_nan64(b): return (b >> 52) & 0x7ff == 0x7ff and b & ((1 << 52) - 1) != 0


def f32_to_half(bits):
    if is_nan32(bits): return 0x7e00
    f = struct.unpack('>f', struct.pack('>I', bits))[0]
    return struct.unpack('>H', struct.pack('>e', f))[0]


def enc(t):
    """reference RFC 8949 encoding (independent of the Lean Spec; the two are compared in the oracle)"""
    t = final(t); k = t[0]
    if k in 'un':
        mt = 0 if k == 'u' else 1; w, v = t[1], t[2]
        if w == 8: return gen.head(mt, v, v if v < 24 else 24)
        return gen.head(mt, v, {16: 25, 32: 26, 64: 27}[w])
    if k in 'bt': return gen.head(2 if k == 'b' else 3, len(t[1])) + t[1]
    if k in 'BT':
        mt = 2 if k == 'B' else 3
        return bytes([0x5f if k == 'B' else 0x7f]) + b''.join(gen.head(mt, len(c)) + c for c in t[1]) + b'\xff'
    if k in 'Aa':
        body = b''; n = 0
        for x in t[1]:
            r = 2 if x[1] else 1; body += enc(x[0]) * r; n += r
        return (gen.head(4, n) + body) if k == 'A' else (b'\x9f' + body + b'\xff')
    if k in 'Mm':
        body = b''; n = 0
        for x in t[1]:
            r = 2 if x[2] else 1; body += (enc(x[0]) + enc(x[1])) * r; n += r
        return (gen.head(5, n) + body) if k == 'M' else (b'\xbf' + body + b'\xff')
    if k == 'G': return gen.head(6, t[1]) + enc(t[2])
    if k == 'c': return gen.head(7, t[1], t[1] if t[1] < 24 else 24)
    if k == 'h': return b'\xf9' + struct.pack('>H', f32_to_half(t[1]))
    if k == 's': return b'\xfa' + struct.pack('>I', 0x7fc00000 if is_nan32(t[1]) else t[1])
    if k == 'd': return b'\xfb' + struct.pack('>Q', 0x7ff8000000000000 if is_nan64(t[1]) else t[1])
    raise ValueError(k)


def norm(t):
    """the tree a decoder returns for enc(t): NaNs canonical, shared members expanded, flags dropped"""
    t = final(t); k = t[0]
    if k in 'Aa':
        xs = []
        for x in t[1]: xs += [(norm(x[0]), False)] * (2 if x[1] else 1)
        return (k, xs, '')
    if k in 'Mm':
        xs = []
        for x in t[1]: xs += [(norm(x[0]), norm(x[1]), False)] * (2 if x[2] else 1)
        return (k, xs, '')
    if k == 'G': return ('G', t[1], norm(t[2]))
    if k == 'h': return ('h', 0x7fc00000 if is_nan32(t[1]) else t[1])
    if k == 's': return ('s', 0x7fc00000 if is_nan32(t[1]) else t[1])
    if k == 'd': return ('d', 0x7ff8000000000000 if is_nan64(t[1]) else t[1])
    return t


def depth(t):
    t = final(t); k = t[0]
    if k in 'Aa': return (0 if (k == 'A' and not t[1]) else 1 + max([depth(x[0]) for x in t[1]] + [0]))
    if k in 'Mm': return (0 if (k == 'M' and not t[1]) else 1 + max([max(depth(x[0]), depth(x[1])) for x in t[1]] + [0]))
    if k == 'G': return 1 + depth(t[2])
    if k in 'BT': return 1
    return 0


HALVES = [0x0000, 0x8000, 0x3c00, 0xbc00, 0x7bff, 0x0001, 0x03ff, 0x0400, 0x7c00, 0xfc00, 0x7e00, 0xfe00, 0x7c01, 0x3555, 0xc500]


def leaves(assigned_only=True):
    out = []
    for k in 'un':
        for w in (8, 16, 32, 64):
            for v in BOUND + [22, 25, 254, 257, 2 ** 31, 2 ** 63]:
                if v < 2 ** w: out.append((k, w, v))
    for k in 'bt':
        for n in (0, 1, 2, 23, 24, 255, 256):
            out.append((k, bytes((97 + i % 26) for i in range(n))))
    out.append(('t', 'é€😀'.encode())); out.append(('t', b'\xc3\x28')); out.append(('b', bytes(range(256))))
    for v in ((20, 21, 22, 23) if assigned_only else (0, 1, 19, 20, 21, 22, 23, 24, 31, 32, 100, 255)): out.append(('c', v))
    for h in HALVES: out.append(('h', gen.half_to_f32bits(h)))
    for b in (0, 0x80000000, 0x3f800000, 0x7f800000, 0xff800000, 0x7fc00000, 0x7fc00001, 0xffc00000, 0x7f800001, 0x00000001, 0x7f7fffff, 0x3eaaaaab):
        out.append(('s', b))
    for b in (0, 1 << 63, 0x3ff0000000000000, 0x7ff0000000000000, 0xfff0000000000000, 0x7ff8000000000000, 0x7ff8000000000001,
              0xfff8000000000000, 0x7ff0000000000001, 1, 0x7fefffffffffffff, 0x3fd5555555555555):
        out.append(('d', b))
    return out


def strings_indef(rng):
    out = []
    for k in 'BT':
        out.append((k, []))
        for n in (1, 2, 3, 5):
            out.append((k, [bytes(65 + rng.below(26) for _ in range(rng.choice([0, 1, 2, 3, 23, 24, 30]))) for _ in range(n)]))
        out.append((k, [b'', b'']))
        out.append((k, [bytes(97 for _ in range(256)), b'x']))
    return out


def wrap(pool, rng, count):
    out = []
    def pick(): return rng.choice(pool)
    for _ in range(count):
        kind = rng.below(8)
        if kind == 0:
            n = rng.choice([0, 1, 2, 3, 4, 23, 24, 25])
            out.append(('A', [(pick(), rng.chance(1, 10)) for _ in range(n)], '+' if rng.chance(1, 4) else ''))
        elif kind == 1:
            n = rng.choice([0, 1, 2, 3, 5])
            out.append(('a', [(pick(), rng.chance(1, 10)) for _ in range(n)], ''))
        elif kind == 2:
            n = rng.choice([0, 1, 2, 3, 23, 24])
            out.append(('M', [(pick(), pick(), rng.chance(1, 10)) for _ in range(n)], '+' if rng.chance(1, 4) else ''))
        elif kind == 3:
            n = rng.choice([0, 1, 2, 3])
            out.append(('m', [(pick(), pick(), rng.chance(1, 10)) for _ in range(n)], ''))
        elif kind in (4, 5):
            out.append(('G', rng.choice(BOUND + [2, 55799]), pick()))
        else:
            out.append(rng.choice(pool))
    return out


def corpus(tier, rng, assigned_only=True):
    """leaves of every kind x boundary value, indefinite strings, and nested containers up to depth 4 (5 in thorough)"""
    L0 = leaves(assigned_only) + strings_indef(rng)
    small = [t for t in L0 if len(enc(t)) <= 12]
    k = 3000 if tier == 'thorough' else 120
    L1 = wrap(small, rng, k)
    # one of each container around each kind of leaf
    for t in small[::7]:
        L1 += [('A', [(t, False)], ''), ('a', [(t, False)], ''), ('M', [(t, t, False)], ''), ('m', [(t, t, False)], ''), ('G', 1, t)]
    L1 = [t for t in L1 if len(enc(t)) <= 400]
    L2 = wrap(small + [t for t in L1 if len(enc(t)) <= 40], rng, k)
    L2 = [t for t in L2 if len(enc(t)) <= 600]
    L3 = wrap([t for t in L1 + L2 if len(enc(t)) <= 60], rng, k)
    L3 = [t for t in L3 if len(enc(t)) <= 800]
    out = L0 + L1 + L2 + L3
    if tier == 'thorough':
        L4 = wrap([t for t in L2 + L3 if len(enc(t)) <= 80], rng, k)
        out += [t for t in L4 if len(enc(t)) <= 1200]
    # header-width boundaries of counts and lengths
    one = ('u', 8, 1)
    for n in (255, 256, 65535, 65536):
        out.append(('A', [(one, False)] * n, ''))
        out.append(('b', bytes(n)))
    out.append(('M', [(one, one, False)] * 256, ''))
    out.append(('a', [(one, False)] * 300, ''))
    # trees modified in place after construction (only the construction API can make these): re-pointed tags, strings whose handle is set a
    # second time on the same block with another length, array members replaced after being pushed - alone and nested
    mods = []
    lv = [('u', 8, 7), ('n', 16, 300), ('t', b'abc'), ('b', b''), ('d', 0x3ff8000000000000), ('s', 1000000), ('A', [(('u', 8, 1), False)], ''), ('T', [b'ab', b''])]
    for i, a in enumerate(lv):
        b = lv[(i + 3) % len(lv)]
        mods.append(('R', [0, 24, 1000000][i % 3], a, b))
        mods.append(('A', [(('>', a, b), False), (one, False)], '+' if i % 2 else ''))
        mods.append(('a', [(one, False), (('>', a, b), False), (('>', b, a), False)], ''))
    for old, new in ((b'abcdefghijklmnopqrst', b'0123456789'), (b'xy', b'0123456789abcdefghijklmnopqrstuvwxyz'), (b'abc', b''), (b'', b'\xc3\xa9'), (b'\xc3\xa9\xc3', b'ok')):
        mods.append(('t2', old, new)); mods.append(('b2', old, new))
        mods.append(('M', [(('t2', old, new), ('b2', new, old), False)], ''))
        mods.append(('G', 2, ('t2', old, new)))
        mods.append(('t3', old, new)); mods.append(('b3', old, new)); mods.append(('A', [(('t3', new, old), False), (('b3', old, new), False)], ''))
    for lf in leaves(assigned_only)[::3]:
        if lf[0] in 'unhsdc': mods.append(('!', lf)); mods.append(('A', [(('!', lf), False), (lf, False)], ''))
    mods.append(('R', 5, ('R', 6, one, ('t', b'x')), ('A', [(('>', one, ('R', 7, one, ('u', 16, 9))), False)], '')))
    out += mods
    # deep chains
    t = one
    for d in range(40): t = ('G', d, t) if d % 3 == 0 else (('A', [(t, False)], '') if d % 3 == 1 else ('m', [(one, t, False)], ''))
    out.append(t)
    seen = set(); uniq = []
    for t in out:
        f = fmt(t)
        if f not in seen: seen.add(f); uniq.append(t)
    return uniq


# binary32 values a half-width item can be made to hold through the item API although no half denotes them (too large, too small, in between):
# what cbor_encode_half writes for them is not determined by the RFC, but it is three bytes, and the item is not modified
ODD_HALF_BITS = [0x47C35000, 0x477FF000, 0x47800000, 0x4048F5C3, 0x3DCCCCCD, 0x15F79688, 0x00800000, 0x33000000, 0x33800001, 0x33C00000, 0x7149F2CA, 0xC7C35000, 0x7F7FFFFF,
                 0xFF7FFFFF, 0x00000001, 0x80000001, 0x38800001, 0x387FFFFF, 0x477FE001, 0xC048F5C3]

from vlib.flow import Prop
from vlib import core
from .common import BASE_TRUST
from . import gen


class C08(Prop):
    id = 'C08'
    module = 'Cbor.Props.C08'
    theorems = ['Props.C08.C08_contract', 'Props.C08.C08_safe', 'Props.C08.C08_prefix_indep',
                'Lemmas.sd_spec', 'Lemmas.sd_ok']
    trusted_base = BASE_TRUST + [
        'C08: _cbor_load_half/_cbor_decode_half is hand-modelled (Ext.decodeHalfBits), compared with the compiled function on all 65536 inputs in C15',
        'C08: "allocates nothing" is checked by the request counter of the instrumenting allocator and by the effect census (C13), not by a theorem over the generated function (which has no allocator in it)',
        'C08: statelessness is the purity of the generated Lean function plus the census fact that cbor_stream_decode writes no static object']
    rule = ('one cbor_stream_decode call per buffer: every initial byte x every truncation 0..head+1, 1-byte arguments exhaustive, '
            '2-byte arguments exhaustive in thorough / boundary+random in quick, 4/8-byte arguments 2^k-1,2^k,2^k+1 and random, '
            'string payloads at declared length -1/0/+1; non-trivial = buffer of at least 1 byte; distinct by (buffer, result)')

    def corr_lines(self, tier, rng):
        bufs = gen.head_buffers(tier, rng)
        return ['SD ' + gen.hexs(b) for b in bufs] + ['SDE ' + gen.hexs(b) for b in bufs[::3]]

    def nontrivial(self, line, out):
        return line not in ('SD -', 'SDE -')

    # ---------------------------------------------------------------- oracle
    def judge(self, buf, c_out, spec_out):
        """returns None or a reason string"""
        cw = c_out.split(' ', 3)
        if len(cw) < 4: return 'unparseable implementation output'
        status, read, required = int(cw[0]), int(cw[1]), int(cw[2])
        rest = cw[3]
        ok = rest.rsplit(' ok=', 1)
        events, noalloc = ok[0], ok[1] if len(ok) > 1 else '?'
        if noalloc != '1': return 'the call requested memory from the allocator'
        sw = spec_out.split(' ')
        if sw[0] == 'ok':
            l = int(sw[1]); tok = ' '.join(sw[2:])
            if status != 0: return 'complete head but status %d' % status
            if read != l: return 'read=%d but the head (and payload) occupies %d bytes' % (read, l)
            if ';' in events or events == 'none': return 'expected exactly one callback, got: ' + events
            if tok.startswith('half '):
                exp = gen.half_to_f32bits(int(tok.split()[1]))
                ev = events.split()
                if ev[0] != 'float2': return 'expected float2 callback, got ' + events
                got = int(ev[1])
                if got != exp and not (gen.is_nan32(got) and gen.is_nan32(exp)): return 'half value: expected bits %d got %d' % (exp, got)
            elif events != tok:
                return 'callback "%s" but the head denotes "%s"' % (events, tok)
            ew = events.split()
            if ew[0] in ('byte_string', 'string'):
                if int(ew[1]) + int(ew[2]) > len(buf): return 'payload outside the buffer'
            return None
        if sw[0] == 'nedata':
            need = int(sw[1])
            if status != 1: return 'truncated head but status %d' % status
            if events != 'none': return 'callback on NEDATA: ' + events
            if read != 0: return 'read=%d on NEDATA' % read
            if not (len(buf) < required <= need): return 'required=%d not in (%d, %d]' % (required, len(buf), need)
            return None
        if status != 2: return 'reserved/unsupported initial byte but status %d' % status
        if events != 'none': return 'callback on ERROR: ' + events
        if read != 0: return 'read=%d on ERROR' % read
        return None

    def oracle(self, tier, ctx):
        rng = core.Rng('C08-oracle')
        bufs = gen.head_buffers(tier, rng)
        # prefix independence: for a sample, replace everything after the reported read by other bytes
        lines = ['SD ' + gen.hexs(b) for b in bufs]
        c_out, rc, err = ctx.run_c(lines)
        if rc != 0:
            i, l, e = core.first_crash_line(ctx.harness, lines)
            return [{'input': l, 'expected': 'a result', 'observed': 'implementation aborted', 'why': e[-800:]}]
        s_out, _, _ = ctx.run_spec(['HEAD ' + gen.hexs(b) for b in bufs])
        fails = []
        extra = []
        for b, co, so in zip(bufs, c_out, s_out):
            ctx.count('SD ' + gen.hexs(b), co); ctx.bump('status_' + co.split(' ', 1)[0]); ctx.bump('len_%d' % min(len(b), 12))
            why = self.judge(b, co, so)
            if why:
                fails.append({'input': 'SD ' + gen.hexs(b), 'expected': 'spec: ' + so, 'observed': co, 'why': why})
            elif co.startswith('0 ') and rng.chance(1, 4):
                read = int(co.split()[1])
                extra.append((b, co, b[:read] + bytes(rng.below(256) for _ in range(rng.below(4)))))
        if extra:
            o2, rc2, _ = ctx.run_c(['SD ' + gen.hexs(x[2]) for x in extra])
            for (b, co, b2), co2 in zip(extra, o2):
                ctx.count('SD ' + gen.hexs(b2), co2); ctx.bump('prefix_indep')
                if co2 != co:
                    fails.append({'input': 'SD ' + gen.hexs(b2), 'expected': co + '  (as for ' + gen.hexs(b) + ')', 'observed': co2,
                                  'why': 'FINISHED result depends on bytes beyond read'})
        # the do-nothing callback table of the library itself: same status / read / required, no allocation
        el = ['SDE ' + gen.hexs(b) for b in bufs[::3]]
        eo, rc3, err3 = ctx.run_c(el)
        if rc3 != 0:
            i, l, e = core.first_crash_line(ctx.harness, el)
            return fails + [{'input': l, 'expected': 'a result', 'observed': 'implementation aborted with cbor_empty_callbacks', 'why': e[-800:]}]
        for b, co, eo1 in zip(bufs[::3], c_out[::3], eo):
            ctx.count('SDE ' + gen.hexs(b), eo1); ctx.bump('empty_callbacks')
            cw = co.split(' ', 3); ew = eo1.split()
            if ew[:3] != cw[:3] or ew[-1] != 'ok=1':
                fails.append({'input': 'SDE ' + gen.hexs(b), 'expected': ' '.join(cw[:3]) + ' ok=1 (as with recording callbacks)', 'observed': eo1,
                              'why': 'with cbor_empty_callbacks the result struct differs or memory was requested'})
        ctx.exhaustive['initial_byte'] = True
        ctx.exhaustive['one_byte_arguments'] = True
        ctx.exhaustive['two_byte_arguments'] = (tier == 'thorough')
        return fails[:20]

    def replay(self, ctx, rp):
        l = rp['failure']['input']
        b = bytes.fromhex(l.split()[1]) if l.split()[1] != '-' else b''
        if l.startswith('SDE '):
            eo, rc, _ = ctx.run_c([l]); co, _, _ = ctx.run_c(['SD ' + l.split()[1]])
            bad = rc != 0 or eo[0].split()[:3] != co[0].split(' ', 3)[:3] or eo[0].split()[-1] != 'ok=1'
            return [dict(rp['failure'], observed=eo[0] if eo else 'abort')] if bad else []
        co, rc, err = ctx.run_c([l]); so, _, _ = ctx.run_spec(['HEAD ' + gen.hexs(b)])
        if rc != 0: return [dict(rp['failure'], observed='implementation aborted')]
        if 'depends on bytes beyond read' in rp['failure'].get('why', ''):
            return [dict(rp['failure'], observed=co[0])] if co[0] != rp['failure']['expected'].split('  (as for')[0] else []
        why = self.judge(b, co[0], so[0])
        return [dict(rp['failure'], observed=co[0], why=why)] if why else []


PROP = C08()

"""ACC lines (generated model lean/Cbor/Gen/Accessors2.lean vs the compiled library) for the float getters / setters (used by C15) and the
handle setters of text / byte strings (used by C16), plus an independent expectation for each line computed here (Python `struct` /
CPython's strict UTF-8 decoder), so that a change of the source shows as a concrete failing input even when model and implementation
still agree with each other.

    ACC <fn> <type> <a> <b> <c> <refcount> <hexdata> <value>                floats: <value> = IEEE-754 bit pattern, result likewise
    ACC <fn> <type> <a> <b> <c> <refcount> <hexdata> <length> <hexbytes>    handle setters: the buffer handed over and the length argument
"""
import struct

FLOAT_GET = {'cbor_float_get_float2': (1, 4), 'cbor_float_get_float4': (2, 4), 'cbor_float_get_float8': (3, 8)}   # fn -> (width tag, bytes)
FLOAT_SET = {'cbor_set_float2': (1, 4), 'cbor_set_float4': (2, 4), 'cbor_set_float8': (3, 8)}
FLOAT_ALL = list(FLOAT_GET) + ['cbor_float_get_float'] + list(FLOAT_SET)
HANDLE_ALL = ['cbor_string_set_handle', 'cbor_bytestring_set_handle']

# boundary patterns: +-0, smallest / largest subnormal, smallest / largest normal, 1.0, +-inf, quiet / signalling NaNs with payloads
B32 = [0x00000000, 0x80000000, 0x00000001, 0x80000001, 0x007fffff, 0x807fffff, 0x00400000, 0x00000002, 0x00000003, 0x00012345,
       0x00800000, 0x80800000, 0x7f7fffff, 0xff7fffff, 0x3f800000, 0xbf800000, 0x3f800001, 0x00800001, 0x7f000000,
       0x7f800000, 0xff800000,
       0x7fc00000, 0xffc00000, 0x7f800001, 0xff800001, 0x7fffffff, 0xffffffff, 0x7fa00000, 0x7fbfffff, 0x7fc00001, 0xffd55555, 0x7f812345]
B64 = [0x0000000000000000, 0x8000000000000000, 0x0000000000000001, 0x8000000000000001, 0x000fffffffffffff, 0x800fffffffffffff,
       0x0010000000000000, 0x8010000000000000, 0x7fefffffffffffff, 0xffefffffffffffff, 0x3ff0000000000000, 0xbff0000000000000,
       0x7ff0000000000000, 0xfff0000000000000,
       0x7ff8000000000000, 0xfff8000000000000, 0x7ff0000000000001, 0xfff0000000000001, 0x7fffffffffffffff, 0xffffffffffffffff,
       0x7ff4000000000000, 0x7ff00000ffffffff, 0x7ff8000000000001, 0xfff5555555555555]


def widen(b):
    """(double)f on bit patterns, by the hardware (C float -> double conversion inside CPython's struct module)"""
    return struct.unpack('<Q', struct.pack('<d', struct.unpack('<f', struct.pack('<I', b))[0]))[0]


def acc_line(fn, ty, a=0, b=0, c=0, rc=1, data=b'', v=0, handle=None):
    l = 'ACC %s %d %d %d %d %d %s %d' % (fn, ty, a, b, c, rc, data.hex() or '-', v)
    return l if handle is None else l + ' ' + (handle.hex() or '-')


def le(v, n): return v.to_bytes(n, 'little')


# ------------------------------------------------------------------------------------------------ floats (C15)
def float_lines(tier, rng):
    L = []
    rnd32 = [rng.next() & 0xffffffff for _ in range(400 if tier == 'thorough' else 60)]
    rnd64 = [rng.next() for _ in range(400 if tier == 'thorough' else 60)]
    tail = b'\xee'
    # getters: every boundary pattern + random sample, stored in an item of the right width (one extra byte behind: must be left alone)
    for b in B32 + rnd32:
        for fn in ('cbor_float_get_float2', 'cbor_float_get_float4', 'cbor_float_get_float'):
            for w in ((1, 2) if fn == 'cbor_float_get_float' else (FLOAT_GET[fn][0],)):
                L.append(acc_line(fn, 7, w, 0, 0, 1, le(b, 4) + tail))
    for b in B64 + rnd64:
        for fn in ('cbor_float_get_float8', 'cbor_float_get_float'):
            L.append(acc_line(fn, 7, 3, 0, 0, 1, le(b, 8) + tail))
    # setters: every pattern into an item holding a recognisable old payload
    old = bytes(range(0x11, 0x11 + 9 * 0x11, 0x11))
    for b in B32 + rnd32:
        L.append(acc_line('cbor_set_float2', 7, 1, 0, 0, 1, old[:5], b)); L.append(acc_line('cbor_set_float4', 7, 2, 0, 0, 1, old[:5], b))
    for b in B64 + rnd64:
        L.append(acc_line('cbor_set_float8', 7, 3, 0, 0, 1, old[:9], b))
    # set-then-set: the item already holds the first value (what the first call left), the second call must replace it -- +0 then -0,
    # -0 then +0, a value over itself, a NaN over another / the same NaN, numerically equal but distinct patterns do not exist otherwise
    z32 = [0x00000000, 0x80000000, 0x3f800000, 0x7fc00000, 0x7f800001, 0xffc00000, 0x00000001, 0x7f800000]
    z64 = [0x0000000000000000, 0x8000000000000000, 0x3ff0000000000000, 0x7ff8000000000000, 0x7ff0000000000001, 0xfff8000000000000, 1, 0x7ff0000000000000]
    for a in z32:
        for b in z32:
            L.append(acc_line('cbor_set_float2', 7, 1, 0, 0, 1, le(a, 4), b)); L.append(acc_line('cbor_set_float4', 7, 2, 0, 0, 1, le(a, 4), b))
    for a in z64:
        for b in z64:
            L.append(acc_line('cbor_set_float8', 7, 3, 0, 0, 1, le(a, 8), b))
    # assertions and bounds: every function x type tags 0..8 x width tags 0..4 x payload lengths around 4 / 8
    for fn in FLOAT_ALL:
        for ty in range(9):
            for w in range(5):
                for n in ((0, 1, 3, 4, 5, 7, 8, 9) if ty == 7 else (8,)):
                    L.append(acc_line(fn, ty, w, 20, 0, 2, old[:n], 0x3f800000 if fn != 'cbor_set_float8' else 0x3ff0000000000000))
    if tier == 'thorough':
        for _ in range(3000):
            fn = rng.choice(FLOAT_ALL)
            L.append(acc_line(fn, rng.choice([7, 7, 7, 7, rng.below(9)]), rng.choice([1, 2, 3, rng.below(6)]), rng.below(256), 0, rng.choice([0, 1, rng.next()]),
                              rng.bytes(rng.choice([0, 3, 4, 5, 7, 8, 9, 16])), rng.next() if fn == 'cbor_set_float8' else rng.next() & 0xffffffff))
    return L


def float_expect(line):
    """what the library documents for this call, computed independently of model and implementation; None = no expectation"""
    w = line.split()
    if len(w) != 9 or w[0] != 'ACC' or w[1] not in FLOAT_ALL: return None
    fn, ty, wd, ctrl, rc = w[1], int(w[2]), int(w[3]), int(w[4]), int(w[6])
    data = b'' if w[7] == '-' else bytes.fromhex(w[7]); v = int(w[8])
    if ty != 7 or wd == 0: return 'ok=0'                                  # CBOR_ASSERT(cbor_is_float(item))
    item = lambda d: ' t=7 m=%d,%d,0 rc=%d d=%s ok=1' % (wd, ctrl, rc, d.hex() or '-')
    if fn == 'cbor_float_get_float':
        if wd in (1, 2):
            return 'ok=0' if len(data) < 4 else '%d' % widen(int.from_bytes(data[:4], 'little')) + item(data)
        if wd == 3:
            return 'ok=0' if len(data) < 8 else '%d' % int.from_bytes(data[:8], 'little') + item(data)
        return '0' + item(data)                                            # width tag outside the enumeration: the default branch
    wt, n = (FLOAT_GET.get(fn) or FLOAT_SET[fn])
    if wd != wt or len(data) < n: return 'ok=0'                           # CBOR_ASSERT(width == ...), payload of the item too short
    if fn in FLOAT_GET: return '%d' % int.from_bytes(data[:n], 'little') + item(data)
    return '-' + item(le(v % 2 ** (8 * n), n) + data[n:])                 # the setters store the pattern as is, nothing else changes


# ------------------------------------------------------------------------------------------------ handle setters (C16)
def utf8_cases(rng, tier):
    scal = [0x24, 0x7f, 0x80, 0x7ff, 0x800, 0x20ac, 0xd7ff, 0xe000, 0xffff, 0x10000, 0x1f600, 0x10ffff]
    enc = [chr(c).encode('utf-8') for c in scal]
    out = [b'', b'a', b'hello', b'h\xc3\xa9llo\xe2\x82\xac\xf0\x9f\x98\x80'] + enc
    out += [b'\x80', b'\xbf', b'\xff', b'\xfe', b'\xc0\x80', b'\xc1\xbf', b'\xe0\x80\x80', b'\xe0\x9f\xbf', b'\xf0\x80\x80\x80', b'\xf0\x8f\xbf\xbf',   # stray / overlong
            b'\xed\xa0\x80', b'\xed\xbf\xbf', b'\xed\xa0\x80\xed\xb0\x80',                                                                            # surrogates
            b'\xf4\x90\x80\x80', b'\xf5\x80\x80\x80', b'\xf8\x88\x80\x80\x80',                                                                        # above U+10FFFF
            b'\xc3', b'\xe2\x82', b'\xf0\x9f\x98', b'ab\xc3', b'ab\xe2\x82', b'\xf0\x9f',                                                             # truncated
            b'a\xc3\x28', b'\xe2\x28\xa1', b'\xe2\x82\x28', b'\xf0\x28\x8c\xbc', b'\xf0\x90\x28\xbc', b'\xf0\x28\x8c\x28', b'ab\xffcd', b'\xc3\xa9\xc3']
    for e in enc:
        if len(e) > 1:
            for k in range(1, len(e)): out.append(e[:k]); out.append(b'x' + e[:k] + b'y')
    for _ in range(300 if tier == 'thorough' else 40):
        s = b''.join(rng.choice(enc) if rng.chance(3, 4) else bytes([rng.below(256)]) for _ in range(1 + rng.below(6)))
        out.append(s)
    seen = [];
    for b in out:
        if b not in seen: seen.append(b)
    return seen


def handle_lines(tier, rng):
    L = []
    old = b'\xaa\xbb\xcc'
    cases = utf8_cases(rng, tier)
    for b in cases:
        # a fresh item (count 0), an item that already has a non-zero count (7, and 2^64-1), length = all bytes
        for prev in (0, 7, 2 ** 64 - 1):
            L.append(acc_line('cbor_string_set_handle', 3, 5, prev, 0, 1, old, len(b), b))
        L.append(acc_line('cbor_bytestring_set_handle', 2, 5, 0, 0, 1, old, len(b), b))
        # the length argument need not be the size of the buffer: shorter (a prefix is attached), longer (reads past the buffer unless the text is rejected before)
        if len(b) >= 1:
            L.append(acc_line('cbor_string_set_handle', 3, 1, 9, 0, 1, old, len(b) - 1, b))
        L.append(acc_line('cbor_string_set_handle', 3, 1, 9, 0, 1, old, len(b) + 1, b))
    # assertions: type tags 0..8, definite / indefinite / junk metadata type
    for fn in HANDLE_ALL:
        for ty in range(9):
            for dst in (0, 1, 2):
                a, b, c = (3, dst, 0) if ty == 2 else (3, 4, dst)
                L.append(acc_line(fn, ty, a, b, c, 2, old, 4, b'h\xc3\xa9l'))
    L.append(acc_line('cbor_bytestring_set_handle', 2, 0, 0, 0, 1, b'', 2 ** 64 - 1, b'\x01\x02'))     # stores any length, reads nothing
    L.append(acc_line('cbor_string_set_handle', 3, 0, 0, 0, 1, b'', 0, b'\xff'))                       # length 0: nothing is read
    return L


def py_count(b):
    try:
        return len(b.decode('utf-8', errors='strict'))
    except UnicodeDecodeError:
        return None


def rejects(b):
    """does a strict decoder reject `b` at one of its bytes (as opposed to: valid so far, possibly ending inside a sequence)"""
    try:
        b.decode('utf-8', errors='strict'); return False
    except UnicodeDecodeError as ex:
        return ex.reason != 'unexpected end of data'


def handle_expect(line):
    w = line.split()
    if len(w) != 10 or w[0] != 'ACC' or w[1] not in HANDLE_ALL: return None
    fn, ty, a, b, c, rc, ln = w[1], int(w[2]), int(w[3]), int(w[4]), int(w[5]), int(w[6]), int(w[8])
    hb = b'' if w[9] == '-' else bytes.fromhex(w[9])
    if fn == 'cbor_bytestring_set_handle':
        if ty != 2 or b != 0: return 'ok=0'
        return '- t=2 m=%d,0,0 rc=%d d=%s ok=1' % (ln, rc, hb.hex() or '-')
    if ty != 3 or c != 0: return 'ok=0'
    if ln > len(hb):
        if not rejects(hb): return 'ok=0'             # the counter walks off the end of the buffer
        cnt = 0
    else:
        cnt = py_count(hb[:ln]) or 0                  # RFC 3629: number of scalar values, 0 for anything that is not valid UTF-8
    return '- t=3 m=%d,%d,0 rc=%d d=%s ok=1' % (ln, cnt, rc, hb.hex() or '-')


def oracle(ctx, lines, expect, what):
    """run the lines on the implementation alone and compare with the independent expectation"""
    out, rc, err = ctx.run_c(lines)
    if rc != 0 or len(out) != len(lines):
        return [{'input': lines[min(len(out), len(lines) - 1)], 'expected': 'a result line', 'observed': 'implementation aborted rc=%d' % rc, 'why': err[-600:]}]
    fails = []
    for l, o in zip(lines, out):
        e = expect(l)
        ctx.count(l, o); ctx.bump('acc_' + l.split()[1])
        if e is not None and o != e:
            fails.append({'input': l, 'expected': e, 'observed': o, 'why': what})
    return fails

from vlib import core
from . import gen, dec
from .C02 import C02


class C05(C02):
    id = 'C05'
    module = 'Cbor.Props.C05'
    extra_modules = ['Cbor.Props.HeapLoad']
    theorems = ['Props.HeapLoad.failed_load_clean', 'HB.hload_refines', 'Props.C05.C05_code_pos', 'Props.C05.C05_fields_written', 'Props.C05.C05_empty', 'Props.C05.C05_prefix',
                'Lemmas.Refine.load_eq', 'Lemmas.Local.run_trunc', 'Lemmas.Fund.abs_decode_eq']
    rule = ('inputs outside the accepted language: every proper prefix of every enumerated well-formed item, every single-edit corruption, all '
            'strings of length <= 2, random; result struct pre-filled with a sentinel; eager and lazy reporting inside chunked strings both '
            'accepted; non-trivial = a failing input of more than one byte; distinct by (input, outcome)')

    def inputs(self, tier, rng):
        bufs, wf, nb, rnd = dec.corpus(tier, rng)
        pre = []
        for b in wf:
            for k in range(len(b)): pre.append(b[:k])
        return bufs + nb + pre + rnd

    def nontrivial(self, line, out):
        return out.startswith('ERR') and len(line.split()[1]) > 2


PROP = C05()

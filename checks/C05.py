from vlib import core
from . import gen, dec
from .C02 import C02


class C05(C02):
    id = 'C05'
    module = 'Cbor.Props.C05'
    extra_modules = ['Cbor.Props.HeapLoad']
    theorems = ['Props.HeapLoad.failed_load_clean', 'HB.hload_refines', 'Props.C05.C05_code_pos', 'Props.C05.C05_fields_written', 'Props.C05.C05_empty', 'Props.C05.C05_prefix',
                'Lemmas.Refine.load_eq', 'Lemmas.Local.run_trunc', 'Lemmas.Fund.abs_decode_eq']
    rule = ('inputs outside the accepted language: every proper prefix of every enumerated well-formed item, every single-edit corruption, all '
            'strings of length <= 2, random; result struct pre-filled with a sentinel; eager and lazy reporting inside chunked strings both '
            'accepted; nested inputs under every single-fault and fail-stop refusal schedule (code MEMERROR, position just past the refused head, nothing left allocated, never a partial item: compared with the model of cbor_load); non-trivial = a failing input of more than one byte; distinct by (input, outcome)')

    def inputs(self, tier, rng):
        bufs, wf, nb, rnd = dec.corpus(tier, rng)
        pre = []
        for b in wf:
            for k in range(len(b)): pre.append(b[:k])
        return bufs + nb + pre + rnd

    def nontrivial(self, line, out):
        return out.startswith('ERR') and len(line.split()[1]) > 2

    # ---- refused allocations: "MEMERROR just past a head whose allocation was refused", nothing left allocated, never a partial item
    def faulted(self, tier, rng):
        _, wf, _, _ = dec.corpus('quick', rng, rounds=1)
        nested = [b for b in wf if 3 <= len(b) <= 40 and sum(1 for c in b if (c >> 5) in (4, 5, 6) or c in (0x5f, 0x7f, 0x9f, 0xbf)) >= 2]
        nested += [bytes.fromhex(h) for h in ('9fc1a1008105ff', 'bf01a20203040506ff', '9f9fa10001ffff', '82a1009f01ff5f4100ff', 'bf61619f0102ff6162a1000000ff',
                                              '9fc1c2a100a1010203ff', 'd9d9f79f82010203a10405ff')]
        nested = nested[:: (1 if tier == 'thorough' else max(1, len(nested) // 120))]
        lines = []
        for b in nested:
            for k in range(0, 26):
                lines.append('LOAD %s 1 %d' % (gen.hexs(b), k)); lines.append('LOAD %s 2 %d' % (gen.hexs(b), k))
        return lines

    def corr_lines(self, tier, rng):
        return super().corr_lines(tier, rng) + self.faulted(tier, core.Rng('C05-faulted'))

    def oracle(self, tier, ctx):
        fails = super().oracle(tier, ctx)
        lines = self.faulted(tier, core.Rng('C05-faulted'))
        c_out, rc, err = ctx.run_c(lines)
        if rc != 0:
            i, l, e = core.first_crash_line(ctx.harness, lines)
            return fails + [{'input': l, 'expected': 'NULL + MEMERROR, or an item', 'observed': 'implementation aborted / sanitizer report', 'why': e[-900:]}]
        m_out, _, _ = ctx.run_drv(lines) if ctx.model_ok else (c_out, 0, '')
        free = {}
        for l, co, mo in zip(lines, c_out, m_out):
            ctx.count(l, co); ctx.bump('faulted_' + (co.split()[1] if co.startswith('ERR') else 'OK'))
            w = l.split(); b = w[1]
            d = dec.parse_load(co)
            why = None
            if d.get('ok') is False and d.get('live') != '0': why = 'failed load left %s block(s) allocated' % d.get('live')
            elif co != mo:
                why = 'under this refusal schedule the implementation reports %r, the model of cbor_load (proved to report MEMERROR just past the head whose allocation was refused, and never a partial item) reports %r' % (co[:160], mo[:160])
            if why and len(fails) < 20:
                fails.append({'input': l, 'expected': mo[:300], 'observed': co[:300], 'why': why})
        return fails[:20]

    def replay(self, ctx, rp):
        l = rp['failure']['input']; w = l.split()
        if len(w) >= 4 and w[2] in ('1', '2'):
            co, rc, _ = ctx.run_c([l]); mo, _, _ = ctx.run_drv([l])
            return [dict(rp['failure'], observed=(co[0] if co else 'abort')[:300])] if rc != 0 or co != mo else []
        return super().replay(ctx, rp)


PROP = C05()

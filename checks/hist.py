"""API histories with a shadow ownership graph (properties C04, C06, C11, C12, C13).

The shadow is deliberately naive: objects with child lists; the expected reference count of an object is the
number of slots holding it plus the number of times it occurs as a child of an object reachable from a slot;
expected contents are plain Python lists.  It predicts the result line of every fault-free operation."""
from . import gen

NSLOT = 16


class Obj:
    __slots__ = ('kind', 'text', 'definite', 'cap', 'kids', 'tagn', 'leaf', 'data')

    def __init__(self, kind, **kw):
        self.kind = kind; self.text = kw.get('text', False); self.definite = kw.get('definite', False)
        self.cap = kw.get('cap', 0); self.kids = []; self.tagn = kw.get('tagn', 0); self.leaf = kw.get('leaf', ''); self.data = kw.get('data', b'')

    def children(self):
        if self.kind == 'map': return [x for kv in self.kids for x in kv]
        return list(self.kids)

    def blocks(self):
        k = self.kind
        if k == 'str': return 2
        if k == 'strI': return 2 + (1 if self.cap else 0)
        if k in ('arr', 'map'): return 2 if self.definite else 1 + (1 if self.cap else 0)
        return 1

    def dump(self):
        k = self.kind
        if k == 'leaf': return self.leaf
        if k == 'str': return '%s(%s)' % ('t' if self.text else 'b', self.data.hex() or '-')
        if k == 'strI': return ('T' if self.text else 'B') + '[' + ','.join(c.dump() for c in self.kids) + ']'
        if k == 'arr': return ('A' if self.definite else 'a') + '[' + ','.join(c.dump() for c in self.kids) + ']'
        if k == 'map': return ('M' if self.definite else 'm') + '[' + ','.join(a.dump() + ':' + b.dump() for a, b in self.kids) + ']'
        if k == 'tag': return 'G(%d,%s)' % (self.tagn, self.kids[0].dump() if self.kids else 'NULL')

    def complete(self):
        """no tag without an item below (cbor_copy / serialization need complete trees)"""
        if self.kind == 'tag' and not self.kids: return False
        return all(c.complete() for c in self.children())

    def reaches(self, other):
        if self is other: return True
        return any(c.reaches(other) for c in self.children())

    def size(self):
        return 1 + sum(c.size() for c in self.children())


class Shadow:
    def __init__(self):
        self.slots = [None] * NSLOT
        self.reqs = 0

    def live(self):
        seen = {}
        def walk(o):
            if id(o) in seen: return
            seen[id(o)] = o
            for c in o.children(): walk(c)
        for s in self.slots:
            if s is not None: walk(s)
        return list(seen.values())

    def rc(self, obj):
        n = sum(1 for s in self.slots if s is obj)
        for o in self.live():
            n += sum(1 for c in o.children() if c is obj)
        return n

    def summary(self):
        parts = []
        for i, o in enumerate(self.slots):
            if o is None: continue
            t = 's%d=%d' % (i, self.rc(o))
            if o.kind in ('arr', 'map', 'strI'): t += ':%d/%d' % (len(o.kids), o.cap)
            parts.append(t)
        return ' |' + ''.join(' ' + p for p in parts) + ' | live=%d reqs=%d' % (sum(o.blocks() for o in self.live()), self.reqs)


def grow(cap): return 1 if cap == 0 else 2 * cap


class Gen:
    """generates rule-following operations and the shadow's prediction of each result line"""

    def __init__(self, rng, profile='mixed'):
        self.rng = rng; self.sh = Shadow(); self.lines = []; self.expect = []; self.profile = profile

    def emit(self, line, res):
        self.lines.append('H ' + line)
        self.expect.append(None if res is None else res + self.sh.summary())

    def observe(self, s):
        o = self.sh.slots[s]
        if o is not None and not o.complete(): return     # a tag without an item has no value to print
        self.lines.append('H dump %d' % s); self.expect.append(o.dump() if o else 'EMPTY')

    def free_slot(self):
        free = [i for i, o in enumerate(self.sh.slots) if o is None]
        return self.rng.choice(free) if free else None

    def used(self, pred=lambda o: True):
        return [i for i, o in enumerate(self.sh.slots) if o is not None and pred(o)]

    # ---- constructors
    def new_leaf(self, s):
        r = self.rng; sh = self.sh
        k = r.below(6)
        if k == 0:
            w = r.choice([8, 16, 32, 64]); v = r.choice([0, 1, 23, 24, 255, 256, 65535, 65536, 2 ** 32 - 1, 2 ** 32, 2 ** 64 - 1]) % (2 ** w); neg = r.below(2)
            sh.slots[s] = Obj('leaf', leaf='%s%d(%d)' % ('n' if neg else 'u', w, v)); sh.reqs += 1
            self.emit('int %d %d %d %d' % (s, neg, w, v), 'item')
        elif k == 1:
            t = r.below(2); d = bytes(97 + r.below(26) for _ in range(r.choice([0, 1, 2, 5, 24])))
            sh.slots[s] = Obj('str', text=bool(t), data=d); sh.reqs += 2
            self.emit('str %d %d %s' % (s, t, d.hex() or '-'), 'item')
        elif k == 2:
            v = r.choice([20, 21, 22, 23, 0, 19, 32, 255])
            sh.slots[s] = Obj('leaf', leaf='c(%d)' % v); sh.reqs += 1
            self.emit('ctrl %d %d' % (s, v), 'item')
        elif k == 3:
            b = r.choice([0, 0x3f800000, 0x7fc00000, 0xff800000, 0x3eaaaaab])
            sh.slots[s] = Obj('leaf', leaf='s(%d)' % b); sh.reqs += 1
            self.emit('f4 %d %d' % (s, b), 'item')
        elif k == 4:
            b = r.choice([0, 0x3ff0000000000000, 0x7ff8000000000000, 1])
            sh.slots[s] = Obj('leaf', leaf='d(%d)' % b); sh.reqs += 1
            self.emit('f8 %d %d' % (s, b), 'item')
        else:
            h = r.choice([0x3c00, 0x0000, 0x7c00, 0x0001, 0xc500]); b = gen.half_to_f32bits(h)
            sh.slots[s] = Obj('leaf', leaf='h(%d)' % b); sh.reqs += 1
            self.emit('f2 %d %d' % (s, b), 'item')

    def new_container(self, s):
        r = self.rng; sh = self.sh
        k = r.below(7)
        if k in (0, 1):
            d = k == 0; cap = r.choice([0, 1, 2, 3, 4, 8]) if d else 0
            sh.slots[s] = Obj('arr', definite=d, cap=cap); sh.reqs += 2 if d else 1
            self.emit('arr %d %d %d' % (s, int(d), cap), 'item')
        elif k in (2, 3):
            d = k == 2; cap = r.choice([0, 1, 2, 3]) if d else 0
            sh.slots[s] = Obj('map', definite=d, cap=cap); sh.reqs += 2 if d else 1
            self.emit('map %d %d %d' % (s, int(d), cap), 'item')
        elif k == 4:
            t = r.below(2)
            sh.slots[s] = Obj('strI', text=bool(t)); sh.reqs += 2
            self.emit('stri %d %d' % (s, t), 'item')
        elif k == 5:
            n = r.choice([0, 1, 23, 24, 255, 65536, 2 ** 64 - 1])
            sh.slots[s] = Obj('tag', tagn=n); sh.reqs += 1
            self.emit('tag %d %d' % (s, n), 'item')
        else:
            xs = self.used()
            if not xs: return self.new_leaf(s)
            x = r.choice(xs); n = r.choice([0, 2, 55799])
            o = Obj('tag', tagn=n); o.kids = [sh.slots[x]]
            sh.slots[s] = o; sh.reqs += 1
            self.emit('btag %d %d %d' % (s, n, x), 'item')

    # ---- mutators
    def do_push(self, a, x, how='push', idx=None):
        sh = self.sh; A = sh.slots[a]; X = sh.slots[x]
        full = len(A.kids) >= A.cap
        if A.definite and full: ok = False
        else:
            ok = True
            if full: A.cap = grow(A.cap); sh.reqs += 1
            A.kids.append(X)
            if how == 'pushm': sh.slots[x] = None
        line = {'push': 'push %d %d' % (a, x), 'pushm': 'pushm %d %d' % (a, x), 'set': 'set %d %s %d' % (a, idx, x)}[how]
        self.emit(line, 'true' if ok else 'false')

    def step(self):
        r = self.rng; sh = self.sh
        free = [i for i, o in enumerate(sh.slots) if o is None]
        nused = NSLOT - len(free)
        c = r.below(100)
        if (c < 22 or nused == 0) and free:
            s = r.choice(free)
            if r.chance(1, 2) or self.profile == 'containers': self.new_container(s)
            else: self.new_leaf(s)
            return
        arrs = self.used(lambda o: o.kind == 'arr'); maps = self.used(lambda o: o.kind == 'map')
        if c < 40 and arrs:
            a = r.choice(arrs); A = sh.slots[a]
            xs = [x for x in self.used() if not sh.slots[x].reaches(A)]
            if not xs: return
            x = r.choice(xs); how = r.below(10)
            if how < 5: self.do_push(a, x)
            elif how < 6 and not (A.definite and len(A.kids) >= A.cap): self.do_push(a, x, 'pushm')
            elif how < 8:
                i = r.below(len(A.kids) + 3)
                if i == len(A.kids): self.do_push(a, x, 'set', i)
                elif i < len(A.kids): A.kids[i] = sh.slots[x]; self.emit('set %d %d %d' % (a, i, x), 'true')
                else: self.emit('set %d %d %d' % (a, i, x), 'false')
            else:
                i = r.below(len(A.kids) + 3)
                if i < len(A.kids): A.kids[i] = sh.slots[x]; self.emit('replace %d %d %d' % (a, i, x), 'true')
                else: self.emit('replace %d %d %d' % (a, i, x), 'false')
            return
        if c < 46 and arrs and free:
            a = r.choice(arrs); A = sh.slots[a]; s = r.choice(free); i = r.below(len(A.kids) + 3)
            if i < len(A.kids): sh.slots[s] = A.kids[i]; self.emit('get %d %d %d' % (s, a, i), 'item')
            else: self.emit('get %d %d %d' % (s, a, i), 'NULL')
            return
        if c < 56 and maps:
            m = r.choice(maps); M = sh.slots[m]
            xs = [x for x in self.used() if not sh.slots[x].reaches(M)]
            if not xs: return
            k = r.choice(xs); v = r.choice(xs)
            full = len(M.kids) >= M.cap
            if M.definite and full: self.emit('madd %d %d %d' % (m, k, v), 'false')
            else:
                if full: M.cap = grow(M.cap); sh.reqs += 1
                M.kids.append((sh.slots[k], sh.slots[v])); self.emit('madd %d %d %d' % (m, k, v), 'true')
            return
        strs = self.used(lambda o: o.kind == 'strI')
        if c < 62 and strs:
            s = r.choice(strs); S = sh.slots[s]
            cs = self.used(lambda o: o.kind == 'str' and o.text == S.text)
            if not cs: return
            ch = r.choice(cs)
            if len(S.kids) == S.cap: S.cap = grow(S.cap); sh.reqs += 1
            S.kids.append(sh.slots[ch]); self.emit('chunk %d %d' % (s, ch), 'true')
            return
        tags = self.used(lambda o: o.kind == 'tag')
        if c < 67 and tags:
            t = r.choice(tags); T = sh.slots[t]
            xs = [x for x in self.used() if not sh.slots[x].reaches(T)]
            if not xs: return
            x = r.choice(xs)
            if T.kids:
                if not free: return
                s = r.choice(free); sh.slots[s] = T.kids[0]
            else: s = 0
            T.kids = [sh.slots[x]]
            self.emit('tagset %d %d %d' % (t, x, s), 'done')
            return
        if c < 70 and tags and free:
            t = r.choice(tags); T = sh.slots[t]
            if not T.kids: return
            s = r.choice(free); sh.slots[s] = T.kids[0]; self.emit('tagget %d %d' % (s, t), 'item')
            return
        if c < 76 and free:
            xs = self.used(lambda o: o.complete() and o.size() < 60)
            if not xs: return
            x = r.choice(xs); s = r.choice(free)
            cp, n = self.copy_obj(sh.slots[x])
            sh.slots[s] = cp; sh.reqs += n
            self.emit('copy %d %d' % (s, x), 'item fresh=1')
            self.observe(s)
            return
        if c < 80 and free and nused:
            x = r.choice(self.used()); s = r.choice(free)
            sh.slots[s] = sh.slots[x]; self.emit('incref %d %d' % (s, x), 'item')
            return
        if c < 84 and nused:
            x = r.choice(self.used()); self.observe(x)
            return
        if nused:
            x = r.choice(self.used())
            sh.slots[x] = None; self.emit('decref %d' % x, 'done')

    def copy_obj(self, o):
        """deep copy as cbor_copy makes it, with the number of allocator requests it costs"""
        k = o.kind
        if k == 'leaf': return Obj('leaf', leaf=o.leaf), 1
        if k == 'str': return Obj('str', text=o.text, data=o.data), 2
        if k == 'tag':
            c, n = self.copy_obj(o.kids[0]); t = Obj('tag', tagn=o.tagn); t.kids = [c]; return t, n + 1
        if k == 'strI':
            r = Obj('strI', text=o.text); n = 2
            for ch in o.kids:
                c, m = self.copy_obj(ch); n += m
                if len(r.kids) == r.cap: r.cap = grow(r.cap); n += 1
                r.kids.append(c)
            return r, n
        if k == 'arr':
            r = Obj('arr', definite=o.definite, cap=len(o.kids) if o.definite else 0); n = 2 if o.definite else 1
            for ch in o.kids:
                c, m = self.copy_obj(ch); n += m
                if not r.definite and len(r.kids) >= r.cap: r.cap = grow(r.cap); n += 1
                r.kids.append(c)
            return r, n
        if k == 'map':
            r = Obj('map', definite=o.definite, cap=len(o.kids) if o.definite else 0); n = 2 if o.definite else 1
            for a, b in o.kids:
                ca, m1 = self.copy_obj(a); cb, m2 = self.copy_obj(b); n += m1 + m2
                if not r.definite and len(r.kids) >= r.cap: r.cap = grow(r.cap); n += 1
                r.kids.append((ca, cb))
            return r, n

    def finish(self):
        """the client drops every reference it holds; nothing may remain"""
        for i, o in enumerate(self.sh.slots):
            if o is not None:
                self.sh.slots[i] = None; self.emit('decref %d' % i, 'done')


def history(rng, length, profile='mixed'):
    g = Gen(rng, profile)
    lines = ['HRESET']; expect = ['reset']
    for _ in range(length): g.step()
    g.finish()
    return lines + g.lines, expect + g.expect


def growth_history(kind, n):
    """n insertions into one indefinite container (the geometric growth clause of C12)"""
    g = Gen(None); sh = g.sh
    lines = ['HRESET']; expect = ['reset']
    if kind == 'arr':
        sh.slots[0] = Obj('arr'); sh.reqs += 1; g.emit('arr 0 0 0', 'item')
        sh.slots[1] = Obj('leaf', leaf='u8(1)'); sh.reqs += 1; g.emit('int 1 0 8 1', 'item')
        for _ in range(n): g.do_push(0, 1)
    elif kind == 'map':
        sh.slots[0] = Obj('map'); sh.reqs += 1; g.emit('map 0 0 0', 'item')
        sh.slots[1] = Obj('leaf', leaf='u8(1)'); sh.reqs += 1; g.emit('int 1 0 8 1', 'item')
        M = sh.slots[0]
        for _ in range(n):
            if len(M.kids) >= M.cap: M.cap = grow(M.cap); sh.reqs += 1
            M.kids.append((sh.slots[1], sh.slots[1])); g.emit('madd 0 1 1', 'true')
    else:
        sh.slots[0] = Obj('strI', text=False); sh.reqs += 2; g.emit('stri 0 0', 'item')
        sh.slots[1] = Obj('str', text=False, data=b'x'); sh.reqs += 2; g.emit('str 1 0 78', 'item')
        S = sh.slots[0]
        for _ in range(n):
            if len(S.kids) == S.cap: S.cap = grow(S.cap); sh.reqs += 1
            S.kids.append(sh.slots[1]); g.emit('chunk 0 1', 'true')
    g.finish()
    return lines + g.lines, expect + g.expect


def exhaustive(depth, nslots=3):
    """every rule-following history of the given length over a small pool (slots 0..nslots-1): integers, indefinite
    arrays, tags; push / get / tagset / copy / incref / decref.  Returns a list of (lines, expect)."""
    import copy as _copy
    out = []

    def moves(sh):
        ms = []
        free = [i for i in range(nslots) if sh.slots[i] is None]
        used = [i for i in range(nslots) if sh.slots[i] is not None]
        if free:
            s = free[0]
            ms += [('int', s), ('arr', s), ('tag', s)]
            for x in used:
                ms.append(('incref', s, x))
                if sh.slots[x].complete(): ms.append(('copy', s, x))
            for a in used:
                if sh.slots[a].kind == 'arr': ms.append(('get', s, a, 0))
                if sh.slots[a].kind == 'tag' and sh.slots[a].kids: ms.append(('tagget', s, a))
        for a in used:
            A = sh.slots[a]
            for x in used:
                if sh.slots[x].reaches(A): continue
                if A.kind == 'arr': ms.append(('push', a, x))
                if A.kind == 'tag' and (not A.kids or free): ms.append(('tagset', a, x))
        for s in used: ms.append(('decref', s))
        return ms

    def apply(g, m):
        sh = g.sh
        k = m[0]
        if k == 'int': sh.slots[m[1]] = Obj('leaf', leaf='u8(5)'); sh.reqs += 1; g.emit('int %d 0 8 5' % m[1], 'item')
        elif k == 'arr': sh.slots[m[1]] = Obj('arr'); sh.reqs += 1; g.emit('arr %d 0 0' % m[1], 'item')
        elif k == 'tag': sh.slots[m[1]] = Obj('tag', tagn=1); sh.reqs += 1; g.emit('tag %d 1' % m[1], 'item')
        elif k == 'incref': sh.slots[m[1]] = sh.slots[m[2]]; g.emit('incref %d %d' % (m[1], m[2]), 'item')
        elif k == 'copy':
            cp, n = g.copy_obj(sh.slots[m[2]]); sh.slots[m[1]] = cp; sh.reqs += n; g.emit('copy %d %d' % (m[1], m[2]), 'item fresh=1')
        elif k == 'get':
            A = sh.slots[m[2]]
            if A.kids: sh.slots[m[1]] = A.kids[0]; g.emit('get %d %d 0' % (m[1], m[2]), 'item')
            else: g.emit('get %d %d 0' % (m[1], m[2]), 'NULL')
        elif k == 'tagget': sh.slots[m[1]] = sh.slots[m[2]].kids[0]; g.emit('tagget %d %d' % (m[1], m[2]), 'item')
        elif k == 'push': g.do_push(m[1], m[2])
        elif k == 'tagset':
            T = sh.slots[m[1]]; s = 0
            if T.kids:
                s = [i for i in range(nslots) if sh.slots[i] is None][0]; sh.slots[s] = T.kids[0]
            T.kids = [sh.slots[m[2]]]; g.emit('tagset %d %d %d' % (m[1], m[2], s), 'done')
        elif k == 'decref': sh.slots[m[1]] = None; g.emit('decref %d' % m[1], 'done')

    def rec(g, d):
        if d == 0:
            g2 = _copy.deepcopy(g); g2.finish()
            out.append((['HRESET'] + g2.lines, ['reset'] + g2.expect)); return
        ms = moves(g.sh)
        if not ms: return rec(g, 0)
        for m in ms:
            g2 = _copy.deepcopy(g); apply(g2, m); rec(g2, d - 1)

    rec(Gen(None), depth)
    return out

import re
from vlib import core
from .histcheck import HistProp, HEAP_TRUST, BASE_TRUST
from . import hist, gen, trees

NS = 8   # slots used by scenarios


def strip_reqs(summary):
    return re.sub(r' reqs=\d+', '', summary)


def summary_of(out):
    i = out.find(' |')
    return out[i:] if i >= 0 else ''


FAIL_WORDS = ('NULL', 'false')


class C06(HistProp):
    id = 'C06'
    also_release = True
    module = 'Cbor.Props.C06'
    extra_modules = ['Cbor.Props.HeapLoad']
    theorems = ['Props.C06.C06_serialize_alloc_atomic', 'Props.HeapLoad.failed_load_clean', 'HB.hload_refines', 'Props.C06.C06_copy_atomic', 'Props.C06.C06_load_any_schedule', 'Props.C06.C06_copy_any_schedule', 'Heap.copy_spec', 'Lemmas.Safe.load_safe', 'Heap.copy_frame_all', 'Props.C06.new1_atomic', 'Props.C06.new2_atomic', 'Props.C06.newMulti_atomic', 'Props.C06.push_atomic', 'Props.C06.map_add_atomic',
                'Props.C06.add_chunk_atomic', 'Props.C06.build_tag_atomic', 'Props.C06.set_atomic']
    trusted_base = BASE_TRUST + HEAP_TRUST + [
        'for every oracle: cbor_load reports cleanly (item / NULL + code, no model fault: load_safe) and cbor_copy leaves all pre-existing items intact with balanced books '
        '(copy_frame_all, copy_counts_all), and a failed cbor_copy has released everything it allocated - the heap reads exactly as before, same live items and blocks, no fault on any '
        'clean-up path (C06_copy_atomic, from copy_spec); that a failed cbor_load / cbor_serialize_alloc leaves NO live block behind is decided by exhaustive fault-schedule '
        'enumeration on implementation and model (which must agree on result, counts, contents, live blocks) and the state-comparison oracle, not by a theorem',
    ]
    rule = ('scenarios: cbor_load of corpus inputs, cbor_copy of corpus trees (incl. shared members), cbor_serialize_alloc, every builder, push / push-move / set / '
            'map add / add chunk at growth steps 0,1,2,4,8; for each the allocator requests N of a fault-free run are counted, then the scenario is re-run refusing '
            'request k alone and request k and all later ones, for every k < N; after a reported failure the slots\' reference counts, sizes, capacities, contents '
            'and the number of live blocks must equal those before the call; non-trivial = a run in which a refusal happened; distinct by (scenario, schedule, result)')

    def scenarios(self, tier, rng):
        sc = []
        # builders
        for op in ('int 0 0 8 7', 'int 0 1 64 9', 'str 0 0 616263', 'str 0 1 -', 'stri 0 0', 'stri 0 1', 'arr 0 1 3', 'arr 0 1 0', 'arr 0 0 0',
                   'map 0 1 2', 'map 0 0 0', 'tag 0 5', 'ctrl 0 21', 'f2 0 1065353216', 'f4 0 1065353216', 'f8 0 4607182418800017408'):
            sc.append(([], op))
        sc.append((['int 0 0 8 1'], 'btag 1 5 0'))
        # growth steps
        for n in (0, 1, 2, 4, 8):
            sc.append((['arr 0 0 0', 'int 1 0 8 1'] + ['push 0 1'] * n, 'push 0 1'))
            sc.append((['arr 0 0 0', 'int 1 0 8 1'] + ['push 0 1'] * n, 'set 0 %d 1' % n))
            sc.append((['map 0 0 0', 'int 1 0 8 1', 'str 2 1 6b'] + ['madd 0 2 1'] * n, 'madd 0 2 1'))
            sc.append((['stri 0 1', 'str 1 1 6b'] + ['chunk 0 1'] * n, 'chunk 0 1'))
            sc.append((['stri 0 0', 'str 1 0 6b'] + ['chunk 0 1'] * n, 'chunk 0 1'))
        # load and copy of indefinite containers / chunked strings of 3, 4, 5 and 9 members: the second, third and fourth growth of the slot array happen inside the operation
        for n in (3, 4, 5, 9):
            for e in (b'\x9f' + b'\x01' * n + b'\xff', b'\xbf' + b'\x01\x02' * n + b'\xff', b'\x5f' + b'\x41\x61' * n + b'\xff', b'\x7f' + b'\x61\x61' * n + b'\xff',
                      b'\x81\xbf' + b'\x01\x5f\x41\x61\x41\x62\x41\x63\xff' * n + b'\xff'):
                sc.append(([], 'load 0 ' + gen.hexs(e)))
                sc.append((['load 0 ' + gen.hexs(e)], 'copy 1 0'))
        sc.append((['arr 0 1 2', 'int 1 0 8 1', 'push 0 1'], 'push 0 1'))
        # copy of trees (via load) and of shared structures
        ts = [t for t in trees.corpus('quick', rng, assigned_only=True) if 2 <= len(trees.enc(t)) <= 40]
        step = 1 if tier == 'thorough' else max(1, len(ts) // 60)
        for t in ts[::step]:
            hexs = gen.hexs(trees.enc(t))
            sc.append(([], 'load 0 ' + hexs))
            sc.append((['load 0 ' + hexs], 'copy 1 0'))
        sc.append((['int 0 0 8 1', 'arr 1 0 0', 'push 1 0', 'push 1 0', 'arr 2 1 2', 'push 2 1', 'push 2 1'], 'copy 3 2'))
        sc.append((['str 0 0 6162', 'stri 1 0', 'chunk 1 0', 'chunk 1 0', 'map 2 0 0', 'madd 2 1 1', 'btag 3 9 2'], 'copy 4 3'))
        # malformed / truncated inputs for load
        for b in (b'\x9f\x01\x02', b'\x82\x01', b'\xa1\x01', b'\x5f\x41\x61\x41', b'\x9f\x9f\x9f\xff\xff', b'\xc1\xc1\x9f\x01\xff', b'\x7f\x61\x61\x61\x62\xff',
                  b'\xbf\x01\x9f\x02\xff\x03\x04\xff', b'\x83\x01\x82\x02\x03\x81\x04'):
            sc.append(([], 'load 0 ' + gen.hexs(b)))
        return sc

    def build(self, setup, op, mode=None, k=None):
        lines = ['HRESET'] + ['H ' + l for l in setup]
        lines += ['H dump %d' % s for s in range(NS)]
        mark = len(lines)
        if mode is not None: lines.append('HFAULT %d %d' % (mode, k))
        lines.append('H ' + op)
        opi = len(lines) - 1
        if mode is not None: lines.append('HFAULT 0 0')
        lines += ['H dump %d' % s for s in range(NS)]
        lines += ['H drop %d' % s for s in range(NS)]
        return lines, mark, opi

    def histories(self, tier, rng):
        hb = core.build_harness('asan')
        if not hb['ok']: return []
        sc = self.scenarios(tier, rng)
        # phase 1: fault-free runs, to learn how many allocator requests each operation makes
        lines = []; meta = []
        for setup, op in sc:
            l, mark, opi = self.build(setup, op)
            meta.append((len(lines) + opi, len(lines) + mark - 1 - NS)); lines += l
        out, rc, err = core.run_lines(hb['exe'], lines)
        hs = []
        self.meta = []
        def reqs(o):
            m = re.search(r'reqs=(\d+)', o); return int(m.group(1)) if m else 0
        for (setup, op), (opi, prev) in zip(sc, meta):
            if rc != 0 or opi >= len(out): n = 3
            else: n = reqs(out[opi]) - (reqs(out[prev]) if setup else 0)
            l, mark, oi = self.build(setup, op)
            hs.append((l, [None] * len(l))); self.meta.append((mark, oi, False))
            for k in range(n):
                for mode in (1, 2):
                    l, mark, oi = self.build(setup, op, mode, k)
                    hs.append((l, [None] * len(l))); self.meta.append((mark, oi, True))
        return hs

    def judge(self, lines, outs, expect):
        # locate the operation under test: the line after HFAULT (or the line after the first block of dumps)
        try:
            fi = next(i for i, l in enumerate(lines) if l.startswith('HFAULT') and not l.startswith('HFAULT 0 0'))
            opi = fi + 1; before_dumps = outs[fi - NS:fi]; prev = outs[fi - NS - 1] if fi - NS - 1 >= 1 else 'reset'
            after_dumps = outs[opi + 2:opi + 2 + NS]
        except StopIteration:
            return None if 'live=0' in outs[-1] else (len(lines) - 1, 'blocks still allocated after everything was released: ' + outs[-1])
        res = outs[opi]
        word = res.split(' ')[0]
        if 'live=0' not in outs[-1]:
            return (len(lines) - 1, 'blocks still allocated after everything was released (%s under %s): %s' % (lines[opi], lines[fi], outs[-1]))
        if word not in FAIL_WORDS:
            # the schedule refuses a request the fault-free run of this operation makes (k < N): the operation cannot have completed without it
            return (opi, '%s under %s: an allocator request was refused but the operation reported success (%s)' % (lines[opi], lines[fi], res[:80]))
        if word in FAIL_WORDS:
            s_before = strip_reqs(summary_of(prev)) if prev != 'reset' else ' | | live=0'
            s_after = strip_reqs(summary_of(res))
            if s_before != s_after:
                return (opi, '%s under %s reported failure but changed the state: before%s, after%s' % (lines[opi], lines[fi], s_before, s_after))
            if before_dumps != after_dumps:
                return (opi, '%s under %s reported failure but changed the contents of an argument' % (lines[opi], lines[fi]))
            if lines[opi].startswith('H load') and 'MEMERROR' not in res and 'code=' in res:
                # a refused allocation during load must be reported as MEMERROR unless the input is rejected for another reason first
                pass
        return None

    def oracle(self, tier, ctx):
        fails = super().oracle(tier, ctx)
        # cbor_serialize_alloc under refusal (value-level operation)
        rng = core.Rng(self.id + '-sera')
        ts = [t for t in trees.corpus('quick', rng, assigned_only=False) if len(trees.enc(t)) <= 64][:: 1 if tier == 'thorough' else 5]
        lines = []
        for t in ts:
            for m in (1, 2): lines.append('SERA %s %d 0' % (trees.fmt(t), m))
        out, rc, err = ctx.run_c(lines)
        for l, o in zip(lines, out):
            ctx.count(l, o); ctx.bump('SERA')
            w = o.split()
            if w[:3] != ['0', '0', 'null'] or 'live=0' not in o:
                fails.append({'input': l, 'expected': '0 0 null ... live=0', 'observed': o[:300], 'why': 'refused allocation in cbor_serialize_alloc must give 0 / NULL / size 0 and leave nothing allocated'})
        return fails[:20]


PROP = C06()

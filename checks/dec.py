"""Shared decoder-side oracle: implementation (harness LOAD) against the reference decoder Spec.decode (specdrv DECODE)."""
from vlib import core
from . import gen

HUGE = 1 << 24


def has_huge(b):
    """does any head in the byte string declare a length/count >= 2^24 (allocation may legitimately be refused)?"""
    for i, c in enumerate(b):
        mt, ai = c >> 5, c & 31
        if mt in (2, 3, 4, 5) and ai in (26, 27):
            k = 4 if ai == 26 else 8
            if i + k < len(b) + 1 and int.from_bytes(b[i + 1:i + 1 + k].ljust(k, b'\0'), 'big') >= HUGE: return True
    return False


def parse_load(o):
    w = o.split()
    if w[0] == 'OK':
        d = {'ok': True, 'tree': w[1]}
        for kv in w[2:]:
            if '=' in kv:
                k, v = kv.split('=', 1); d[k] = v
        return d
    if w[0] == 'ERR':
        d = {'ok': False, 'code': w[1]}
        for kv in w[2:]:
            if '=' in kv:
                k, v = kv.split('=', 1); d[k] = v
        return d
    return {'ok': None, 'raw': o}


def judge(b, c_out, lazy_out, eager_out):
    """None, or why the implementation's answer is wrong for input b"""
    c = parse_load(c_out)
    if c['ok'] is None: return 'unparseable implementation output'
    sw = lazy_out.split()
    if sw[0] == 'OK':
        if not c['ok']:
            if c.get('code') == 'MEMERROR' and has_huge(b) and int(c['pos']) <= int(sw[2]): return None
            return 'well-formed item rejected (%s at %s)' % (c.get('code'), c.get('pos'))
        if c['tree'] != sw[1]: return 'decoded tree differs from the tree the bytes denote'
        if c['read'] != sw[2]: return 'bytes read %s, encoded length of the first item is %s' % (c['read'], sw[2])
        if c.get('code') != 'NONE': return 'success with error code ' + str(c.get('code'))
        if c.get('rc1') != '1': return 'a node of the returned tree has reference count != 1'
        if c.get('filled') != '1': return 'a definite container of the returned tree is not completely filled'
        if c.get('copy') not in ('ok',): return 'cbor_copy of the decoded tree: ' + str(c.get('copy'))
        if c.get('final') != '0': return 'memory still allocated after releasing the tree (final=%s)' % c.get('final')
        if 'sern1' in c and c['sern1'] != '0': return 'serializing into size-1 bytes returned ' + c['sern1']
        if int(c.get('live', '0')) <= 0: return 'no live block after a successful load'
        return None
    if c['ok']: return 'ill-formed / incomplete input accepted'
    if c.get('live') != '0': return 'failed load left %s block(s) allocated' % c.get('live')
    if sw[0] == 'NODATA':
        if c['code'] != 'NODATA' or c['pos'] != '0' or c['read'] != '0': return 'empty input must give NODATA with position 0 and read 0'
        return None
    for ref in (lazy_out, eager_out):
        rw = ref.split()
        if rw[0] == 'ERR' and c['code'] == rw[1] and c['pos'] == rw[2]:
            return None
    # an allocation the size-capped allocator refuses is MEMERROR just past the head that declares it; this is only
    # acceptable when the reference decoder got at least that far (the head and, for strings, its payload are complete)
    if c['code'] == 'MEMERROR' and has_huge(b) and sw[0] == 'ERR' and int(sw[2]) >= int(c['pos']): return None
    return 'reported %s at %s; the first violation is %s at %s' % (c['code'], c['pos'], sw[1], sw[2])


def run(ctx, bufs, L=2048, exe=None, tag=''):
    """returns failures for a list of byte strings"""
    lines = ['LOAD ' + gen.hexs(b) + ' 0 0 %d' % HUGE for b in bufs]
    c_out, rc, err = core.run_parallel(exe or ctx.harness, lines, jobs=8) if len(lines) > 20000 else ctx.run_c(lines, exe=exe)
    if rc != 0:
        i, l, e = core.first_crash_line(exe or ctx.harness, lines)
        return [{'input': l + tag, 'expected': 'an item, or NULL plus an error code', 'observed': 'implementation aborted / sanitizer report (rc=%d)' % rc, 'why': e[-1000:]}]
    lz, _, _ = ctx.run_spec(['DECODE 1 %d %s' % (L, gen.hexs(b)) for b in bufs])
    eg, _, _ = ctx.run_spec(['DECODE 0 %d %s' % (L, gen.hexs(b)) for b in bufs])
    fails = []
    for b, l, co, a, e in zip(bufs, lines, c_out, lz, eg):
        ctx.count(l, co)
        k = co.split()[1] if co.startswith('ERR') else 'OK'
        ctx.bump('outcome_' + k); ctx.bump('len_%d' % min(len(b), 16))
        if a != e: ctx.bump('lazy_vs_eager_differ')
        why = judge(b, co, a, e)
        if why: fails.append({'input': l + tag, 'expected': 'reference: ' + a, 'observed': co, 'why': why})
    return fails


def corpus(tier, rng, rounds=None):
    """the decoder input space: exhaustive short strings, enumerated well-formed items, their single-edit neighbours, random"""
    bufs = [b'']
    bufs += [bytes([a]) for a in range(256)]
    bufs += [bytes([a, b]) for a in range(256) for b in range(256)]
    wf = []
    for r in range(rounds or (6 if tier == 'thorough' else 2)):
        wf += gen.wellformed(tier, rng)
    seen = set(); uniq = []
    for e in wf:
        if e[0] not in seen: seen.add(e[0]); uniq.append(e)
    nb = []
    for e in uniq: nb += gen.neighbours(e, rng, tier)
    n3 = 400000 if tier == 'thorough' else 20000
    rnd = []
    starts = [0x5f, 0x7f, 0x80, 0x81, 0x82, 0x83, 0x9f, 0xa1, 0xa2, 0xbf, 0xc1, 0xd8, 0x41, 0x61, 0x98, 0xb8, 0x18, 0x19, 0xf9]
    for _ in range(n3):
        n = 3 + rng.below(2)
        first = rng.choice(starts) if rng.chance(3, 4) else rng.below(256)
        rest = [rng.choice([0xff, 0x5f, 0x7f, 0x9f, 0xbf, 0x41, 0x61, 0x80, 0x81, 0xa1, 0xc0, 0x00, 0x01, 0xf6]) if rng.chance(1, 2) else rng.below(256) for _ in range(n - 1)]
        rnd.append(bytes([first] + rest))
    # declared lengths / counts up to 2^64-1 (payload absent or short), deep nests at the default limit, large definite containers
    special = []
    for mt in (2, 3, 4, 5):
        for v in (2 ** 64 - 1, 2 ** 64 - 2, 2 ** 64 - 8, 2 ** 64 - 9, 2 ** 64 - 10, 2 ** 63, 2 ** 61, 2 ** 60, 2 ** 59, 2 ** 32, 2 ** 32 - 1, 2 ** 24, 2 ** 24 + 1):
            h = gen.head(mt, v, 27 if v >= 2 ** 32 else 26)
            special += [h, h + b'\x00', h + b'\x01\x02\x03', b'\x82' + h + b'\x00', b'\x5f' + h if mt == 2 else b'\x9f' + h + b'\xff']
    # declared counts whose byte size (count x 8 for arrays, x 16 for maps) wraps around 2^64 to a small value: a guard that lets the
    # wrapped product through under-allocates, and the members that follow are written past the block
    for mt in (4, 5):
        for base in (2 ** 60, 2 ** 61, 2 ** 62, 2 ** 63, 3 * 2 ** 61, 3 * 2 ** 60):
            for k in (1, 2, 3):
                h = gen.head(mt, base + k, 27)
                special += [h, h + b'\x01', h + b'\x01\x02\x03\x04\x05\x06\x07\x08', b'\x82' + h + b'\x00\x01\x02', b'\x9f' + h + b'\x01\x02\x03\x04\xff']
    for d in (2047, 2048, 2049):
        special += [b'\x81' * d + b'\x00', b'\xc1' * d + b'\x00', b'\x9f' * d + b'\x01' + b'\xff' * d, (b'\xa1\x00') * d + b'\x00', b'\x81' * d + b'\x80']
    special += [gen.head(4, 65537) + b'\x01' * 65537, gen.head(4, 65536) + b'\x01' * 65536, gen.head(5, 32769) + b'\x01\x02' * 32769,
                gen.head(4, 65537) + b'\x01' * 65536]
    return bufs + special, [e[0] for e in uniq], nb, rnd

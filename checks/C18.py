from vlib.flow import Prop
from vlib import core
from .common import BASE_TRUST
from .C13 import CENSUS_TRUST
from . import trees


class C18(Prop):
    id = 'C18'
    module = 'Cbor.Props.C18'
    theorems = ['Props.C18.C18_readonly', 'Props.C18.C18_surface', 'Props.C18.C18_mutators_excluded']
    trusted_base = BASE_TRUST + CENSUS_TRUST + [
        'C18_readonly is a statement about the syntactic stores of every function reachable in the direct call graph from the read-only API; a store is counted when its '
        'target is reached through a pointer and its access path mentions an item object; writes into plain byte buffers are attributed to the output buffer',
        'the dynamic counterpart: trees are built inside an arena that is write-protected (mprotect PROT_READ) while serialization, size computation, serialize_alloc and every '
        'predicate / getter run, at -O0, -O1+ASan and -O2: any store, even a transient one, faults',
    ]
    rule = ('item trees of the C03 corpus (all leaf kinds x boundary values, nested containers to depth 4, shared / partially filled members, counts at 255/256/65535/65536), each built in the '
            'protected arena and subjected to the whole read-only battery at three optimisation levels; non-trivial = any tree; distinct by (tree, result)')

    def trees(self, tier, rng):
        ts = trees.corpus(tier, rng, assigned_only=False)
        return ts if tier == 'thorough' else ts[::2]

    def corr_lines(self, tier, rng):
        return ['RO ' + trees.fmt(t) for t in self.trees(tier, rng) if len(trees.enc(t)) <= 4096]

    def oracle(self, tier, ctx):
        rng = core.Rng(self.id)
        ts = self.trees(tier, rng)
        lines = ['RO ' + trees.fmt(t) for t in ts]
        fails = []
        for kind in ('asan', 'o0', 'o2'):
            hb = core.build_harness(kind)
            if not hb['ok']:
                fails.append({'input': 'build harness ' + kind, 'expected': 'builds', 'observed': hb['out'][-500:], 'why': 'harness does not build'}); continue
            out, rc, err = core.run_lines(hb['exe'], lines, env={'HALLOC': 'arena'})
            if rc != 0:
                i, l, e = core.first_crash_line(hb['exe'], lines, env={'HALLOC': 'arena'})
                fails.append({'input': l + ' @' + kind, 'expected': 'no store into the write-protected tree', 'observed': 'fault / abort (rc=%d) at optimisation level %s' % (rc, kind),
                              'why': 'a read-only operation wrote to the item it inspects (or crashed): ' + e[-700:]})
                continue
            for t, l, o in zip(ts, lines, out):
                ctx.count(l + '@' + kind, o); ctx.bump(kind)
                e = trees.enc(t)
                exp = '%d %s intact=1' % (len(e), e.hex() or '-')
                if o != exp: fails.append({'input': l + ' @' + kind, 'expected': exp[:300], 'observed': o[:300], 'why': 'read-only battery changed the tree or produced different bytes'})
        return fails[:20]

    def replay(self, ctx, rp):
        l, kind = rp['failure']['input'].rsplit(' @', 1) if ' @' in rp['failure']['input'] else (rp['failure']['input'], 'asan')
        hb = core.build_harness(kind)
        out, rc, err = core.run_lines(hb['exe'], [l], env={'HALLOC': 'arena'})
        if rc != 0 or 'intact=1' not in (out[0] if out else ''): return [dict(rp['failure'], observed=(out[0] if out else 'abort rc=%d' % rc)[:300])]
        return []


PROP = C18()

from vlib.flow import Prop
from vlib import core
from .common import BASE_TRUST
from .C13 import CENSUS_TRUST
from . import trees


# ---- differential validation of the generated accessors (lean/Cbor/Gen/Accessors.lean) against the compiled ones: `ACC` lines
ACC_PRED = ['cbor_typeof', 'cbor_isa_uint', 'cbor_isa_negint', 'cbor_isa_bytestring', 'cbor_isa_string', 'cbor_isa_array', 'cbor_isa_map',
            'cbor_isa_tag', 'cbor_isa_float_ctrl', 'cbor_is_int', 'cbor_refcount']
ACC_INT_GET = ['cbor_int_get_width', 'cbor_get_uint8', 'cbor_get_uint16', 'cbor_get_uint32', 'cbor_get_uint64', 'cbor_get_int',
               'cbor_mark_uint', 'cbor_mark_negint']
ACC_INT_SET = {'cbor_set_uint8': 8, 'cbor_set_uint16': 16, 'cbor_set_uint32': 32, 'cbor_set_uint64': 64}
ACC_CTRL = ['cbor_float_get_width', 'cbor_float_ctrl_is_ctrl', 'cbor_ctrl_value', 'cbor_is_float', 'cbor_is_bool', 'cbor_is_null',
            'cbor_is_undef', 'cbor_get_bool', 'cbor_set_ctrl', 'cbor_set_bool']
ACC_CONT = ['cbor_array_size', 'cbor_array_allocated', 'cbor_array_is_definite', 'cbor_array_is_indefinite', 'cbor_map_size',
            'cbor_map_allocated', 'cbor_map_is_definite', 'cbor_map_is_indefinite', 'cbor_string_length', 'cbor_string_codepoint_count',
            'cbor_string_is_definite', 'cbor_string_is_indefinite', 'cbor_bytestring_length', 'cbor_bytestring_is_definite',
            'cbor_bytestring_is_indefinite', 'cbor_tag_value']
ACC_ALL = ACC_PRED + ACC_INT_GET + list(ACC_INT_SET) + ACC_CTRL + ACC_CONT
U64 = 2 ** 64 - 1


def acc_line(fn, ty, a=0, b=0, c=0, rc=1, data=b'', v=0):
    return 'ACC %s %d %d %d %d %d %s %d' % (fn, ty, a, b, c, rc, data.hex() or '-', v)


def acc_lines(tier, rng):
    """every translated accessor over: all type tags 0..7 and out-of-range tags, width tags 0..3 and 4, payload lengths around 1/2/4/8,
    byte patterns with distinct / all-ones / sign-bit bytes, boundary values for the setters, all 256 ctrl values"""
    L = []
    pats = [bytes(range(0x11, 0x11 + 9 * 0x11, 0x11)), b'\xff' * 9, b'\x00' * 9, b'\x80\x00\x00\x80\x00\x00\x00\x80\x01', b'\x01\x00\x00\x00\x00\x00\x00\x80\xff']
    lens = [0, 1, 2, 3, 4, 7, 8, 9]
    for fn in ACC_PRED:
        for ty in list(range(10)) + [255]:
            for a in (0, 3):
                for rc in (0, 1, U64): L.append(acc_line(fn, ty, a, 21, 1, rc, pats[0][:2]))
    for fn in ACC_INT_GET:
        for ty in range(9):
            for w in range(5):
                for n in (lens if ty <= 1 else [8]):
                    L.append(acc_line(fn, ty, w, 0, 0, 1, pats[0][:n]))
        for ty in (0, 1):
            for w in range(4):
                for p_ in pats[1:]:
                    for n in (1 << w, 9): L.append(acc_line(fn, ty, w, 0, 0, 2, p_[:n]))
    for fn, bits in ACC_INT_SET.items():
        vals = sorted({0, 1, 2 ** bits - 1, 2 ** (bits - 1), 2 ** (bits - 1) - 1, 0x0123456789abcdef % 2 ** bits, 0xfedcba9876543210 % 2 ** bits, 0x80, 0xff00 % 2 ** bits})
        for ty in range(9):
            for w in range(5):
                for n in (lens if ty <= 1 else [8]):
                    for v in (vals if (ty <= 1 and n in (bits // 8, 9)) else vals[-1:]):
                        L.append(acc_line(fn, ty, w, 0, 0, 3, pats[0][:n], v))
    for fn in ACC_CTRL:
        for w in range(5):
            for ctrl in (range(256) if w == 0 else (0, 20, 21, 22, 23, 24, 255)):
                v = {'cbor_set_ctrl': ctrl ^ 0x5a, 'cbor_set_bool': ctrl & 1}.get(fn, 0)
                L.append(acc_line(fn, 7, w, ctrl, 0, 1, b'', v))
        if fn == 'cbor_set_ctrl':
            for v in range(256): L.append(acc_line(fn, 7, 0, 23, 0, 1, b'', v))
        for ty in list(range(7)) + [8]:
            for w in (0, 1):
                for ctrl in (20, 22): L.append(acc_line(fn, ty, w, ctrl, 0, 1, pats[0][:8], 1))
    for fn in ACC_CONT:
        for ty in range(9):
            for (a, b, c) in ((0, 0, 0), (5, 3, 1), (U64, U64 - 1, 0), (1, 2, 2), (7, 7, 2 ** 32 - 1), (2 ** 63, 2 ** 32, 1)):
                L.append(acc_line(fn, ty, a, b, c, 1, b''))
    if tier == 'thorough':
        for _ in range(6000):
            fn = rng.choice(ACC_ALL)
            ty = rng.choice([0, 1, 2, 3, 4, 5, 6, 7, 7, 0, 1, rng.below(12)])
            a = rng.choice([rng.below(5), rng.below(5), rng.next() % 2 ** 32]) if ty in (0, 1, 7) else rng.choice([rng.below(4), rng.next()])
            b = rng.choice([rng.below(256), rng.below(3), rng.next()]); c = rng.choice([rng.below(3), rng.next() % 2 ** 32])
            L.append(acc_line(fn, ty, a, b, c, rng.choice([0, 1, 2, rng.next()]), rng.bytes(rng.choice(lens + [16])), rng.choice([rng.below(256), rng.next()])))
    return L


class C18(Prop):
    id = 'C18'
    module = 'Cbor.Props.C18'
    extra_modules = ['Cbor.Props.Accessors']
    ACC_THEOREMS = ['readonly_accessors', 'mark_uint_eq', 'mark_negint_eq', 'set_ctrl_eq', 'set_bool_eq',
                    'set_uint8_fields', 'set_uint16_fields', 'set_uint32_fields', 'set_uint64_fields',
                    'set_uint8_frame', 'set_uint16_frame', 'set_uint32_frame', 'set_uint64_frame', 'setters_keep_refcount',
                    'get_set_uint8', 'get_set_uint16', 'get_set_uint32', 'get_set_uint64',
                    'get_uint8_val', 'get_uint16_val', 'get_uint32_val', 'get_uint64_val', 'get_int_val', 'get_int_default', 'get_int_eq',
                    'int_get_width_eq', 'int_get_width_ok', 'get_uint8_ok', 'get_uint16_ok', 'get_uint32_ok', 'get_uint64_ok', 'get_int_ok',
                    'set_uint_ok', 'mark_ok', 'mark_keeps_value',
                    'isa_spec', 'isa_exclusive', 'isa_exhaustive', 'isa_none', 'is_int_eq', 'is_float_eq', 'float_ctrl_fields', 'is_float_iff',
                    'is_bool_iff', 'is_null_iff', 'is_undef_iff', 'predicates_total', 'float_ctrl_ok', 'get_bool_spec', 'get_set_bool',
                    'get_set_ctrl', 'container_fields', 'container_ok', 'definite_indefinite', 'array_definite_indefinite']
    theorems = ['Props.C18.C18_readonly', 'Props.C18.C18_surface', 'Props.C18.C18_mutators_excluded'] + ['Props.Accessors.' + t for t in ACC_THEOREMS]
    trusted_base = BASE_TRUST + CENSUS_TRUST + [
        'C18_readonly is a statement about the syntactic stores of every function reachable in the direct call graph from the read-only API; a store is counted when its '
        'target is reached through a pointer and its access path mentions an item object; writes into plain byte buffers are attributed to the output buffer',
        'the dynamic counterpart: trees are built inside an arena that is write-protected (mprotect PROT_READ) while serialization, size computation, serialize_alloc and every '
        'predicate / getter run, at -O0, -O1+ASan and -O2: any store, even a transient one, faults',
        'Props.Accessors: Gen.ItemRec models struct cbor_item_t with one set of fields per member of union cbor_item_metadata; the translator emits, for every '
        'access to a member, the side condition that .type selects it (fixed table tag -> member: the representation invariant established by the constructors), '
        'and for a store to .type that old and new tag select the same member; item->data is assumed to point to storage aligned for uint64_t that no other '
        'object of the record overlaps (constructors: header and payload in one malloc block); fixed-width accesses are little-endian (clang target checked on every regeneration)',
        'ACC correspondence: the C side fills a cbor_item_t directly (header + payload in one block, as the constructors lay it out) and observes the real '
        'accessor in a forked child under ASan+UBSan with CBOR_ASSERT enabled: ok=0 iff the child dies',
    ]
    rule = ('item trees of the C03 corpus (all leaf kinds x boundary values, nested containers to depth 4, shared / partially filled members, counts at 255/256/65535/65536), each built in the '
            'protected arena and subjected to the whole read-only battery at three optimisation levels; non-trivial = any tree; distinct by (tree, result); '
            'plus ACC lines: each of the 49 translated accessors x type tags 0..8 (and 9, 255 for predicates) x width tags 0..4 x payload lengths {0,1,2,3,4,7,8,9} x '
            'byte patterns x boundary setter values x ctrl 0..255 (generated model vs compiled accessor, result + whole item afterwards + whether the call survives its assertions)')

    def trees(self, tier, rng):
        ts = trees.corpus(tier, rng, assigned_only=False)
        return ts if tier == 'thorough' else ts[::2]

    def corr_lines(self, tier, rng):
        return ['RO ' + trees.fmt(t) for t in self.trees(tier, rng) if len(trees.enc(t)) <= 4096] + acc_lines(tier, rng)

    def oracle(self, tier, ctx):
        rng = core.Rng(self.id)
        ts = self.trees(tier, rng)
        lines = ['RO ' + trees.fmt(t) for t in ts]
        # half-width items holding values no half denotes (serializing must not "normalise" the stored value), alone and nested
        for b in trees.ODD_HALF_BITS: lines += ['RO h(%d)' % b, 'RO h!(%d)' % b, 'RO A[u8(1),h(%d)]' % b, 'RO G(2,G(3,h(%d)))' % b]
        fails = []
        for kind in ('asan', 'o0', 'o2'):
            hb = core.build_harness(kind)
            if not hb['ok']:
                fails.append({'input': 'build harness ' + kind, 'expected': 'builds', 'observed': hb['out'][-500:], 'why': 'harness does not build'}); continue
            out, rc, err = core.run_lines(hb['exe'], lines, env={'HALLOC': 'arena'})
            if rc != 0:
                i, l, e = core.first_crash_line(hb['exe'], lines, env={'HALLOC': 'arena'})
                fails.append({'input': l + ' @' + kind, 'expected': 'no store into the write-protected tree', 'observed': 'fault / abort (rc=%d) at optimisation level %s' % (rc, kind),
                              'why': 'a read-only operation wrote to the item it inspects (or crashed): ' + e[-700:]})
                continue
            for t, l, o in zip(ts, lines, out):
                ctx.count(l + '@' + kind, o); ctx.bump(kind)
                e = trees.enc(t)
                exp = '%d %s intact=1' % (len(e), e.hex() or '-')
                if o != exp: fails.append({'input': l + ' @' + kind, 'expected': exp[:300], 'observed': o[:300], 'why': 'read-only battery changed the tree or produced different bytes'})
            for l, o in zip(lines[len(ts):], out[len(ts):]):
                ctx.count(l + '@' + kind, o); ctx.bump(kind + '_odd_half')
                if not o.endswith('intact=1'): fails.append({'input': l + ' @' + kind, 'expected': '... intact=1', 'observed': o[:300], 'why': 'read-only battery changed the tree'})
        return fails[:20]

    def replay(self, ctx, rp):
        l, kind = rp['failure']['input'].rsplit(' @', 1) if ' @' in rp['failure']['input'] else (rp['failure']['input'], 'asan')
        hb = core.build_harness(kind)
        out, rc, err = core.run_lines(hb['exe'], [l], env={'HALLOC': 'arena'})
        if rc != 0 or 'intact=1' not in (out[0] if out else ''): return [dict(rp['failure'], observed=(out[0] if out else 'abort rc=%d' % rc)[:300])]
        return []


PROP = C18()

from vlib.flow import Prop
from vlib import core
from .common import BASE_TRUST
from .C02 import MODEL_TRUST
from . import gen, dec

STRUCTURAL = [0x00, 0x18, 0x19, 0x1b, 0x38, 0x40, 0x41, 0x58, 0x5f, 0x60, 0x61, 0x78, 0x7f, 0x80, 0x81, 0x82, 0x98, 0x9f, 0xa0, 0xa1, 0xb8, 0xbf, 0xc0, 0xd8, 0xf9, 0xfb, 0xff]


class C01(Prop):
    id = 'C01'
    module = 'Cbor.Props.C01'
    extra_modules = ['Cbor.Props.HeapLoad', 'Cbor.Lemmas.ClientOps']
    theorems = ['Props.C01.C01_client_ops', 'Props.C01.C01_loaded_val', 'Props.C01.C01_copy_loaded', 'Props.C01.C01_release_both', 'Heap.own_acyclic', 'Props.HeapLoad.load_dichotomy', 'Props.HeapLoad.release_loaded', 'Props.HeapLoad.loaded_tree_denotes', 'HB.hload_refines', 'Props.C01.C01_stream_reads_inside', 'Props.C01.C01_load_outcome', 'Props.C01.C01_load_any_allocator', 'Lemmas.Safe.load_safe', 'Props.C01.C01_read_inside', 'Props.C01.C01_serialize_inside',
                'Lemmas.sd_ok', 'Lemmas.Refine.load_eq']
    trusted_base = BASE_TRUST + MODEL_TRUST + [
        'undefined behaviour, out-of-bounds access and assertion failures of the real C code outside the generated functions (builder callbacks, containers, cbor_copy, '
        'cbor_describe, release) are observed, not proved: ASan + UBSan + CBOR_ASSERT on exactly-sized heap blocks, every block released checked after every input',
        'termination of the real code is observed (every run returns); the model\'s loops are total functions whose fuel is proved sufficient (fault flag clear)',
    ]
    rule = ('every byte string of length <= 3 (all 16 843 009 of them; thorough: plus every 4-byte string starting with one of 27 structural bytes), each in an exactly-sized heap block, '
            'through load + describe + size + serialize (exact and one short) + copy + release, outcomes digested per 65 536-string batch and compared with the reference decoder '
            'and the model; plus the structured corpus (enumerated well-formed items and all their single-edit neighbours, huge declared lengths, nests at the limit) through LOAD and '
            'SD; non-trivial = input with more than one byte; distinct by (input or batch, outcome)')

    def batches(self, tier):
        b = ['LN - 0', 'LN - 1', 'LN - 2'] + ['LN %02x 2' % i for i in range(256)]
        if tier == 'thorough':
            b += ['LN %02x%02x 2' % (i, j) for i in STRUCTURAL for j in range(256)]
        return b

    def structured(self, tier, rng):
        bufs, wf, nb, rnd = dec.corpus(tier, rng, rounds=1 if tier == 'quick' else 3)
        special = bufs[1 + 256 + 65536:]
        return special + wf + nb + rnd[:5000]

    def corr_lines(self, tier, rng):
        ins = self.structured(tier, rng)
        lines = ['LOAD ' + gen.hexs(b) + ' 0 0 %d' % dec.HUGE for b in ins if len(b) <= 4096]
        lines += ['SD ' + gen.hexs(b) for b in ins[::3] if len(b) <= 4096]
        lines += ['LN - 0', 'LN - 1', 'LN - 2'] + ['LN %02x 2' % i for i in (STRUCTURAL if tier == 'quick' else range(256))]
        return lines

    def nontrivial(self, line, out):
        return len(line.split()[1]) > 2 or line.startswith('LN')

    def oracle(self, tier, ctx):
        rng = core.Rng(self.id + '-oracle')
        fails = dec.run(ctx, self.structured(tier, rng))
        # the same two outcomes when the allocator refuses a request part-way (every single-fault and fail-stop schedule over nested inputs, incl. chunked
        # strings and indefinite containers whose slot arrays grow several times): no crash, an item or NULL plus a code, nothing left allocated
        from .C05 import C05
        fl = C05().faulted(tier, core.Rng('C01-faulted'))
        for e in ('7f616161626163616461656166616761686169ff', '5f4161416241634164416541664167416841694161ff', 'bf0102030405060708090a0b0c0d0e0f1011ff', '9f0102030405060708090aff'):
            for k in range(0, 40): fl += ['LOAD %s 1 %d' % (e, k), 'LOAD %s 2 %d' % (e, k)]
        fo, rc, err = ctx.run_c(fl)
        if rc != 0:
            i, l, e = core.first_crash_line(ctx.harness, fl)
            fails.append({'input': l, 'expected': 'an item, or NULL plus an error code', 'observed': 'implementation aborted / sanitizer report', 'why': e[-1000:]})
            return fails[:20]
        for l, o in zip(fl, fo):
            ctx.count(l, o); ctx.bump('faulted')
            if not ((o.startswith('ERR ') and ' live=0' in o) or (o.startswith('OK ') and ' final=0' in o)):
                fails.append({'input': l, 'expected': 'ERR <code> ... live=0  or  OK <tree> ... final=0', 'observed': o[:300], 'why': 'a third outcome: neither an item nor a clean failure (something was left allocated)'})
        lines = self.batches(tier)
        out, rc, err = core.run_parallel(ctx.harness, lines, jobs=12)
        if rc != 0:
            i, l, e = core.first_crash_line(ctx.harness, lines)
            o1, _, _ = ctx.run_c([l])
            fails.append({'input': l, 'expected': 'every input of the batch returns an item or NULL plus an error code, and leaves nothing allocated',
                          'observed': 'implementation aborted / sanitizer report (rc=%d): %s' % (rc, ' '.join(o1)[-300:]), 'why': e[-1000:]})
            return fails[:20]
        sp, _, _ = core.run_parallel(core.driver_exe('specdrv'), lines, jobs=12)
        for l, a, b in zip(lines, out, sp):
            ctx.count(l, a); ctx.bump('batches'); ctx.bump('inputs', {'0': 1, '1': 256}.get(l.split()[2], 65536))
            if a != b:
                fails.append({'input': l, 'expected': 'reference decoder digest ' + b, 'observed': a,
                              'why': 'some input of this batch is decoded differently from the reference decoder (narrow it with LOAD / DECODE on the batch members)'})
        ctx.exhaustive['all_strings_up_to_3_bytes'] = True
        return fails[:20]

    def replay(self, ctx, rp):
        l = rp['failure']['input']
        if l.startswith('LN'):
            a, rc, _ = ctx.run_c([l]); b, _, _ = ctx.run_spec([l])
            return [dict(rp['failure'], observed=(a[0] if a else 'abort rc=%d' % rc))] if rc != 0 or a != b else []
        w = l.split(); b = bytes.fromhex(w[1]) if w[1] != '-' else b''
        if len(w) == 4 and w[2] in ('1', '2'):
            o, rc, _ = ctx.run_c([l])
            ok = rc == 0 and o and ((o[0].startswith('ERR ') and ' live=0' in o[0]) or (o[0].startswith('OK ') and ' final=0' in o[0]))
            return [] if ok else [dict(rp['failure'], observed=(o[0] if o else 'abort rc=%d' % rc))]
        return dec.run(ctx, [b])


PROP = C01()

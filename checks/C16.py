from vlib.flow import Prop
from vlib import core
from .common import BASE_TRUST
from . import gen, acc2


def py_count(b):
    """independent RFC 3629 validator: CPython's strict UTF-8 decoder"""
    try:
        return len(b.decode('utf-8', errors='strict')), 0
    except UnicodeDecodeError:
        return 0, 1


class C16(Prop):
    id = 'C16'
    module = 'Cbor.Props.C16'
    extra_modules = ['Cbor.Lemmas.TextContent', 'Cbor.Props.HandleSetters']    # HandleSetters: the generated cbor_string_set_handle / cbor_bytestring_set_handle
    HANDLE_THEOREMS = ['string_set_handle_fields', 'string_set_handle_length', 'string_set_handle_data', 'bytestring_set_handle_eq',
                       'bytestring_set_handle_length', 'count_indep', 'string_set_handle_count', 'string_set_handle_count_indep',
                       'string_set_handle_count_spec', 'string_set_handle_count_spec\'', 'string_set_handle_count_le', 'bytestring_set_handle_ok',
                       'string_set_handle_ok_imp', 'string_set_handle_ok']
    theorems = ['Props.HandleSetters.' + t for t in HANDLE_THEOREMS] + ['Props.C16.C16_never_rejects', 'Props.C16.C16_never_rejects_chunked', 'Props.C16.C16_count', 'Props.C16.C16_safe', 'Props.C16.count_le_length', 'Lemmas.Utf8.tableOk_true',
                'Lemmas.Utf8.refLoop_run', 'Lemmas.Utf8.count_eq_ref', 'Lemmas.Utf8.runD_count', 'Lemmas.Utf8.charRest_eq']
    trusted_base = BASE_TRUST + [
        'C16: Spec.Utf8 is a transcription of the RFC 3629 section 4 ABNF; it is cross-checked on every run against CPython\'s strict UTF-8 decoder',
        'C16: that cbor_string_set_handle / the builder store length and bytes unchanged and store 0 for invalid text is part of the item model (C02/C03 correspondence), not of these theorems',
        'Props.HandleSetters: the generated cbor_string_set_handle takes the buffer as the byte sequence the pointer points to and makes it ItemRec.data; exact as long as the buffer '
        'does not overlap the item header itself (the parameter is restrict-qualified; the contract is a separate malloc block) and nothing is stored through either name afterwards '
        '(the translator refuses such stores); the ACC lines hand the real function a buffer from the installed allocator and observe it under ASan in a forked child']
    rule = ('every byte sequence of length 0..3 (4 in thorough for non-ASCII leads) by block digests on all three sides (C, generated Lean, Spec), '
            'plus explicit cases: valid scalars of every length class with single injected faults at every position, long ASCII runs inside '
            'unfinished sequences; the explicit cases and word-sized ASCII prefixes followed by valid / invalid tails also through every entry point that attaches bytes to a definite text string (cbor_build_stringn, cbor_build_string, cbor_string_set_handle, cbor_load, cbor_copy): count, byte length, content preserved; non-trivial = contains a byte >= 0x80; distinct by (bytes, result)')

    def explicit(self, tier, rng):
        out = [b'']
        scal = [0x24, 0x7f, 0x80, 0xa2, 0x7ff, 0x800, 0x20ac, 0xd7ff, 0xe000, 0xfffd, 0xffff, 0x10000, 0x1f600, 0x10ffff]
        enc = [chr(c).encode('utf-8') for c in scal]
        for e in enc: out.append(e)
        n = 4000 if tier == 'thorough' else 600
        for _ in range(n):
            k = 1 + rng.below(6)
            s = b''.join(rng.choice(enc) if rng.chance(3, 4) else bytes([rng.below(128)]) * (1 + rng.below(12)) for _ in range(k))
            out.append(s)
            if s:
                pos = rng.below(len(s))
                kind = rng.below(5)
                if kind == 0: t = s[:pos] + bytes([rng.below(256)]) + s[pos + 1:]
                elif kind == 1: t = s[:pos] + s[pos + 1:]
                elif kind == 2: t = s[:pos] + bytes([rng.choice([0x80, 0xbf, 0xc0, 0xc1, 0xed, 0xf4, 0xf5, 0xff, 0xe0, 0xf0])]) + s[pos:]
                elif kind == 3: t = s[:pos]
                else: t = s[:pos] + b'abcdefghij' * (1 + rng.below(3)) + s[pos:]
                out.append(t)
        for lead in (b'\xc3', b'\xe2\x82', b'\xf0\x9f', b'\xf0\x9f\x98', b'\xe0', b'\xed', b'\xf4'):
            for run in (1, 7, 8, 9, 16, 17, 31, 33):
                out.append(lead + b'a' * run + b'\xa9'); out.append(lead + b'a' * run)
        # every fault at every position of every scalar
        for e in enc:
            for pos in range(len(e)):
                for v in (0x00, 0x7f, 0x80, 0x8f, 0x90, 0x9f, 0xa0, 0xbf, 0xc0, 0xc2, 0xe0, 0xed, 0xf0, 0xf4, 0xf5, 0xff):
                    out.append(e[:pos] + bytes([v]) + e[pos + 1:])
        return out

    def corr_lines(self, tier, rng):
        return ['UTF8 ' + gen.hexs(b) for b in self.explicit(tier, rng)] + acc2.handle_lines(tier, rng)

    def nontrivial(self, line, out):
        w = line.split()
        if w[0] == 'ACC': return True
        return w[0] == 'UTF8ALL' or any(c in '89abcdef' for c in w[1][::2])

    def blocks(self, tier):
        bl = ['UTF8ALL 0 -', 'UTF8ALL 1 -', 'UTF8ALL 2 -'] + ['UTF8ALL 3 %02x' % b for b in range(256)]
        if tier == 'thorough':
            bl += ['UTF8ALL 4 %02x%02x' % (a, b) for a in range(0xc2, 0xf5) for b in range(0x80, 0xc0)]
        return bl

    def oracle(self, tier, ctx):
        rng = core.Rng('C16-oracle')
        fails = []
        # (1) block digests: implementation vs generated model vs Spec
        bl = self.blocks(tier)
        c_out, rc, err = core.run_parallel(ctx.harness, bl)
        if rc != 0:
            return [{'input': bl[0], 'expected': 'digest', 'observed': 'implementation aborted', 'why': err[-800:]}]
        s_out, _, _ = core.run_parallel(core.driver_exe('specdrv'), bl)
        g_out = core.run_parallel(core.driver_exe('cbordrv'), bl)[0] if ctx.model_ok else c_out
        nstr = 0
        for l, co, so, go in zip(bl, c_out, s_out, g_out):
            n = int(co.split()[1]) if len(co.split()) > 1 else 0
            nstr += n
            ctx.evaluations += n - 1; ctx.count(l, co); ctx.bump('block_len_' + l.split()[1], n)
            if co != so:
                fails.append(self.bisect(ctx, l, 'Spec (RFC 3629)', 'specdrv'))
            elif co != go:
                ctx.notes.append('generated model differs from implementation on block ' + l)
                fails.append({'input': l, 'expected': 'generated model: ' + go, 'observed': co, 'why': 'correspondence (generated model vs implementation) broken on this block'})
        ctx.exhaustive['length_0_to_3'] = True
        ctx.exhaustive['length_4_multibyte_leads'] = (tier == 'thorough')
        ctx.stats['strings_in_blocks'] = nstr
        # (2) explicit cases, also against CPython's decoder
        ex = self.explicit(tier, rng)
        lines = ['UTF8 ' + gen.hexs(b) for b in ex]
        c2, rc, err = ctx.run_c(lines)
        s2, _, _ = ctx.run_spec(lines)
        for b, l, co, so in zip(ex, lines, c2, s2):
            ctx.count(l, co); ctx.bump('explicit')
            cw = co.split()
            got = (int(cw[0]), int(cw[1]))
            pw = py_count(b)
            sw = tuple(int(x) for x in so.split())
            if sw != pw:
                ctx.notes.append('Spec.Utf8 disagrees with CPython on ' + gen.hexs(b))
                fails.append({'input': l, 'expected': 'cpython %s' % (pw,), 'observed': 'spec %s' % (sw,), 'why': 'the Spec itself disagrees with the independent validator'})
            if got != pw:
                fails.append({'input': l, 'expected': 'count %d status %d (RFC 3629)' % pw, 'observed': co, 'why': 'code point count / validity wrong'})
        # (3) the same bytes through every way of attaching them to / decoding them into a definite text string
        it = [b for b in ex if len(b) <= 64][: (6000 if tier == 'thorough' else 1500)]
        for pre in (8, 9, 15, 16, 17, 24, 32):            # word-sized ASCII prefixes in front of valid / invalid tails
            for tail in (b'', b'\xc5', b'\xc5\x99', b'\xe2\x82', b'\xe2\x82\xac', b'\xf0\x9f\x98', b'\xf0\x9f\x98\x80', b'\x80', b'\xff',
                         b'\xed\xa0\x80', b'\xc0\xaf', b'\xef\xbf\xbe', b'\xef\xbf\xbf', b'\xf4\x8f\xbf\xbf', b'\xf4\x90\x80\x80'):
                it.append(b'a' * pre + tail); it.append(b'a' * pre + tail + b'z'); it.append(tail + b'a' * pre)
        lines3 = ['UTF8ITEM ' + gen.hexs(b) for b in it]
        c3, rc, err = ctx.run_c(lines3)
        if rc != 0 or len(c3) != len(lines3):
            i, l, e = core.first_crash_line(ctx.harness, lines3)
            return fails + [{'input': l, 'expected': 'counts through every entry point', 'observed': 'implementation aborted', 'why': e[-800:]}]
        for b, l, co in zip(it, lines3, c3):
            ctx.count(l, co); ctx.bump('item_paths')
            want = '%d/%d/1' % (py_count(b)[0], len(b))
            for f in co.split():
                k, _, v = f.partition('=')
                if v in ('skip',): continue
                if v != want:
                    fails.append({'input': l, 'expected': '%s=%s (count/length/bytes preserved)' % (k, want), 'observed': co,
                                  'why': 'code point count, length or content wrong through entry point ' + k})
                    break
        # (4) the handle setters called directly on a laid-out item (ACC), against CPython's decoder
        fails += acc2.oracle(ctx, acc2.handle_lines(tier, core.Rng('C16-acc')), acc2.handle_expect,
                             'cbor_string_set_handle / cbor_bytestring_set_handle does not store length, bytes and the RFC 3629 count (0 for invalid text), or its assertions differ')
        return [f for f in fails if f][:20]

    def bisect(self, ctx, block, refname, refexe):
        """a block digest differs: find one concrete string"""
        w = block.split(); ln = int(w[1]); pre = bytes.fromhex(w[2]) if w[2] != '-' else b''
        while len(pre) < ln:
            found = None
            cand = ['UTF8ALL %d %s' % (ln, (pre + bytes([x])).hex()) for x in range(256)]
            co, _, _ = ctx.run_c(cand); ro, _, _ = core.run_lines(core.driver_exe(refexe), cand)
            for x in range(256):
                if co[x] != ro[x]: found = x; break
            if found is None: break
            pre = pre + bytes([found])
        l = 'UTF8 ' + gen.hexs(pre)
        co, _, _ = ctx.run_c([l]); ro, _, _ = core.run_lines(core.driver_exe(refexe), [l])
        return {'input': l, 'expected': '%s: %s' % (refname, ro[0]), 'observed': co[0], 'why': 'code point count / validity differs from ' + refname}

    def replay(self, ctx, rp):
        l = rp['failure']['input']
        if l.startswith('UTF8ITEM '):
            b = bytes.fromhex(l.split()[1]) if l.split()[1] != '-' else b''
            co, rc, _ = ctx.run_c([l])
            if rc != 0: return [dict(rp['failure'], observed='implementation aborted')]
            want = '%d/%d/1' % (py_count(b)[0], len(b))
            bad = [f for f in co[0].split() if f.partition('=')[2] not in (want, 'skip')]
            return [dict(rp['failure'], observed=co[0])] if bad else []
        if not l.startswith('UTF8 '): return self.oracle('quick', ctx)
        b = bytes.fromhex(l.split()[1]) if l.split()[1] != '-' else b''
        co, rc, _ = ctx.run_c([l])
        if rc != 0: return [dict(rp['failure'], observed='implementation aborted')]
        cw = co[0].split()
        return [dict(rp['failure'], observed=co[0])] if (int(cw[0]), int(cw[1])) != py_count(b) else []


PROP = C16()

from vlib.flow import Prop
from vlib import core
from .common import boundary_u64, BASE_TRUST, U64


class C20(Prop):
    id = 'C20'
    module = 'Cbor.Props.C20'
    theorems = ['Props.C20.C20_hbit', 'Props.C20.C20_hbit_log2', 'Props.C20.C20_mul_sound', 'Props.C20.C20_mul_ok',
                'Props.C20.C20_mul_complete_half', 'Props.C20.C20_add_exact', 'Props.C20.C20_sadd',
                'Props.C20.C20_sadd_ok', 'Props.C20.C20_header_size']
    trusted_base = BASE_TRUST + [
        'C20: theorems are over Gen.MemoryUtils/Gen.HeaderSize (regenerated from memory_utils.c / serialization.c); '
        'call sites in container code are covered by the extracted growth guards (see C12) and the heap model']
    rule = ('operand pairs from the 64-bit boundary grid (2^i + {-2..2}) x same, plus seeded random pairs; '
            'non-trivial = pair with both operands > 1; distinct by (op, operands, result)')

    def pairs(self, tier, rng):
        b = boundary_u64()
        step = 1 if tier == 'thorough' else 3
        ps = [(x, y) for i, x in enumerate(b) for j, y in enumerate(b) if (i + j) % step == 0]
        for _ in range(20000 if tier == 'thorough' else 3000):
            k1, k2 = rng.below(65), rng.below(65)
            ps.append((rng.next() >> k1, rng.next() >> k2))
        return ps

    def corr_lines(self, tier, rng):
        lines = []
        for a, b in self.pairs(tier, rng):
            lines += ['MUL %d %d' % (a, b), 'ADD %d %d' % (a, b), 'SADD %d %d' % (a, b)]
        for v in boundary_u64():
            lines += ['HBIT %d' % v, 'HDR %d' % v]
        return lines

    def nontrivial(self, line, out):
        w = line.split()
        return len(w) == 3 and int(w[1]) > 1 and int(w[2]) > 1 or w[0] in ('HBIT', 'HDR')

    def oracle(self, tier, ctx):
        """reference = exact integer arithmetic (Python big ints)"""
        rng = core.Rng('C20-oracle')
        ps = self.pairs(tier, rng)
        lines = []
        for a, b in ps: lines += ['MUL %d %d' % (a, b), 'ADD %d %d' % (a, b), 'SADD %d %d' % (a, b)]
        hb = boundary_u64()
        lines += ['HBIT %d' % v for v in hb] + ['HDR %d' % v for v in hb]
        out, rc, err = ctx.run_c(lines)
        fails = []
        if rc != 0:
            i, l, e = core.first_crash_line(ctx.harness, lines)
            return [{'input': l, 'expected': 'a result', 'observed': 'implementation aborted', 'why': e[-800:]}]
        for l, o in zip(lines, out):
            w = l.split(); r = o.split()[0]
            ctx.count(l, o); ctx.bump(w[0])
            if w[0] == 'MUL':
                a, b = int(w[1]), int(w[2])
                if r == '1' and a * b >= U64:
                    fails.append({'input': l, 'expected': 'refusal (product %d does not fit size_t)' % (a * b), 'observed': o,
                                  'why': 'multiplication guard accepts a wrapping product'})
                if r == '0' and a * b < 2 ** 63:
                    fails.append({'input': l, 'expected': 'accept (product below 2^63)', 'observed': o, 'why': 'guard refuses a small product'})
            elif w[0] == 'ADD':
                a, b = int(w[1]), int(w[2])
                if (r == '1') != (a + b < U64):
                    fails.append({'input': l, 'expected': str(int(a + b < U64)), 'observed': o, 'why': 'addition guard inexact'})
            elif w[0] == 'SADD':
                a, b = int(w[1]), int(w[2])
                exp = 0 if a == 0 or b == 0 or a + b >= U64 else a + b
                if int(r) != exp:
                    fails.append({'input': l, 'expected': str(exp), 'observed': o, 'why': 'signalling add is neither exact nor 0'})
            elif w[0] == 'HBIT':
                if int(r) != int(w[1]).bit_length():
                    fails.append({'input': l, 'expected': str(int(w[1]).bit_length()), 'observed': o, 'why': 'highest bit'})
            elif w[0] == 'HDR':
                v = int(w[1]); exp = 1 if v <= 23 else 2 if v <= 255 else 3 if v <= 65535 else 5 if v < 2 ** 32 else 9
                if int(r) != exp:
                    fails.append({'input': l, 'expected': str(exp), 'observed': o, 'why': 'header size'})
        return fails[:20]

    def replay(self, ctx, rp):
        l = rp['failure']['input']
        keep = self.oracle
        out, rc, err = ctx.run_c([l])
        # re-evaluate just this line through the same oracle logic
        self_pairs = self.pairs
        try:
            self.pairs = lambda tier, rng: []
            fails = []
            w = l.split()
            class _C:  # tiny shim reusing oracle code on one line
                pass
            ctx2 = ctx
            lines = [l]
            o = out[0] if out else ''
            r = o.split()[0] if o else ''
            a = int(w[1]); b = int(w[2]) if len(w) > 2 else 0
            bad = ((w[0] == 'MUL' and ((r == '1' and a * b >= U64) or (r == '0' and a * b < 2 ** 63))) or
                   (w[0] == 'ADD' and (r == '1') != (a + b < U64)) or
                   (w[0] == 'SADD' and int(r or 0) != (0 if a == 0 or b == 0 or a + b >= U64 else a + b)) or
                   (w[0] == 'HBIT' and int(r or 0) != a.bit_length()) or rc != 0)
            return [dict(rp['failure'], observed=o)] if bad else []
        finally:
            self.pairs = self_pairs


PROP = C20()

from vlib.flow import Prop
from vlib import core
from .common import boundary_u64, BASE_TRUST, U64


class C20(Prop):
    id = 'C20'
    module = 'Cbor.Props.C20'
    theorems = ['Props.C20.C20_hbit', 'Props.C20.C20_hbit_log2', 'Props.C20.C20_mul_sound', 'Props.C20.C20_mul_ok',
                'Props.C20.C20_mul_complete_half', 'Props.C20.C20_add_exact', 'Props.C20.C20_sadd',
                'Props.C20.C20_sadd_ok', 'Props.C20.C20_header_size', 'Props.C20.C20_alloc_sites_guarded']
    trusted_base = BASE_TRUST + [
        'C20: theorems are over Gen.MemoryUtils/Gen.HeaderSize (regenerated from memory_utils.c / serialization.c); '
        'call sites in container code are covered by the extracted growth guards (see C12) and the heap model']
    rule = ('end to end: cbor_serialized_size of skeletons whose strings have recorded lengths up to 2^64-1 (maps, arrays, chunked strings, tags; exact-or-0 against Python integers), '
            'definite arrays / maps with declared capacity 2^60..2^64-1 through the API and through cbor_load (must be refused, never short-allocated); '
            'operand pairs from the 64-bit boundary grid (2^i + {-2..2}) x same, plus seeded random pairs; '
            'non-trivial = pair with both operands > 1; distinct by (op, operands, result)')

    def pairs(self, tier, rng):
        b = boundary_u64()
        step = 1 if tier == 'thorough' else 3
        ps = [(x, y) for i, x in enumerate(b) for j, y in enumerate(b) if (i + j) % step == 0]
        for _ in range(200000 if tier == 'thorough' else 3000):
            k1, k2 = rng.below(65), rng.below(65)
            ps.append((rng.next() >> k1, rng.next() >> k2))
        return ps

    # ---- end to end: recorded lengths / declared counts near 2^61 .. 2^64 through the public API
    def skeletons(self, tier, rng):
        M = U64
        big = [M - 1, M - 2, M - 9, M - 10, M - 11, M - 20, 2 ** 63, 2 ** 63 - 1, 2 ** 63 + 5, 2 ** 62, 2 ** 61, 2 ** 32, 65536, 5, 0]
        sk = []
        for a in big: sk.append(('f', a))
        for a in big[:11]:
            for b in big[:11]:
                if rng.chance(1, 2) or tier == 'thorough':
                    sk.append(('M', [(('f', a), ('f', b))])); sk.append(('m', [(('u', 1), ('f', a)), (('f', b), ('u', 2))]))
                    sk.append(('A', [('f', a), ('f', b)])); sk.append(('a', [('f', a), ('u', 7), ('f', b)]))
                    sk.append(('B', [a, b])); sk.append(('G', 2 ** 40, ('M', [(('f', a), ('G', 1, ('f', b)))])))
        # every wrapper kind (tags of every head width, one-member containers, pairs, chunked strings) around a string whose own
        # size is within 0..31 of 2^64: the outer total is exact just below the boundary and 0 from the boundary on
        for d in range(0, 32):
            a = M - 1 - d
            for tv in (0, 23, 24, 255, 256, 65535, 65536, 2 ** 32 - 1, 2 ** 32, M - 1):
                sk.append(('G', tv, ('f', a)))
            sk.append(('G', 24, ('G', 256, ('f', a)))); sk.append(('A', [('f', a)])); sk.append(('a', [('f', a)])); sk.append(('B', [a]))
            sk.append(('M', [(('u', 1), ('f', a))])); sk.append(('M', [(('f', a), ('u', 30))])); sk.append(('m', [(('u', 1), ('f', a))]))
            sk.append(('A', [('u', 1), ('f', a)])); sk.append(('A', [('f', a), ('u', 100)])); sk.append(('B', [3, a])); sk.append(('B', [a, 3]))
        return sk

    @staticmethod
    def sk_fmt(t):
        k = t[0]
        if k == 'f': return 'f(%d)' % t[1]
        if k == 'u': return 'u8(%d)' % t[1]
        if k in 'Aa': return k + '[' + ','.join(C20.sk_fmt(x) for x in t[1]) + ']'
        if k in 'Mm': return k + '[' + ','.join(C20.sk_fmt(a) + ':' + C20.sk_fmt(b) for a, b in t[1]) + ']'
        if k == 'B': return 'B[' + ','.join('f(%d)' % n for n in t[1]) + ']'
        if k == 'G': return 'G(%d,%s)' % (t[1], C20.sk_fmt(t[2]))

    @staticmethod
    def sk_len(t):
        """the exact mathematical encoded length (Python integers)"""
        def hd(v): return 1 if v <= 23 else 2 if v <= 255 else 3 if v <= 65535 else 5 if v < 2 ** 32 else 9
        k = t[0]
        if k == 'f': return hd(t[1]) + t[1]
        if k == 'u': return 1 if t[1] <= 23 else 2
        if k == 'A': return hd(len(t[1])) + sum(C20.sk_len(x) for x in t[1])
        if k == 'a': return 2 + sum(C20.sk_len(x) for x in t[1])
        if k == 'M': return hd(len(t[1])) + sum(C20.sk_len(a) + C20.sk_len(b) for a, b in t[1])
        if k == 'm': return 2 + sum(C20.sk_len(a) + C20.sk_len(b) for a, b in t[1])
        if k == 'B': return 2 + sum(hd(n) + n for n in t[1])
        if k == 'G': return hd(t[1]) + C20.sk_len(t[2])

    def e2e_lines(self, tier, rng):
        lines = ['SIZES ' + self.sk_fmt(t) for t in self.skeletons(tier, rng)]
        # definite containers whose declared capacity cannot be allocated: the guard must refuse (NULL), never a short block
        for n in (2 ** 60, 2 ** 60 + 1, 2 ** 61, 2 ** 62, 2 ** 63, 2 ** 63 + 1, 2 ** 63 + 2, 2 ** 64 - 1):
            lines += ['HRESET', 'H arr 0 1 %d' % n, 'H drop 0', 'H map 0 1 %d' % n, 'H drop 0']
        from . import gen, dec
        for mt in (4, 5):
            for v in (2 ** 64 - 1, 2 ** 63 + 1, 2 ** 63, 2 ** 61, 2 ** 60):
                h = gen.head(mt, v, 27)
                for tail in (b'', b'\x01', b'\x01\x02', b'\x01\x02\x03\x04'):
                    lines.append('LOAD %s 0 0 %d' % (gen.hexs(h + tail), dec.HUGE))
        # growth of every kind of indefinite container at capacities up to the maximum size_t: the allocator (which refuses and records)
        # is either asked for exactly elt * new_capacity bytes or not asked at all
        caps = [0, 1, 2, 3, 4, 5, 7, 8, 1000] + [2 ** k + d for k in range(55, 64) for d in (-1, 0, 1)] + [2 ** 64 - 1, 2 ** 64 - 2, 3 * 2 ** 59, 3 * 2 ** 60, 3 * 2 ** 61, 5 * 2 ** 58]
        for kind in 'ambs':
            for c in caps: lines.append('GROWAT %s %d' % (kind, c))
        return lines

    def corr_lines(self, tier, rng):
        lines = self.e2e_lines(tier, core.Rng('C20-e2e'))
        for a, b in self.pairs(tier, rng):
            lines += ['MUL %d %d' % (a, b), 'ADD %d %d' % (a, b), 'SADD %d %d' % (a, b)]
        for v in boundary_u64():
            lines += ['HBIT %d' % v, 'HDR %d' % v]
        return lines

    def nontrivial(self, line, out):
        w = line.split()
        if w[0] in ('SIZES', 'LOAD', 'H', 'GROWAT'): return True
        if w[0] == 'HRESET': return False
        return len(w) == 3 and int(w[1]) > 1 and int(w[2]) > 1 or w[0] in ('HBIT', 'HDR')

    def oracle(self, tier, ctx):
        """reference = exact integer arithmetic (Python big ints)"""
        rng = core.Rng('C20-oracle')
        ps = self.pairs(tier, rng)
        lines = []
        for a, b in ps: lines += ['MUL %d %d' % (a, b), 'ADD %d %d' % (a, b), 'SADD %d %d' % (a, b)]
        hb = boundary_u64()
        lines += ['HBIT %d' % v for v in hb] + ['HDR %d' % v for v in hb]
        e2e = self.e2e_lines(tier, core.Rng('C20-e2e'))
        sks = self.skeletons(tier, core.Rng('C20-e2e'))
        lines = e2e + lines
        out, rc, err = ctx.run_c(lines)
        fails = []
        if rc != 0 and any(l.startswith('H') for l in lines):
            # stateful lines: find the crashing block
            o2, rc2, e2 = ctx.run_c(e2e)
            if rc2 != 0:
                n = len(o2)
                return [{'input': ' ; '.join(e2e[max(0, n - 4):n + 1]) if e2e[n].startswith('H') else e2e[n], 'expected': 'a result',
                         'observed': 'implementation aborted / sanitizer report at: ' + e2e[n], 'why': e2[-900:]}]
        if rc != 0:
            i, l, e = core.first_crash_line(ctx.harness, lines)
            return [{'input': l, 'expected': 'a result', 'observed': 'implementation aborted', 'why': e[-800:]}]
        for t, l, o in zip(sks, e2e, out):
            exact = self.sk_len(t); exp = exact if exact < U64 else 0
            if o.strip() != str(exp):
                fails.append({'input': l, 'expected': '%d (exact total %d)' % (exp, exact), 'observed': o, 'why': 'computed serialized size is neither the exact total nor 0'})
        for l, o in zip(lines, out):
            w = l.split(); r = o.split()[0] if o.split() else ''
            ctx.count(l, o); ctx.bump(w[0])
            if w[0] == 'H' and w[1] in ('arr', 'map') and not o.startswith('NULL'):
                fails.append({'input': 'HRESET ; ' + l, 'expected': 'NULL (the byte size of the slot array does not fit size_t)', 'observed': o[:200],
                              'why': 'a container was created although its declared capacity cannot be allocated'})
            if w[0] == 'GROWAT':
                cap = int(w[2]); elt = 16 if w[1] == 'm' else 8
                newcap = 1 if cap == 0 else 2 * cap; exact = elt * newcap
                ow = dict(f.split('=') for f in o.split()[1:]) if o.split() else {}
                why = None
                if not o.startswith('false'): why = 'the insertion succeeded although the allocator refused every request'
                elif ow.get('rc') != '1': why = 'the refused insertion changed the reference count of the item'
                elif ow.get('reqs') == '1':
                    if int(ow['last']) != exact: why = 'the allocator was asked for %s bytes but %d entries of %d bytes need %d' % (ow['last'], newcap, elt, exact)
                elif ow.get('reqs') == '0':
                    if exact < 2 ** 63 and newcap < 2 ** 63: why = 'growth was refused without asking the allocator although %d bytes are representable' % exact
                else: why = 'unexpected number of allocator requests'
                if why: fails.append({'input': l, 'expected': 'false, and either no request or one request for exactly %d bytes' % exact, 'observed': o, 'why': why})
                continue
            if w[0] in ('H', 'HRESET', 'SIZES', 'LOAD'): continue
            if w[0] == 'MUL':
                a, b = int(w[1]), int(w[2])
                if r == '1' and a * b >= U64:
                    fails.append({'input': l, 'expected': 'refusal (product %d does not fit size_t)' % (a * b), 'observed': o,
                                  'why': 'multiplication guard accepts a wrapping product'})
                if r == '0' and a * b < 2 ** 63:
                    fails.append({'input': l, 'expected': 'accept (product below 2^63)', 'observed': o, 'why': 'guard refuses a small product'})
            elif w[0] == 'ADD':
                a, b = int(w[1]), int(w[2])
                if (r == '1') != (a + b < U64):
                    fails.append({'input': l, 'expected': str(int(a + b < U64)), 'observed': o, 'why': 'addition guard inexact'})
            elif w[0] == 'SADD':
                a, b = int(w[1]), int(w[2])
                exp = 0 if a == 0 or b == 0 or a + b >= U64 else a + b
                if int(r) != exp:
                    fails.append({'input': l, 'expected': str(exp), 'observed': o, 'why': 'signalling add is neither exact nor 0'})
            elif w[0] == 'HBIT':
                if int(r) != int(w[1]).bit_length():
                    fails.append({'input': l, 'expected': str(int(w[1]).bit_length()), 'observed': o, 'why': 'highest bit'})
            elif w[0] == 'HDR':
                v = int(w[1]); exp = 1 if v <= 23 else 2 if v <= 255 else 3 if v <= 65535 else 5 if v < 2 ** 32 else 9
                if int(r) != exp:
                    fails.append({'input': l, 'expected': str(exp), 'observed': o, 'why': 'header size'})
        return fails[:20]

    def replay(self, ctx, rp):
        l = rp['failure']['input']
        keep = self.oracle
        out, rc, err = ctx.run_c([l])
        # re-evaluate just this line through the same oracle logic
        self_pairs = self.pairs
        try:
            self.pairs = lambda tier, rng: []
            fails = []
            w = l.split()
            class _C:  # tiny shim reusing oracle code on one line
                pass
            ctx2 = ctx
            lines = [l]
            o = out[0] if out else ''
            r = o.split()[0] if o else ''
            a = int(w[1]); b = int(w[2]) if len(w) > 2 else 0
            bad = ((w[0] == 'MUL' and ((r == '1' and a * b >= U64) or (r == '0' and a * b < 2 ** 63))) or
                   (w[0] == 'ADD' and (r == '1') != (a + b < U64)) or
                   (w[0] == 'SADD' and int(r or 0) != (0 if a == 0 or b == 0 or a + b >= U64 else a + b)) or
                   (w[0] == 'HBIT' and int(r or 0) != a.bit_length()) or rc != 0)
            return [dict(rp['failure'], observed=o)] if bad else []
        finally:
            self.pairs = self_pairs


PROP = C20()

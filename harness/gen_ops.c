/* Correspondence harness, part 1: operations over the leaf (translated) functions.
 * One operation per input line, one canonical result line per operation; same protocol as
 * lean/Cbor/Drv/GenOps.lean.  Built from /repo's working tree with ASan+UBSan and -DDEBUG=1. */
#include "hcommon.h"

#include "cbor/internal/encoders.h"
#include "cbor/internal/loaders.h"
#include "cbor/internal/memory_utils.h"
#include "cbor/internal/unicode.h"

size_t _cbor_encoded_header_size(uint64_t size);
float _cbor_decode_half(unsigned char* halfp);

/* ---- recording callbacks ------------------------------------------------------------ */
struct rec {
  char* out; size_t len, cap;
  const unsigned char* base;
  int count;
  size_t bias;   /* added to payload offsets (FRAG: offset of the buffered window in the whole stream) */
};
static void rec_add(struct rec* r, const char* fmt, ...) {
  va_list ap;
  if (r->cap - r->len < 128) { r->cap = r->cap * 2 + 256; r->out = realloc(r->out, r->cap); }
  if (r->count++ > 0) r->out[r->len++] = ';';
  va_start(ap, fmt);
  r->len += vsnprintf(r->out + r->len, r->cap - r->len, fmt, ap);
  va_end(ap);
}
static uint32_t f2u(float f) { uint32_t u; memcpy(&u, &f, 4); return u; }
static uint64_t d2u(double f) { uint64_t u; memcpy(&u, &f, 8); return u; }
#define R ((struct rec*)ctx)
static void r_uint8(void* ctx, uint8_t v) { rec_add(R, "uint8 %u", v); }
static void r_uint16(void* ctx, uint16_t v) { rec_add(R, "uint16 %u", v); }
static void r_uint32(void* ctx, uint32_t v) { rec_add(R, "uint32 %u", v); }
static void r_uint64(void* ctx, uint64_t v) { rec_add(R, "uint64 %" PRIu64, v); }
static void r_negint8(void* ctx, uint8_t v) { rec_add(R, "negint8 %u", v); }
static void r_negint16(void* ctx, uint16_t v) { rec_add(R, "negint16 %u", v); }
static void r_negint32(void* ctx, uint32_t v) { rec_add(R, "negint32 %u", v); }
static void r_negint64(void* ctx, uint64_t v) { rec_add(R, "negint64 %" PRIu64, v); }
static void r_bs(void* ctx, cbor_data d, uint64_t l) { rec_add(R, "byte_string %zu %" PRIu64, (size_t)(d - R->base) + R->bias, l); }
static void r_bss(void* ctx) { rec_add(R, "byte_string_start"); }
static void r_s(void* ctx, cbor_data d, uint64_t l) { rec_add(R, "string %zu %" PRIu64, (size_t)(d - R->base) + R->bias, l); }
static void r_ss(void* ctx) { rec_add(R, "string_start"); }
static void r_ias(void* ctx) { rec_add(R, "indef_array_start"); }
static void r_as(void* ctx, uint64_t n) { rec_add(R, "array_start %" PRIu64, n); }
static void r_ims(void* ctx) { rec_add(R, "indef_map_start"); }
static void r_ms(void* ctx, uint64_t n) { rec_add(R, "map_start %" PRIu64, n); }
static void r_tag(void* ctx, uint64_t n) { rec_add(R, "tag %" PRIu64, n); }
static void r_f2(void* ctx, float f) { rec_add(R, "float2 %u", f2u(f)); }
static void r_f4(void* ctx, float f) { rec_add(R, "float4 %u", f2u(f)); }
static void r_f8(void* ctx, double f) { rec_add(R, "float8 %" PRIu64, d2u(f)); }
static void r_undef(void* ctx) { rec_add(R, "undefined"); }
static void r_null(void* ctx) { rec_add(R, "null"); }
static void r_bool(void* ctx, bool b) { rec_add(R, "boolean %s", b ? "true" : "false"); }
static void r_break(void* ctx) { rec_add(R, "indef_break"); }
#undef R
const struct cbor_callbacks rec_callbacks = {
    .uint8 = r_uint8, .uint16 = r_uint16, .uint32 = r_uint32, .uint64 = r_uint64,
    .negint64 = r_negint64, .negint32 = r_negint32, .negint16 = r_negint16, .negint8 = r_negint8,
    .byte_string_start = r_bss, .byte_string = r_bs, .string = r_s, .string_start = r_ss,
    .indef_array_start = r_ias, .array_start = r_as, .indef_map_start = r_ims, .map_start = r_ms,
    .tag = r_tag, .float2 = r_f2, .float4 = r_f4, .float8 = r_f8,
    .undefined = r_undef, .null = r_null, .boolean = r_bool, .indef_break = r_break};

/* SD <hex>: one cbor_stream_decode call on an exactly-sized heap copy; counts allocator requests */
static void op_sd(const char* hex) {
  struct xbuf xb = hex_to_exact(hex); size_t n = xb.n; unsigned char* buf = xb.p;
  struct rec r = {0}; r.base = buf;
  long before = h_alloc_requests();
  struct cbor_decoder_result res = cbor_stream_decode(buf, n, &rec_callbacks, &r);
  long after = h_alloc_requests();
  if (r.out) r.out[r.len] = 0;
  printf("%d %zu %zu %s ok=%d\n", (int)res.status, res.read, res.required, r.count ? r.out : "none",
         after == before ? 1 : 0);
  free(r.out); free_exact(xb);
}

/* SDE <hex>: the same call with the library's own do-nothing callback table (cbor_empty_callbacks): status / read / required must not
   depend on which callbacks are installed, nothing may be allocated, and the do-nothing callbacks must indeed do nothing */
static void op_sde(const char* hex) {
  struct xbuf xb = hex_to_exact(hex); size_t n = xb.n; unsigned char* buf = xb.p;
  long before = h_alloc_requests();
  struct cbor_decoder_result res = cbor_stream_decode(buf, n, &cbor_empty_callbacks, NULL);
  long after = h_alloc_requests();
  printf("%d %zu %zu ok=%d\n", (int)res.status, res.read, res.required, after == before ? 1 : 0);
  free_exact(xb);
}

/* FRAG <hex> <first> <a1,a2,..|->: the buffering client of C09 against the real decoder.  Each call sees an exactly-sized heap copy of
   the bytes buffered from the current position, so a read beyond what has arrived is an ASan report.  -> <#events> <events> */
static void op_frag(const char* hex, size_t first, const char* cuts) {
  struct xbuf all = hex_to_exact(hex);
  size_t size = all.n, p = 0, avail = first > size ? size : first;
  const char* c = cuts[0] == '-' ? "" : cuts;
  struct rec r = {0};
  int stalled = 0; size_t stall_at = 0, stall_read = 0;
  for (size_t guard = 0; guard < 2 * size + 2; guard++) {
    struct xbuf win = exact_copy(all.p + p, avail - p);
    r.base = win.p; r.bias = p;
    struct cbor_decoder_result res = cbor_stream_decode(win.p, avail - p, &rec_callbacks, &r);
    free_exact(win);
    if (res.status == CBOR_DECODER_FINISHED) {
      /* FINISHED must consume something that was buffered: a client told neither to advance nor to wait can only spin */
      if (res.read == 0 || res.read > avail - p) { stalled = 1; stall_at = p; stall_read = res.read; break; }
      p += res.read; continue;
    }
    if (res.status == CBOR_DECODER_NEDATA) {
      size_t target = p + res.required;
      while (avail < target && *c) { avail += strtoull(c, (char**)&c, 10); if (*c == ',') c++; if (avail > size) avail = size; }
      if (avail < target) break;      /* the stream ended inside an item */
      continue;
    }
    break;                            /* ERROR */
  }
  if (r.out) r.out[r.len] = 0;
  printf("%d %s", r.count, r.count ? r.out : "none");
  if (stalled) printf(" CLIENT-STUCK at offset %zu: FINISHED with read=%zu and %zu byte(s) buffered", stall_at, stall_read, avail - stall_at);
  printf("\n");
  free(r.out); free_exact(all);
}

/* FRAGW <hex> <first> <cuts>: the same client; prints every wait as offset:required:buffered (at most 64) */
static void op_fragw(const char* hex, size_t first, const char* cuts) {
  struct xbuf all = hex_to_exact(hex);
  size_t size = all.n, p = 0, avail = first > size ? size : first;
  const char* c = cuts[0] == '-' ? "" : cuts;
  struct rec r = {0};
  int nw = 0;
  for (size_t guard = 0; guard < 2 * size + 2; guard++) {
    struct xbuf win = exact_copy(all.p + p, avail - p);
    r.base = win.p; r.bias = p;
    struct cbor_decoder_result res = cbor_stream_decode(win.p, avail - p, &rec_callbacks, &r);
    free_exact(win);
    if (res.status == CBOR_DECODER_FINISHED) { p += res.read; continue; }
    if (res.status == CBOR_DECODER_NEDATA) {
      if (nw < 64) { printf("%s%zu:%zu:%zu", nw ? " " : "", p, res.required, avail - p); nw++; }
      if (res.required <= avail - p) break;          /* a client that waits for what it already has never makes progress */
      size_t target = p + res.required;
      if (target < p) target = SIZE_MAX;
      while (avail < target && *c) { avail += strtoull(c, (char**)&c, 10); if (*c == ',') c++; if (avail > size) avail = size; }
      if (avail < target) break;
      continue;
    }
    break;
  }
  if (!nw) printf("none");
  printf("\n");
  free(r.out); free_exact(all);
}

/* ENC <fn> <value> <n> */
static int op_enc(const char* fn, uint64_t v, size_t n) {
  unsigned char* buf = malloc(n ? n : 1);      /* exactly n usable bytes matter: ASan red zone follows when n>0 */
  unsigned char* b = n ? buf : buf + 1;        /* n == 0: hand out the one-past pointer, any write is an overflow */
  memset(buf, 0xAA, n ? n : 1);
  size_t ret;
  float f; double d; uint32_t u32 = (uint32_t)v;
  memcpy(&f, &u32, 4); memcpy(&d, &v, 8);
  if (!strcmp(fn, "uint8")) ret = cbor_encode_uint8((uint8_t)v, b, n);
  else if (!strcmp(fn, "uint16")) ret = cbor_encode_uint16((uint16_t)v, b, n);
  else if (!strcmp(fn, "uint32")) ret = cbor_encode_uint32((uint32_t)v, b, n);
  else if (!strcmp(fn, "uint64")) ret = cbor_encode_uint64(v, b, n);
  else if (!strcmp(fn, "uint")) ret = cbor_encode_uint(v, b, n);
  else if (!strcmp(fn, "negint8")) ret = cbor_encode_negint8((uint8_t)v, b, n);
  else if (!strcmp(fn, "negint16")) ret = cbor_encode_negint16((uint16_t)v, b, n);
  else if (!strcmp(fn, "negint32")) ret = cbor_encode_negint32((uint32_t)v, b, n);
  else if (!strcmp(fn, "negint64")) ret = cbor_encode_negint64(v, b, n);
  else if (!strcmp(fn, "negint")) ret = cbor_encode_negint(v, b, n);
  else if (!strcmp(fn, "bytestring_start")) ret = cbor_encode_bytestring_start(v, b, n);
  else if (!strcmp(fn, "string_start")) ret = cbor_encode_string_start(v, b, n);
  else if (!strcmp(fn, "array_start")) ret = cbor_encode_array_start(v, b, n);
  else if (!strcmp(fn, "map_start")) ret = cbor_encode_map_start(v, b, n);
  else if (!strcmp(fn, "tag")) ret = cbor_encode_tag(v, b, n);
  else if (!strcmp(fn, "indef_bytestring_start")) ret = cbor_encode_indef_bytestring_start(b, n);
  else if (!strcmp(fn, "indef_string_start")) ret = cbor_encode_indef_string_start(b, n);
  else if (!strcmp(fn, "indef_array_start")) ret = cbor_encode_indef_array_start(b, n);
  else if (!strcmp(fn, "indef_map_start")) ret = cbor_encode_indef_map_start(b, n);
  else if (!strcmp(fn, "bool")) ret = cbor_encode_bool(v != 0, b, n);
  else if (!strcmp(fn, "null")) ret = cbor_encode_null(b, n);
  else if (!strcmp(fn, "undef")) ret = cbor_encode_undef(b, n);
  else if (!strcmp(fn, "break")) ret = cbor_encode_break(b, n);
  else if (!strcmp(fn, "ctrl")) ret = cbor_encode_ctrl((uint8_t)v, b, n);
  else if (!strcmp(fn, "half")) ret = cbor_encode_half(f, b, n);
  else if (!strcmp(fn, "single")) ret = cbor_encode_single(f, b, n);
  else if (!strcmp(fn, "double")) ret = cbor_encode_double(d, b, n);
  else { free(buf); return 0; }
  printf("%zu ", ret); print_hex(b, n); printf(" ok=1\n");
  free(buf);
  return 1;
}

static void op_utf8(const char* hex) {
  struct xbuf xb = hex_to_exact(hex); size_t n = xb.n; unsigned char* buf = xb.p;
  struct _cbor_unicode_status st = {.status = 7, .location = 77};
  size_t c = _cbor_unicode_codepoint_count(buf, n, &st);
  printf("%zu %d %zu ok=1\n", c, (int)st.status, st.location);
  free_exact(xb);
}


/* UTF8ITEM <hex>: the same bytes attached to / decoded into a definite text string through every entry point;
   per path: reported code point count, byte length, bytes preserved.  Paths: build_stringn, set_handle,
   cbor_load, cbor_copy of the loaded item, build_string (only when the bytes contain no NUL) */
static void item_report(const char* tag, cbor_item_t* it, const unsigned char* b, size_t n) {
  if (!it) { printf("%s=NULL ", tag); return; }
  size_t len = cbor_string_length(it);
  int same = (len == n) && (n == 0 || memcmp(cbor_string_handle(it), b, n) == 0);
  printf("%s=%zu/%zu/%d ", tag, cbor_string_codepoint_count(it), len, same);
}
void op_utf8item(const char* hex) {
  struct xbuf xb = hex_to_exact(hex); size_t n = xb.n; unsigned char* b = xb.p;
  cbor_item_t* a = cbor_build_stringn((const char*)b, n);
  item_report("stringn", a, b, n);
  cbor_item_t* s = cbor_new_definite_string();
  if (s) {
    extern _cbor_malloc_t _cbor_malloc;     /* set_handle takes ownership; released through the installed free */
    unsigned char* h = _cbor_malloc(n ? n : 1);
    if (n) memcpy(h, b, n);
    cbor_string_set_handle(s, h, n);
  }
  item_report("handle", s, b, n);
  /* encoded: shortest head */
  unsigned char head[9]; size_t hl = cbor_encode_string_start(n, head, 9);
  struct xbuf enc; enc.base = malloc(hl + n + 1); enc.p = enc.base; enc.n = hl + n;
  memcpy(enc.p, head, hl); if (n) memcpy(enc.p + hl, b, n);
  struct xbuf ex = exact_copy(enc.p, enc.n); free(enc.base);
  struct cbor_load_result lr; cbor_item_t* l = cbor_load(ex.p, ex.n, &lr);
  free_exact(ex);
  item_report("load", l, b, n);
  cbor_item_t* c = l ? cbor_copy(l) : NULL;
  item_report("copy", c, b, n);
  if (n == 0 || memchr(b, 0, n) == NULL) {
    char* z = malloc(n + 1); if (n) memcpy(z, b, n); z[n] = 0;
    cbor_item_t* bs = cbor_build_string(z);
    item_report("string", bs, b, n);
    if (bs) cbor_decref(&bs);
    free(z);
  } else printf("string=skip ");
  /* a handle attached to an item that already held other (valid, multi-byte) text: the count must be that of the new bytes */
  cbor_item_t* s2 = cbor_new_definite_string();
  if (s2) {
    extern _cbor_malloc_t _cbor_malloc; extern _cbor_free_t _cbor_free;
    static const unsigned char first[] = {'h', 0xc3, 0xa9, 'l', 'l', 'o', 0xe2, 0x82, 0xac, 0xf0, 0x9f, 0x98, 0x80};
    unsigned char* h1 = _cbor_malloc(sizeof first); memcpy(h1, first, sizeof first);
    cbor_string_set_handle(s2, h1, sizeof first);
    _cbor_free(h1);
    unsigned char* h2 = _cbor_malloc(n ? n : 1); if (n) memcpy(h2, b, n);
    cbor_string_set_handle(s2, h2, n);
  }
  item_report("rehandle", s2, b, n);
  if (s2) cbor_decref(&s2);
  /* the same bytes as the only chunk of an indefinite text string: decoded (the chunk is a definite text string), and copied */
  {
    struct xbuf ie; ie.base = malloc(hl + n + 3); ie.p = ie.base; ie.n = hl + n + 2;
    ie.p[0] = 0x7f; memcpy(ie.p + 1, head, hl); if (n) memcpy(ie.p + 1 + hl, b, n); ie.p[1 + hl + n] = 0xff;
    struct xbuf ix = exact_copy(ie.p, ie.n); free(ie.base);
    cbor_item_t* li = cbor_load(ix.p, ix.n, &lr);
    free_exact(ix);
    if (li && cbor_isa_string(li) && cbor_string_is_indefinite(li) && cbor_string_chunk_count(li) == 1) {
      item_report("chunk", cbor_string_chunks_handle(li)[0], b, n);
      cbor_item_t* ci = cbor_copy(li);
      if (ci && cbor_string_chunk_count(ci) == 1) item_report("chunkcopy", cbor_string_chunks_handle(ci)[0], b, n); else printf("chunkcopy=null ");
      if (ci) cbor_decref(&ci);
    } else printf("chunk=null ");
    if (li) cbor_decref(&li);
  }
  if (a) cbor_decref(&a);
  if (s) cbor_decref(&s);
  if (l) cbor_decref(&l);
  if (c) cbor_decref(&c);
  printf("\n");
  free_exact(xb);
}

/* UTF8ALL <len> <prefix-hex>: every byte string of length len starting with the prefix, in lexicographic
   order; prints FNV-1a digest of (count,status) pairs, number of strings, number valid, sum of counts */
static void op_utf8all(size_t len, const char* prefhex) {
  unsigned char pre[8]; size_t pl = hex_decode(prefhex, pre, 8);
  unsigned char* b = malloc(len ? len : 1);
  memset(b, 0, len ? len : 1); memcpy(b, pre, pl);
  uint64_t h = 1469598103934665603ULL, n = 0, valid = 0, sum = 0;
  for (;;) {
    struct _cbor_unicode_status st = {.status = 7, .location = 77};
    size_t c = _cbor_unicode_codepoint_count(b, len, &st);
    h = (h ^ (uint64_t)c) * 1099511628211ULL; h = (h ^ (uint64_t)st.status) * 1099511628211ULL;
    n++; if (st.status == _CBOR_UNICODE_OK) { valid++; sum += c; }
    size_t i = len;
    while (i > pl) { if (++b[i - 1] != 0) break; i--; }
    if (i == pl) break;
  }
  printf("%" PRIu64 " %" PRIu64 " %" PRIu64 " %" PRIu64 "\n", h, n, valid, sum);
  free(b);
}

/* F32ALL <hi16>: all 65536 binary32 patterns with the given upper half: digest over the bytes written by
   cbor_encode_single and cbor_encode_half (5-byte and 3-byte buffers) */
static void op_f32all(unsigned hi) {
  uint64_t h = 1469598103934665603ULL; unsigned char b5[5], b3[3];
  for (unsigned lo = 0; lo < 65536; lo++) {
    uint32_t bits = ((uint32_t)hi << 16) | lo; float f; memcpy(&f, &bits, 4);
    size_t r1 = cbor_encode_single(f, b5, 5), r2 = cbor_encode_half(f, b3, 3);
    h = (h ^ r1) * 1099511628211ULL; h = (h ^ r2) * 1099511628211ULL;
    for (int i = 0; i < 5; i++) h = (h ^ b5[i]) * 1099511628211ULL;
    for (int i = 0; i < 3; i++) h = (h ^ b3[i]) * 1099511628211ULL;
  }
  printf("%" PRIu64 "\n", h);
}

/* ---- ACC: item accessors (getters / setters / predicates over cbor_item_t) ---------------------------
   ACC <fn> <type> <a> <b> <c> <refcount> <hexdata> <value>
   An item is laid out the way the constructors do it (header and payload in one malloc block, item->data pointing just behind the
   header, so it is aligned and ASan sees every access beyond the given bytes); .type = <type>; the union member selected by <type> is
   filled from a,b,c (ints: width=a; byte string: length=a,type=b; string: length=a,codepoint_count=b,type=c; array / map:
   allocated=a,end_ptr=b,type=c; tag: value=b; float_ctrl: width=a,ctrl=b; any other tag: all zero).
   The real accessor is first run in a forked child with assertions enabled (DEBUG build, ASan+UBSan): if the child dies (CBOR_ASSERT,
   sanitizer report, signal) the line is `ok=0`; otherwise the accessor is run here and the line is
   <result|-> t=<type> m=<a>,<b>,<c> rc=<refcount> d=<hexdata> ok=1     (the whole item after the call). */
#include <fcntl.h>
#include <sys/resource.h>
#include <sys/wait.h>
#include <unistd.h>

static cbor_item_t* acc_item(unsigned type, uint64_t a, uint64_t b, uint64_t c, uint64_t rc, const unsigned char* d, size_t n) {
  cbor_item_t* it = malloc(sizeof(cbor_item_t) + n);
  memset(it, 0, sizeof(cbor_item_t));
  it->data = (unsigned char*)it + sizeof(cbor_item_t);
  if (n) memcpy(it->data, d, n);
  it->refcount = rc;
  it->type = (cbor_type)type;
  switch (type) {
    case 0: case 1: it->metadata.int_metadata.width = (cbor_int_width)a; break;
    case 2: it->metadata.bytestring_metadata.length = a; it->metadata.bytestring_metadata.type = (_cbor_dst_metadata)b; break;
    case 3: it->metadata.string_metadata.length = a; it->metadata.string_metadata.codepoint_count = b;
            it->metadata.string_metadata.type = (_cbor_dst_metadata)c; break;
    case 4: it->metadata.array_metadata.allocated = a; it->metadata.array_metadata.end_ptr = b;
            it->metadata.array_metadata.type = (_cbor_dst_metadata)c; break;
    case 5: it->metadata.map_metadata.allocated = a; it->metadata.map_metadata.end_ptr = b;
            it->metadata.map_metadata.type = (_cbor_dst_metadata)c; break;
    case 6: it->metadata.tag_metadata.tagged_item = NULL; it->metadata.tag_metadata.value = b; break;
    case 7: it->metadata.float_ctrl_metadata.width = (cbor_float_width)a; it->metadata.float_ctrl_metadata.ctrl = (uint8_t)b; break;
    default: break;
  }
  return it;
}

static void acc_print_item(const cbor_item_t* it, size_t n) {
  uint64_t a = 0, b = 0, c = 0;
  switch ((unsigned)it->type) {
    case 0: case 1: a = it->metadata.int_metadata.width; break;
    case 2: a = it->metadata.bytestring_metadata.length; b = it->metadata.bytestring_metadata.type; break;
    case 3: a = it->metadata.string_metadata.length; b = it->metadata.string_metadata.codepoint_count; c = it->metadata.string_metadata.type; break;
    case 4: a = it->metadata.array_metadata.allocated; b = it->metadata.array_metadata.end_ptr; c = it->metadata.array_metadata.type; break;
    case 5: a = it->metadata.map_metadata.allocated; b = it->metadata.map_metadata.end_ptr; c = it->metadata.map_metadata.type; break;
    case 6: b = it->metadata.tag_metadata.value; break;
    case 7: a = it->metadata.float_ctrl_metadata.width; b = it->metadata.float_ctrl_metadata.ctrl; break;
    default: break;
  }
  printf(" t=%u m=%" PRIu64 ",%" PRIu64 ",%" PRIu64 " rc=%zu d=", (unsigned)it->type, a, b, c, it->refcount);
  print_hex(it->data, n);
}

/* 0: unknown function; 1: returned a value (in *ret); 2: void.  float / double results and arguments travel as IEEE-754 bit patterns;
   hb (hn bytes, from the installed allocator) is the buffer handed to the handle setters, v their length argument */
static int acc_call(const char* fn, cbor_item_t* it, uint64_t v, uint64_t* ret, unsigned char* hb) {
#define GF(name) if (!strcmp(fn, #name)) { *ret = f2u(name(it)); return 1; }
#define GD(name) if (!strcmp(fn, #name)) { *ret = d2u(name(it)); return 1; }
#define SF(name) if (!strcmp(fn, #name)) { uint32_t u = (uint32_t)v; float f; memcpy(&f, &u, 4); name(it, f); return 2; }
#define SD(name) if (!strcmp(fn, #name)) { double d; memcpy(&d, &v, 8); name(it, d); return 2; }
  GF(cbor_float_get_float2) GF(cbor_float_get_float4) GD(cbor_float_get_float8) GD(cbor_float_get_float)
  SF(cbor_set_float2) SF(cbor_set_float4) SD(cbor_set_float8)
  if (!strcmp(fn, "cbor_string_set_handle")) { if (!hb) return 0; cbor_string_set_handle(it, hb, (size_t)v); return 2; }
  if (!strcmp(fn, "cbor_bytestring_set_handle")) { if (!hb) return 0; cbor_bytestring_set_handle(it, hb, (size_t)v); return 2; }
#undef GF
#undef GD
#undef SF
#undef SD
#define G(name) if (!strcmp(fn, #name)) { *ret = (uint64_t)name(it); return 1; }
#define S(name, T) if (!strcmp(fn, #name)) { name(it, (T)v); return 2; }
#define M(name) if (!strcmp(fn, #name)) { name(it); return 2; }
  G(cbor_typeof) G(cbor_isa_uint) G(cbor_isa_negint) G(cbor_isa_bytestring) G(cbor_isa_string) G(cbor_isa_array) G(cbor_isa_map)
  G(cbor_isa_tag) G(cbor_isa_float_ctrl) G(cbor_is_int) G(cbor_is_float) G(cbor_is_bool) G(cbor_is_null) G(cbor_is_undef) G(cbor_refcount)
  G(cbor_int_get_width) G(cbor_get_uint8) G(cbor_get_uint16) G(cbor_get_uint32) G(cbor_get_uint64) G(cbor_get_int)
  S(cbor_set_uint8, uint8_t) S(cbor_set_uint16, uint16_t) S(cbor_set_uint32, uint32_t) S(cbor_set_uint64, uint64_t)
  M(cbor_mark_uint) M(cbor_mark_negint)
  G(cbor_float_get_width) G(cbor_float_ctrl_is_ctrl) G(cbor_ctrl_value) G(cbor_get_bool) S(cbor_set_ctrl, uint8_t)
  if (!strcmp(fn, "cbor_set_bool")) { cbor_set_bool(it, v != 0); return 2; }
  G(cbor_array_size) G(cbor_array_allocated) G(cbor_array_is_definite) G(cbor_array_is_indefinite)
  G(cbor_map_size) G(cbor_map_allocated) G(cbor_map_is_definite) G(cbor_map_is_indefinite)
  G(cbor_string_length) G(cbor_string_codepoint_count) G(cbor_string_is_definite) G(cbor_string_is_indefinite)
  G(cbor_bytestring_length) G(cbor_bytestring_is_definite) G(cbor_bytestring_is_indefinite) G(cbor_tag_value)
#undef G
#undef S
#undef M
  return 0;
}

/* in the probing child a sanitizer finding only has to be noticed, not reported (symbolising the report costs ~100 ms):
   ASan calls this hook as soon as it detects an error, before it prints anything */
static volatile int acc_in_child = 0;
void __asan_on_error(void) { if (acc_in_child) _exit(5); }

static int op_acc(char** w, int argc) {
  const char* fn = w[1];
  unsigned type = (unsigned)strtoul(w[2], 0, 10);
  uint64_t a = strtoull(w[3], 0, 10), b = strtoull(w[4], 0, 10), c = strtoull(w[5], 0, 10), rc = strtoull(w[6], 0, 10);
  uint64_t v = strtoull(w[8], 0, 10), ret = 0;
  size_t n = !strcmp(w[7], "-") ? 0 : strlen(w[7]) / 2;
  unsigned char* d = malloc(n ? n : 1);
  hex_decode(w[7], d, n);
  cbor_item_t* it = acc_item(type, a, b, c, rc, d, n);
  /* 10th word: the bytes of the buffer handed to cbor_string_set_handle / cbor_bytestring_set_handle; exactly that many bytes are
     requested from the installed allocator (as the library's own callers do), so ASan sees any read beyond them */
  extern _cbor_malloc_t _cbor_malloc; extern _cbor_free_t _cbor_free;
  unsigned char *hblock = NULL, *hb = NULL; size_t hn = 0;
  if (argc == 10) {
    hn = !strcmp(w[9], "-") ? 0 : strlen(w[9]) / 2;
    h_alloc_forbid(0);                       /* the buffer is the caller's; the setter itself must still not allocate */
    hblock = _cbor_malloc(hn ? hn : 1);
    h_alloc_forbid(1);
    if (!hblock) { printf("alloc-failed\n"); free(it); free(d); return 1; }
    hb = hn ? hblock : hblock + 1;           /* no bytes: the one-past pointer, any read is an overflow */
    hex_decode(w[9], hb, hn);
  }
  int handled = 1, status = 0;
  fflush(stdout);
  pid_t pid = fork();
  if (pid == 0) {                     /* child: the same call, its death is the observation */
    struct rlimit nocore = {0, 0}; setrlimit(RLIMIT_CORE, &nocore);
    int fd = open("/dev/null", O_WRONLY); if (fd >= 0) dup2(fd, 2);
    acc_in_child = 1;
    _exit(acc_call(fn, it, v, &ret, hb) == 0 ? 3 : 0);
  }
  if (pid < 0 || waitpid(pid, &status, 0) < 0) printf("fork-failed\n");
  else if (WIFEXITED(status) && WEXITSTATUS(status) == 3) handled = 0;          /* unknown function: bad-op */
  else if (!(WIFEXITED(status) && WEXITSTATUS(status) == 0)) printf("ok=0\n");
  else {
    int k = acc_call(fn, it, v, &ret, hb);
    if (k == 1) printf("%" PRIu64, ret); else printf("-");
    acc_print_item(it, it->data == hb && hb ? hn : n);      /* after a handle setter: the bytes item->data now points to */
    printf(" ok=1\n");
  }
  if (hblock) _cbor_free(hblock);
  free(it); free(d);
  return handled;
}

/* ---- ACC, leaf serializers:  ACC <fn> <kind> <value> <n>   (5 words) ------------------------------------------------
   A REAL item is built through the library's constructors / setters (kind: u8 u16 u32 u64 = unsigned integer of that width, n8 n16 n32 n64 =
   negative integer, <value> decimal; ctrl = simple value 0..255; f2 f4 = half / single holding the binary32 pattern <value>, f8 = double
   holding the binary64 pattern; bs / ts = definite byte / text string, <value> = hex bytes or `-`).  The REAL type-specific serializer <fn>
   is called on an exactly-sized heap block of <n> bytes prefilled with 0xAA (n = 0: the one-past pointer), so ASan sees every overflow.
   Output: <return value> <the n bytes afterwards> ok=1;   fn = cbor_serialized_size: <return value> - ok=1  (n ignored).
   No fork: every line is well-typed (the constructors establish the assertions), so a death of the process is a finding. */
static int op_accser(char** w) {
  const char *fn = w[1], *kind = w[2];
  size_t n = strtoull(w[4], 0, 10);
  uint64_t v = strtoull(w[3], 0, 10);
  cbor_item_t* it = NULL;
  h_alloc_forbid(0);                          /* building the item allocates; the serializer itself must not */
  if (!strcmp(kind, "u8")) it = cbor_build_uint8((uint8_t)v);
  else if (!strcmp(kind, "u16")) it = cbor_build_uint16((uint16_t)v);
  else if (!strcmp(kind, "u32")) it = cbor_build_uint32((uint32_t)v);
  else if (!strcmp(kind, "u64")) it = cbor_build_uint64(v);
  else if (!strcmp(kind, "n8")) it = cbor_build_negint8((uint8_t)v);
  else if (!strcmp(kind, "n16")) it = cbor_build_negint16((uint16_t)v);
  else if (!strcmp(kind, "n32")) it = cbor_build_negint32((uint32_t)v);
  else if (!strcmp(kind, "n64")) it = cbor_build_negint64(v);
  else if (!strcmp(kind, "ctrl")) { it = cbor_new_ctrl(); if (it) cbor_set_ctrl(it, (uint8_t)v); }
  else if (!strcmp(kind, "f2")) { uint32_t u = (uint32_t)v; float f; memcpy(&f, &u, 4); it = cbor_new_float2(); if (it) cbor_set_float2(it, f); }
  else if (!strcmp(kind, "f4")) { uint32_t u = (uint32_t)v; float f; memcpy(&f, &u, 4); it = cbor_new_float4(); if (it) cbor_set_float4(it, f); }
  else if (!strcmp(kind, "f8")) { double d; memcpy(&d, &v, 8); it = cbor_new_float8(); if (it) cbor_set_float8(it, d); }
  else if (!strcmp(kind, "bs") || !strcmp(kind, "ts")) {
    struct xbuf xb = hex_to_exact(w[3]);
    it = kind[0] == 'b' ? cbor_build_bytestring(xb.p, xb.n) : cbor_build_stringn((const char*)xb.p, xb.n);
    free_exact(xb);
  } else { h_alloc_forbid(1); return 0; }
  h_alloc_forbid(1);
  if (!it) { printf("alloc-failed\n"); return 1; }
  size_t (*f)(const cbor_item_t*, unsigned char*, size_t) = NULL;
  int handled = 1;
  if (!strcmp(fn, "cbor_serialized_size")) printf("%zu - ok=1\n", cbor_serialized_size(it));
  else {
    if (!strcmp(fn, "cbor_serialize_uint")) f = cbor_serialize_uint;
    else if (!strcmp(fn, "cbor_serialize_negint")) f = cbor_serialize_negint;
    else if (!strcmp(fn, "cbor_serialize_float_ctrl")) f = cbor_serialize_float_ctrl;
    else if (!strcmp(fn, "cbor_serialize_bytestring")) f = cbor_serialize_bytestring;
    else if (!strcmp(fn, "cbor_serialize_string")) f = cbor_serialize_string;
    if (!f) handled = 0;
    else {
      unsigned char* base = malloc(n ? n : 1);
      unsigned char* p = n ? base : base + 1;
      memset(p, 0xAA, n);
      size_t r = f(it, p, n);
      printf("%zu ", r); print_hex(p, n); printf(" ok=1\n");
      free(base);
    }
  }
  h_alloc_forbid(0); cbor_decref(&it); h_alloc_forbid(1);
  return handled;
}

int gen_op(int argc, char** w) {
  if (argc == 5 && !strcmp(w[0], "ACC")) return op_accser(w);
  if ((argc == 9 || argc == 10) && !strcmp(w[0], "ACC")) return op_acc(w, argc);
  if (argc == 2 && !strcmp(w[0], "F32ALL")) { op_f32all((unsigned)strtoul(w[1], 0, 10)); return 1; }
  if (argc == 3 && !strcmp(w[0], "UTF8ALL")) { op_utf8all(strtoull(w[1], 0, 10), w[2]); return 1; }
  if (argc == 2 && !strcmp(w[0], "SD")) { op_sd(w[1]); return 1; }
  if (argc == 2 && !strcmp(w[0], "SDE")) { op_sde(w[1]); return 1; }
  if (argc == 4 && !strcmp(w[0], "FRAG")) { op_frag(w[1], strtoull(w[2], 0, 10), w[3]); return 1; }
  if (argc == 4 && !strcmp(w[0], "FRAGW")) { op_fragw(w[1], strtoull(w[2], 0, 10), w[3]); return 1; }
  if (argc == 4 && !strcmp(w[0], "ENC")) return op_enc(w[1], strtoull(w[2], 0, 10), strtoull(w[3], 0, 10));
  if (argc == 2 && !strcmp(w[0], "UTF8")) { op_utf8(w[1]); return 1; }
  if (argc == 3 && !strcmp(w[0], "MUL")) { printf("%d ok=1\n", _cbor_safe_to_multiply(strtoull(w[1], 0, 10), strtoull(w[2], 0, 10))); return 1; }
  if (argc == 3 && !strcmp(w[0], "ADD")) { printf("%d ok=1\n", _cbor_safe_to_add(strtoull(w[1], 0, 10), strtoull(w[2], 0, 10))); return 1; }
  if (argc == 3 && !strcmp(w[0], "SADD")) { printf("%zu ok=1\n", _cbor_safe_signaling_add(strtoull(w[1], 0, 10), strtoull(w[2], 0, 10))); return 1; }
  if (argc == 2 && !strcmp(w[0], "HBIT")) { printf("%zu ok=1\n", _cbor_highest_bit(strtoull(w[1], 0, 10))); return 1; }
  if (argc == 2 && !strcmp(w[0], "HDR")) { printf("%zu ok=1\n", _cbor_encoded_header_size(strtoull(w[1], 0, 10))); return 1; }
  if (argc == 2 && !strcmp(w[0], "HALFD")) {
    unsigned h = (unsigned)strtoul(w[1], 0, 10);
    unsigned char hb[2] = {(unsigned char)(h >> 8), (unsigned char)h};
    printf("%u\n", f2u(_cbor_decode_half(hb)));
    return 1;
  }
  return 0;
}

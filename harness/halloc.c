/* Instrumenting allocator installed through cbor_set_allocs:
 *  - every block carries a hidden 16-byte header {magic, size}; a pointer that did not come from here
 *    (or was already freed) is detected at free/realloc -> abort with a message;
 *  - counts requests, grants, frees, live blocks/bytes;
 *  - deterministic fault schedule (k-th alone / k-th and all later / explicit bit string) and size cap. */
#include "hcommon.h"

#define MAGIC_LIVE 0x4C49564542304B21ULL
#define MAGIC_DEAD 0x4445414442304B21ULL
struct hdr { uint64_t magic; uint64_t size; };

static long n_req, n_malloc, n_realloc, n_free, n_live, n_live_bytes, n_refused;
static int sched_mode; static long sched_k; static char sched_bits[4096];
static size_t cap_bytes; static size_t last_req_size;

/* ---- backing store: libc by default; HALLOC=arena: two bump arenas with no libc backing at all (a stray libc free/realloc of an
   arena pointer is fatal in glibc), the first of which can be write-protected while read-only operations run (C18);
   HALLOC=none: any request is fatal (the "allocates nothing" clause of C13) ---- */
#include <sys/mman.h>
#define ARENA_SIZE (1UL << 30)
static unsigned char *arenaA, *arenaB; static size_t usedA, usedB; static int arena_mode, none_mode, protected_;
static void die(const char* what, const void* p);
static void* raw_alloc(size_t n) {
  if (none_mode) die("allocation requested while none may be", 0);
  if (!arena_mode) return malloc(n);
  n = (n + 15) & ~(size_t)15;
  unsigned char* p;
  if (protected_) { p = arenaB + usedB; usedB += n; if (usedB > ARENA_SIZE) die("arena B exhausted", 0); }
  else { p = arenaA + usedA; usedA += n; if (usedA > ARENA_SIZE) die("arena A exhausted", 0); }
  return p;
}
static void raw_free(void* p) { if (!arena_mode) free(p); }
void h_arena_protect(int on) {
  if (!arena_mode) return;
  size_t len = (usedA + 4095) & ~(size_t)4095;
  if (len && mprotect(arenaA, len, on ? PROT_READ : PROT_READ | PROT_WRITE) != 0) die("mprotect failed", arenaA);
  protected_ = on;
}
int h_arena_mode(void) { return arena_mode; }

static int refuse_now(size_t size) {
  long idx = n_req++;
  last_req_size = size;
  int refuse = 0;
  if (cap_bytes && size > cap_bytes) refuse = 1;
  if (sched_mode == 1 && idx == sched_k) refuse = 1;
  if (sched_mode == 2 && idx >= sched_k) refuse = 1;
  if (sched_mode == 3) {
    size_t l = strlen(sched_bits);
    if ((size_t)idx < l && sched_bits[idx] == '0') refuse = 1;
  }
  if (size > ((size_t)1 << 40)) refuse = 1;   /* no allocator can serve this (and size + header would wrap): refused, like a real malloc */
  if (refuse) n_refused++;
  return refuse;
}
static void die(const char* what, const void* p) {
  printf("\nHARNESS-ABORT allocator: %s %p\n", what, p); fflush(stdout); abort();
}
static void* h_malloc(size_t size) {
  n_malloc++;
  if (refuse_now(size)) return NULL;
  struct hdr* h = raw_alloc(sizeof(struct hdr) + size);
  if (!h) die("libc malloc failed", 0);
  h->magic = MAGIC_LIVE; h->size = size;
  n_live++; n_live_bytes += (long)size;
  memset(h + 1, 0xA5, size);     /* fresh memory is not zero: a field the library forgets to initialise reads as garbage, deterministically */
  return h + 1;
}
static void h_free(void* p) {
  n_free++;
  if (p == NULL) return;
  struct hdr* h = (struct hdr*)p - 1;
  if (h->magic != MAGIC_LIVE) die(h->magic == MAGIC_DEAD ? "double free" : "free of foreign pointer", p);
  h->magic = MAGIC_DEAD;
  n_live--; n_live_bytes -= (long)h->size;
  raw_free(h);
}
static void* h_realloc(void* p, size_t size) {
  n_realloc++;
  if (p != NULL) {
    struct hdr* h = (struct hdr*)p - 1;
    if (h->magic != MAGIC_LIVE) die("realloc of foreign/dead pointer", p);
  }
  if (refuse_now(size)) return NULL;
  if (p == NULL) {
    struct hdr* h = raw_alloc(sizeof(struct hdr) + size);
    if (!h) die("libc malloc failed", 0);
    h->magic = MAGIC_LIVE; h->size = size; n_live++; n_live_bytes += (long)size;
    memset(h + 1, 0xA5, size);
    return h + 1;
  }
  struct hdr* h = (struct hdr*)p - 1;
  /* always move, so stale pointers into the old block are caught by ASan */
  struct hdr* nh = raw_alloc(sizeof(struct hdr) + size);
  if (!nh) die("libc malloc failed", 0);
  nh->magic = MAGIC_LIVE; nh->size = size;
  memset(nh + 1, 0xA5, size);
  memcpy(nh + 1, h + 1, h->size < size ? h->size : size);
  n_live_bytes += (long)size - (long)h->size;
  h->magic = MAGIC_DEAD; raw_free(h);
  return nh + 1;
}
/* decoys: an allocator triple that was installed earlier and has since been replaced must never be called again */
static void h_decoy_free(void* p) { if (p) die("block handed to a free function that is no longer the installed one", p); }
static void* h_decoy_malloc(size_t n) { (void)n; die("request sent to a malloc that is no longer the installed one", 0); return NULL; }
static void* h_decoy_realloc(void* p, size_t n) { (void)n; die("request sent to a realloc that is no longer the installed one", p); return NULL; }
void h_alloc_install(void) {
  const char* m = getenv("HALLOC");
  if (m && !strncmp(m, "swap", 4)) {
    /* HALLOC=swap1..swap4: before any item exists another triple is installed first that shares some hooks with the final one;
       the final triple must be the one in force, whatever it has in common with its predecessor */
    switch (m[4]) {
      case '1': cbor_set_allocs(h_malloc, h_realloc, h_decoy_free); break;
      case '2': cbor_set_allocs(h_decoy_malloc, h_realloc, h_free); break;
      case '3': cbor_set_allocs(h_malloc, h_decoy_realloc, h_free); break;
      default: cbor_set_allocs(h_decoy_malloc, h_decoy_realloc, h_decoy_free); break;
    }
  }
  if (m && !strcmp(m, "arena")) {
    arena_mode = 1;
    arenaA = mmap(NULL, ARENA_SIZE, PROT_READ | PROT_WRITE, MAP_PRIVATE | MAP_ANONYMOUS | MAP_NORESERVE, -1, 0);
    arenaB = mmap(NULL, ARENA_SIZE, PROT_READ | PROT_WRITE, MAP_PRIVATE | MAP_ANONYMOUS | MAP_NORESERVE, -1, 0);
    if (arenaA == MAP_FAILED || arenaB == MAP_FAILED) die("mmap failed", 0);
  }
  cbor_set_allocs(h_malloc, h_realloc, h_free);
}
void h_alloc_forbid(int on) { none_mode = on; }
long h_alloc_requests(void) { return n_req; }
long h_alloc_live(void) { return n_live; }
long h_alloc_live_bytes(void) { return n_live_bytes; }
long h_alloc_frees(void) { return n_free; }
long h_alloc_mallocs(void) { return n_malloc; }
long h_alloc_reallocs(void) { return n_realloc; }
long h_alloc_refused(void) { return n_refused; }
size_t h_alloc_last_request_size(void) { return last_req_size; }
void h_alloc_reset_counters(void) { n_req = n_malloc = n_realloc = n_free = n_refused = 0; }
void h_alloc_schedule(int mode, long k, const char* bits) {
  sched_mode = mode; sched_k = k;
  sched_bits[0] = 0;
  if (bits) { strncpy(sched_bits, bits, sizeof sched_bits - 1); sched_bits[sizeof sched_bits - 1] = 0; }
}
void h_alloc_set_cap(size_t cap) { cap_bytes = cap; }
bool h_alloc_is_live(const void* p) { return p && ((const struct hdr*)p - 1)->magic == MAGIC_LIVE; }

#include "hcommon.h"
static int hv(char c) { return c <= '9' ? c - '0' : (c | 32) - 'a' + 10; }
size_t hex_decode(const char* hex, unsigned char* out, size_t cap) {
  if (!strcmp(hex, "-")) return 0;
  size_t n = strlen(hex) / 2;
  for (size_t i = 0; i < n && i < cap; i++) out[i] = (unsigned char)(hv(hex[2 * i]) * 16 + hv(hex[2 * i + 1]));
  return n;
}
struct xbuf exact_copy(const unsigned char* src, size_t n) {
  struct xbuf b; b.n = n;
  b.base = malloc(n ? n : 1);
  b.p = n ? b.base : b.base + 1;
  if (n) memcpy(b.p, src, n);
  return b;
}
struct xbuf hex_to_exact(const char* hex) {
  size_t len = !strcmp(hex, "-") ? 0 : strlen(hex) / 2;
  struct xbuf b; b.n = len;
  b.base = malloc(len ? len : 1);
  b.p = len ? b.base : b.base + 1;
  hex_decode(hex, b.p, len);
  return b;
}
void free_exact(struct xbuf b) { free(b.base); }
void print_hex(const unsigned char* p, size_t n) {
  if (n == 0) { putchar('-'); return; }
  for (size_t i = 0; i < n; i++) printf("%02x", p[i]);
}

#include "hcommon.h"
int tree_op(int argc, char** w) { (void)argc; (void)w; return 0; }

/* Correspondence harness, part 2: operations over item trees (decoder, serializer, copy).
 * Canonical tree text (one token, no spaces):
 *   u8(V) u16(V) u32(V) u64(V)  n8(V) ...            integers at their stored width (V = raw argument)
 *   b(HEX) / B[b(HEX),...]      t(HEX) / T[t(HEX),...]  definite / indefinite (chunked) strings; HEX "-" = empty
 *   A[x,...] / a[x,...]         M[k:v,...] / m[k:v,...]  definite / indefinite arrays and maps
 *   G(N,x)                      tag
 *   h(BITS32) s(BITS32) d(BITS64)                      floats: bit pattern of the stored C float/double (decimal)
 *   c(V)                                               simple value / ctrl (20 false 21 true 22 null 23 undef)
 */
#include "hcommon.h"
#include "cbor/internal/memory_utils.h"

/* ---------------------------------------------------------------- printing */
struct sb { char* p; size_t len, cap; };
static void sb_need(struct sb* s, size_t n) {
  if (s->cap - s->len < n + 1) { s->cap = (s->cap + n) * 2 + 64; s->p = realloc(s->p, s->cap); }
}
static void sb_printf(struct sb* s, const char* fmt, ...) {
  va_list ap; sb_need(s, 64);
  va_start(ap, fmt); s->len += vsnprintf(s->p + s->len, s->cap - s->len, fmt, ap); va_end(ap);
}
static void sb_hex(struct sb* s, const unsigned char* d, size_t n) {
  sb_need(s, 2 * n + 2);
  if (n == 0) { s->p[s->len++] = '-'; s->p[s->len] = 0; return; }
  for (size_t i = 0; i < n; i++) s->len += sprintf(s->p + s->len, "%02x", d[i]);
}
static uint32_t fbits(float f) { uint32_t u; memcpy(&u, &f, 4); return u; }
static uint64_t dbits(double f) { uint64_t u; memcpy(&u, &f, 8); return u; }

/* prints without touching any reference count; checks refcount==1 on every node into *all_rc1 */
static void print_item(struct sb* s, const cbor_item_t* it, int* all_rc1, int depth) {
  static const int W[4] = {8, 16, 32, 64};
  if (it == NULL) { sb_printf(s, "NULL"); return; }
  if (it->refcount != 1 && all_rc1) *all_rc1 = 0;
  switch (it->type) {
    case CBOR_TYPE_UINT: case CBOR_TYPE_NEGINT: {
      uint64_t v = 0;
      switch (it->metadata.int_metadata.width) {
        case CBOR_INT_8: v = *it->data; break;
        case CBOR_INT_16: v = *(uint16_t*)it->data; break;
        case CBOR_INT_32: v = *(uint32_t*)it->data; break;
        case CBOR_INT_64: v = *(uint64_t*)it->data; break;
      }
      sb_printf(s, "%c%d(%" PRIu64 ")", it->type == CBOR_TYPE_UINT ? 'u' : 'n', W[it->metadata.int_metadata.width], v);
      break;
    }
    case CBOR_TYPE_BYTESTRING: case CBOR_TYPE_STRING: {
      char lo = it->type == CBOR_TYPE_BYTESTRING ? 'b' : 't', up = it->type == CBOR_TYPE_BYTESTRING ? 'B' : 'T';
      /* bytestring_metadata and string_metadata start with {length, [codepoint_count,] type}: read through the API-neutral way */
      int definite = it->type == CBOR_TYPE_BYTESTRING ? it->metadata.bytestring_metadata.type == _CBOR_METADATA_DEFINITE
                                                     : it->metadata.string_metadata.type == _CBOR_METADATA_DEFINITE;
      if (definite) {
        size_t n = it->type == CBOR_TYPE_BYTESTRING ? it->metadata.bytestring_metadata.length : it->metadata.string_metadata.length;
        sb_printf(s, "%c(", lo); sb_hex(s, it->data, n); sb_printf(s, ")");
      } else {
        struct cbor_indefinite_string_data* d = (struct cbor_indefinite_string_data*)it->data;
        sb_printf(s, "%c[", up);
        for (size_t i = 0; i < d->chunk_count; i++) { if (i) sb_printf(s, ","); print_item(s, d->chunks[i], all_rc1, depth + 1); }
        sb_printf(s, "]");
      }
      break;
    }
    case CBOR_TYPE_ARRAY: {
      int definite = it->metadata.array_metadata.type == _CBOR_METADATA_DEFINITE;
      sb_printf(s, definite ? "A[" : "a[");
      for (size_t i = 0; i < it->metadata.array_metadata.end_ptr; i++) {
        if (i) sb_printf(s, ",");
        print_item(s, ((cbor_item_t**)it->data)[i], all_rc1, depth + 1);
      }
      sb_printf(s, "]");
      break;
    }
    case CBOR_TYPE_MAP: {
      int definite = it->metadata.map_metadata.type == _CBOR_METADATA_DEFINITE;
      sb_printf(s, definite ? "M[" : "m[");
      struct cbor_pair* p = (struct cbor_pair*)it->data;
      for (size_t i = 0; i < it->metadata.map_metadata.end_ptr; i++) {
        if (i) sb_printf(s, ",");
        print_item(s, p[i].key, all_rc1, depth + 1); sb_printf(s, ":"); print_item(s, p[i].value, all_rc1, depth + 1);
      }
      sb_printf(s, "]");
      break;
    }
    case CBOR_TYPE_TAG:
      sb_printf(s, "G(%" PRIu64 ",", it->metadata.tag_metadata.value);
      print_item(s, it->metadata.tag_metadata.tagged_item, all_rc1, depth + 1);
      sb_printf(s, ")");
      break;
    case CBOR_TYPE_FLOAT_CTRL:
      switch (it->metadata.float_ctrl_metadata.width) {
        case CBOR_FLOAT_0: sb_printf(s, "c(%u)", it->metadata.float_ctrl_metadata.ctrl); break;
        case CBOR_FLOAT_16: sb_printf(s, "h(%u)", fbits(*(float*)it->data)); break;
        case CBOR_FLOAT_32: sb_printf(s, "s(%u)", fbits(*(float*)it->data)); break;
        case CBOR_FLOAT_64: sb_printf(s, "d(%" PRIu64 ")", dbits(*(double*)it->data)); break;
      }
      break;
  }
}

/* filled: every definite container has size == allocated (C02) */
void hist_print_item(const cbor_item_t* it, char** out) { struct sb s = {0}; print_item(&s, it, NULL, 0); *out = s.p; }
static int all_filled(const cbor_item_t* it) {
  if (!it) return 1;
  switch (it->type) {
    case CBOR_TYPE_ARRAY: {
      if (it->metadata.array_metadata.type == _CBOR_METADATA_DEFINITE &&
          it->metadata.array_metadata.end_ptr != it->metadata.array_metadata.allocated) return 0;
      for (size_t i = 0; i < it->metadata.array_metadata.end_ptr; i++) if (!all_filled(((cbor_item_t**)it->data)[i])) return 0;
      return 1;
    }
    case CBOR_TYPE_MAP: {
      if (it->metadata.map_metadata.type == _CBOR_METADATA_DEFINITE &&
          it->metadata.map_metadata.end_ptr != it->metadata.map_metadata.allocated) return 0;
      struct cbor_pair* p = (struct cbor_pair*)it->data;
      for (size_t i = 0; i < it->metadata.map_metadata.end_ptr; i++) if (!all_filled(p[i].key) || !all_filled(p[i].value)) return 0;
      return 1;
    }
    case CBOR_TYPE_TAG: return all_filled(it->metadata.tag_metadata.tagged_item);
    default: return 1;
  }
}

/* the copy must agree with the original in every observable that the tree text does not show: code point counts of text strings */
int meta_eq(const cbor_item_t* a, const cbor_item_t* b, int depth) {
  if (!a || !b) return a == b;
  if (depth > 4000 || a->type != b->type) return a->type == b->type;
  switch (a->type) {
    case CBOR_TYPE_STRING:
      if (cbor_string_is_definite(a)) return cbor_string_is_definite(b) && cbor_string_codepoint_count(a) == cbor_string_codepoint_count(b) && cbor_string_length(a) == cbor_string_length(b);
      if (cbor_string_is_definite(b) || cbor_string_chunk_count(a) != cbor_string_chunk_count(b)) return 0;
      for (size_t i = 0; i < cbor_string_chunk_count(a); i++) if (!meta_eq(cbor_string_chunks_handle(a)[i], cbor_string_chunks_handle(b)[i], depth + 1)) return 0;
      return 1;
    case CBOR_TYPE_ARRAY:
      if (cbor_array_size(a) != cbor_array_size(b)) return 0;
      for (size_t i = 0; i < cbor_array_size(a); i++) if (!meta_eq(cbor_array_handle(a)[i], cbor_array_handle(b)[i], depth + 1)) return 0;
      return 1;
    case CBOR_TYPE_MAP:
      if (cbor_map_size(a) != cbor_map_size(b)) return 0;
      for (size_t i = 0; i < cbor_map_size(a); i++)
        if (!meta_eq(cbor_map_handle(a)[i].key, cbor_map_handle(b)[i].key, depth + 1) || !meta_eq(cbor_map_handle(a)[i].value, cbor_map_handle(b)[i].value, depth + 1)) return 0;
      return 1;
    case CBOR_TYPE_TAG: return meta_eq(a->metadata.tag_metadata.tagged_item, b->metadata.tag_metadata.tagged_item, depth + 1);
    default: return 1;
  }
}

/* ---------------------------------------------------------------- parsing tree text -> items via the construction API */
static const char* P; /* cursor */
static int perr;
static uint64_t p_num(void) { char* e; uint64_t v = strtoull(P, &e, 10); if (e == P) perr = 1; P = e; return v; }
static int p_eat(char c) { if (*P == c) { P++; return 1; } perr = 1; return 0; }
static size_t p_hex(unsigned char** out) {
  size_t n = 0; const char* q = P;
  if (*P == '-') { P++; *out = malloc(1); return 0; }
  while ((*q >= '0' && *q <= '9') || (*q >= 'a' && *q <= 'f')) q++;
  n = (size_t)(q - P) / 2; *out = malloc(n ? n : 1);
  for (size_t i = 0; i < n; i++) { unsigned v; sscanf(P + 2 * i, "%2x", &v); (*out)[i] = (unsigned char)v; }
  P = q; return n;
}
static cbor_item_t* p_item(void);
static cbor_item_t* p_string(int text) {
  unsigned char* d; p_eat('('); size_t n = p_hex(&d);
  if (*P == '>' && P[1] == '>') {
    /* x(hex1>>hex2): set_handle(block1, len1), then the client takes the handle back, attaches ANOTHER block with the second content and releases
       the first block itself (the item never frees a handle it no longer holds); denotes the string hex2 */
    P += 2;
    unsigned char* d2; size_t n2 = p_hex(&d2); p_eat(')');
    extern _cbor_malloc_t _cbor_malloc; extern _cbor_free_t _cbor_free;
    unsigned char* blk1 = _cbor_malloc(n ? n : 1); unsigned char* blk2 = _cbor_malloc(n2 ? n2 : 1);
    cbor_item_t* r = text ? cbor_new_definite_string() : cbor_new_definite_bytestring();
    if (!r || !blk1 || !blk2) { perr = 2; free(d); free(d2); return r; }
    if (n) memcpy(blk1, d, n);
    if (n2) memcpy(blk2, d2, n2);
    if (text) cbor_string_set_handle(r, blk1, n); else cbor_bytestring_set_handle(r, blk1, n);
    unsigned char* oldh = text ? cbor_string_handle(r) : cbor_bytestring_handle(r);
    if (text) cbor_string_set_handle(r, blk2, n2); else cbor_bytestring_set_handle(r, blk2, n2);
    _cbor_free(oldh);
    free(d); free(d2); return r;
  }
  if (*P == '>') {
    /* x(hex1>hex2): a string built with new_definite_* + set_handle(block, len1), whose handle is then set AGAIN to the same block with other
       content and length (modified in place); denotes the string hex2 */
    P++;
    unsigned char* d2; size_t n2 = p_hex(&d2); p_eat(')');
    extern _cbor_malloc_t _cbor_malloc;
    size_t cap = (n > n2 ? n : n2); unsigned char* blk = _cbor_malloc(cap ? cap : 1);
    cbor_item_t* r = text ? cbor_new_definite_string() : cbor_new_definite_bytestring();
    if (!r || !blk) { perr = 2; free(d); free(d2); return r; }
    if (n) memcpy(blk, d, n);
    if (text) cbor_string_set_handle(r, blk, n); else cbor_bytestring_set_handle(r, blk, n);
    if (n2) memcpy(blk, d2, n2);
    if (text) cbor_string_set_handle(r, blk, n2); else cbor_bytestring_set_handle(r, blk, n2);
    free(d); free(d2); return r;
  }
  p_eat(')');
  cbor_item_t* r = text ? cbor_build_stringn((const char*)d, n) : cbor_build_bytestring(d, n);
  free(d); return r;
}
static cbor_item_t* p_item(void) {
  char c = *P++;
  cbor_item_t* r = NULL;
  if (perr) return NULL;
  switch (c) {
    case 'u': case 'n': {
      int w = (int)p_num(); int raw = 0; if (*P == '!') { P++; raw = 1; }   /* 'u16!(5)': cbor_new_int16 + mark + set instead of cbor_build_uint16 */
      p_eat('('); uint64_t v = p_num(); p_eat(')');
      if (raw) {
        switch (w) {
          case 8: r = cbor_new_int8(); if (r) { if (c == 'n') cbor_mark_negint(r); else cbor_mark_uint(r); cbor_set_uint8(r, (uint8_t)v); } break;
          case 16: r = cbor_new_int16(); if (r) { if (c == 'n') cbor_mark_negint(r); else cbor_mark_uint(r); cbor_set_uint16(r, (uint16_t)v); } break;
          case 32: r = cbor_new_int32(); if (r) { if (c == 'n') cbor_mark_negint(r); else cbor_mark_uint(r); cbor_set_uint32(r, (uint32_t)v); } break;
          case 64: r = cbor_new_int64(); if (r) { if (c == 'n') cbor_mark_negint(r); else cbor_mark_uint(r); cbor_set_uint64(r, v); } break;
          default: perr = 1;
        }
        return r;
      }
      switch (w) {
        case 8: r = cbor_build_uint8((uint8_t)v); break; case 16: r = cbor_build_uint16((uint16_t)v); break;
        case 32: r = cbor_build_uint32((uint32_t)v); break; case 64: r = cbor_build_uint64(v); break;
        default: perr = 1;
      }
      if (r && c == 'n') cbor_mark_negint(r);
      return r;
    }
    case 'f': case 'g': {   /* f(LEN) / g(LEN): a definite byte / text string whose *recorded* length is LEN (1-byte block); only for size computations */
      p_eat('('); uint64_t len = p_num(); p_eat(')');
      extern _cbor_malloc_t _cbor_malloc;
      r = c == 'f' ? cbor_new_definite_bytestring() : cbor_new_definite_string();
      if (c == 'f') cbor_bytestring_set_handle(r, _cbor_malloc(1), (size_t)len);
      else { r->data = _cbor_malloc(1); r->metadata.string_metadata.length = (size_t)len; r->metadata.string_metadata.codepoint_count = 0; }  /* set_handle would scan LEN bytes */
      return r;
    }
    case 'b': return p_string(0);
    case 't': return p_string(1);
    case 'B': case 'T': {
      r = c == 'B' ? cbor_new_indefinite_bytestring() : cbor_new_indefinite_string();
      p_eat('[');
      while (*P != ']' && !perr) {
        cbor_item_t* ch;
        if (*P == 'f' || *P == 'g') ch = p_item(); else { P++; /* b or t */ ch = p_string(c == 'T'); }
        if (c == 'B') { if (!cbor_bytestring_add_chunk(r, ch)) perr = 2; } else { if (!cbor_string_add_chunk(r, ch)) perr = 2; }
        cbor_decref(&ch);
        if (*P == ',') P++;
      }
      p_eat(']'); return r;
    }
    case 'A': case 'a': {
      /* definite arrays are created with capacity = number of elements given */
      size_t spare = 0; if (*P == '+') { P++; spare = 3; }   /* 'A+[': partially filled definite array */
      const char* save = P; int depth = 0; size_t n = 0; const char* q = P + 1;
      if (*q != ']') { n = 1; for (; *q; q++) { if (*q == '[' || *q == '(') depth++; else if (*q == ')') depth--; else if (*q == ']') { if (depth == 0) break; depth--; } else if ((*q == ',' || *q == '*') && depth == 0) n++; } }
      P = save;
      r = c == 'A' ? cbor_new_definite_array(n + spare) : cbor_new_indefinite_array();
      p_eat('[');
      while (*P != ']' && !perr) {
        cbor_item_t* x = p_item();
        if (!x) { perr = 1; break; }
        if (!cbor_array_push(r, x)) perr = 2;
        if (*P == '*') { P++; if (!cbor_array_push(r, x)) perr = 2; }   /* 'x*': the same item pushed twice (shared) */
        cbor_decref(&x);
        if (*P == '>') {   /* 'old>new': the member just pushed is replaced in place (cbor_array_replace) */
          P++; cbor_item_t* y = p_item();
          if (!y) { perr = 1; break; }
          if (!cbor_array_replace(r, cbor_array_size(r) - 1, y)) perr = 2;
          cbor_decref(&y);
        }
        if (*P == ',') P++;
      }
      p_eat(']'); return r;
    }
    case 'M': case 'm': {
      size_t spare = 0; if (*P == '+') { P++; spare = 3; }
      const char* save = P; int depth = 0; size_t n = 0; const char* q = P + 1;
      if (*q != ']') { n = 1; for (; *q; q++) { if (*q == '[' || *q == '(') depth++; else if (*q == ')') depth--; else if (*q == ']') { if (depth == 0) break; depth--; } else if ((*q == ',' || *q == '*') && depth == 0) n++; } }
      P = save;
      r = c == 'M' ? cbor_new_definite_map(n + spare) : cbor_new_indefinite_map();
      p_eat('[');
      while (*P != ']' && !perr) {
        cbor_item_t* k = p_item(); p_eat(':'); cbor_item_t* v = p_item();
        if (!k || !v) { perr = 1; break; }
        if (!cbor_map_add(r, (struct cbor_pair){.key = k, .value = v})) perr = 2;
        if (*P == '*') { P++; if (!cbor_map_add(r, (struct cbor_pair){.key = k, .value = v})) perr = 2; }
        cbor_decref(&k); cbor_decref(&v);
        if (*P == ',') P++;
      }
      p_eat(']'); return r;
    }
    case 'G': {
      p_eat('('); uint64_t v = p_num(); p_eat(',');
      cbor_item_t* x = p_item(); p_eat(')');
      if (!x) { perr = 1; return NULL; }
      r = cbor_build_tag(v, x); cbor_decref(&x); return r;
    }
    case 'R': {   /* R(n,t1,t2): a tag built around t1 and then re-pointed to t2 with cbor_tag_set_item; the reference to t1 the tag held is released by the client (documented rule) */
      p_eat('('); uint64_t v = p_num(); p_eat(',');
      cbor_item_t* x = p_item(); p_eat(','); cbor_item_t* y = p_item(); p_eat(')');
      if (!x || !y) { perr = 1; return NULL; }
      r = cbor_build_tag(v, x);
      if (r) { cbor_tag_set_item(r, y); cbor_decref(&x); /* the tag's former reference */ }
      cbor_decref(&x); cbor_decref(&y); return r;
    }
    case 'h': case 's': {
      int raw = 0; if (*P == '!') { P++; raw = 1; if (*P == '!') { P++; raw = 2; } }      /* 's!(bits)': cbor_new_float4 + cbor_set_float4; 's!!(bits)': set to the value of opposite sign first, then to the value */
      p_eat('('); uint32_t b = (uint32_t)p_num(); p_eat(')');
      float f; memcpy(&f, &b, 4);
      if (raw) {
        r = c == 'h' ? cbor_new_float2() : cbor_new_float4();
        if (r && raw == 2) { uint32_t nb = b ^ 0x80000000u; float g; memcpy(&g, &nb, 4); if (c == 'h') cbor_set_float2(r, g); else cbor_set_float4(r, g); }
        if (r) { if (c == 'h') cbor_set_float2(r, f); else cbor_set_float4(r, f); }
        return r;
      }
      return c == 'h' ? cbor_build_float2(f) : cbor_build_float4(f);
    }
    case 'd': {
      int raw = 0; if (*P == '!') { P++; raw = 1; if (*P == '!') { P++; raw = 2; } }
      p_eat('('); uint64_t b = p_num(); p_eat(')'); double f; memcpy(&f, &b, 8);
      if (raw) {
        r = cbor_new_float8();
        if (r && raw == 2) { uint64_t nb = b ^ 0x8000000000000000ULL; double g; memcpy(&g, &nb, 8); cbor_set_float8(r, g); }
        if (r) cbor_set_float8(r, f);
        return r;
      }
      return cbor_build_float8(f);
    }
    case 'c': {
      int raw = 0; if (*P == '!') { P++; raw = 1; }      /* 'c!(v)': cbor_new_ctrl + cbor_set_ctrl; 22 / 23 through cbor_new_null / cbor_new_undef; 20 / 21 through cbor_build_bool */
      p_eat('('); uint64_t v = p_num(); p_eat(')');
      if (raw) {
        if (v == 22) return cbor_new_null();
        if (v == 23) return cbor_new_undef();
        if (v == 20 || v == 21) return cbor_build_bool(v == 21);
        r = cbor_new_ctrl(); if (r) cbor_set_ctrl(r, (uint8_t)v); return r;
      }
      return cbor_build_ctrl((uint8_t)v);
    }
    default: perr = 1; return NULL;
  }
}
cbor_item_t* parse_tree(const char* text) {
  P = text; perr = 0;
  cbor_item_t* r = p_item();
  if (perr || *P) { if (r) cbor_decref(&r); return NULL; }
  return r;
}

static const char* err_name(cbor_error_code c) {
  switch (c) {
    case CBOR_ERR_NONE: return "NONE"; case CBOR_ERR_NOTENOUGHDATA: return "NOTENOUGHDATA"; case CBOR_ERR_NODATA: return "NODATA";
    case CBOR_ERR_MALFORMATED: return "MALFORMATED"; case CBOR_ERR_MEMERROR: return "MEMERROR"; case CBOR_ERR_SYNTAXERROR: return "SYNTAXERROR";
  }
  return "?";
}

/* LOAD <hex> <mode> <k> [cap]
 *   OK <tree> read=R reqs=N live=B rc1=0|1 filled=0|1 size=S ser=HEX|= sern1=RET copy=ok|DIFF|null final=LIVE
 *   ERR <code> pos=P read=R reqs=N live=B          (live must be the count before the call) */
static void op_load(const char* hex, int mode, long k, size_t cap) {
  struct xbuf in = hex_to_exact(hex);
  struct cbor_load_result res; memset(&res, 0xAB, sizeof res);
  long live0 = h_alloc_live();
  h_alloc_reset_counters(); h_alloc_schedule(mode, k, NULL); h_alloc_set_cap(cap);
  cbor_item_t* item = cbor_load(in.p, in.n, &res);
  long reqs = h_alloc_requests();
  h_alloc_schedule(0, 0, NULL); h_alloc_set_cap(0);
  /* the input may be released at once (C02) */
  memset(in.base, 0xDD, in.n ? in.n : 1);
  size_t inlen = in.n;
  unsigned char* incopy = malloc(inlen ? inlen : 1); hex_decode(hex, incopy, inlen);
  free_exact(in);
  if (item == NULL) {
    printf("ERR %s pos=%zu read=%zu reqs=%ld live=%ld\n", err_name(res.error.code), res.error.position, res.read, reqs,
           h_alloc_live() - live0);
    free(incopy); return;
  }
  struct sb s = {0}; int rc1 = 1;
  print_item(&s, item, &rc1, 0);
  long live = h_alloc_live() - live0;
  printf("OK %s code=%s read=%zu reqs=%ld live=%ld rc1=%d filled=%d", s.p, err_name(res.error.code), res.read, reqs, live, rc1, all_filled(item));
  /* client operations on the decoded tree (C01): size, serialize (exact and one short), describe, copy, release */
  size_t sz = cbor_serialized_size(item);
  printf(" size=%zu", sz);
  if (sz > 0 && sz < (1u << 24)) {
    struct xbuf out = exact_copy(NULL, 0); free_exact(out);
    unsigned char* ob = malloc(sz); memset(ob, 0xEE, sz);
    size_t w = cbor_serialize(item, ob, sz);
    if (w == res.read && inlen >= w && memcmp(ob, incopy, w) == 0) printf(" ser==");
    else { printf(" ser=%zu:", w); print_hex(ob, w); }
    free(ob);
    unsigned char* ob2 = malloc(sz > 1 ? sz - 1 : 1);
    printf(" sern1=%zu", cbor_serialize(item, ob2, sz - 1));
    free(ob2);
  }
#if CBOR_PRETTY_PRINTER
  { FILE* dn = fopen("/dev/null", "w"); if (dn) { cbor_describe(item, dn); fclose(dn); } }
#endif
  cbor_item_t* cp = cbor_copy(item);
  if (!cp) printf(" copy=null");
  else {
    struct sb s2 = {0}; int rc1b = 1; print_item(&s2, cp, &rc1b, 0);
    printf(" copy=%s", (strcmp(s.p, s2.p) == 0 && rc1b && meta_eq(item, cp, 0)) ? "ok" : "DIFF");
    free(s2.p); cbor_decref(&cp);
  }
  cbor_decref(&item);
  printf(" final=%ld\n", h_alloc_live() - live0);
  free(s.p); free(incopy);
}

/* LN <hexprefix|-> <k>: every buffer prefix ++ suffix with suffix ranging over all 256^k byte strings (k <= 2), each in an exactly-sized heap
   block: load, then the client operations of C01 on a decoded tree (size, serialize exact / one short, describe, copy, release); any leak aborts.
   ->  <fnv digest of the outcome texts> ok=<n> err=<n>     outcome text: "OK <tree> <read>" | "NODATA" | "ERR <code> <pos>" */
static void op_ln(const char* hexprefix, int k) {
  unsigned char pre[64]; size_t pn = hexprefix[0] == '-' ? 0 : hex_decode(hexprefix, pre, sizeof pre - 2);
  uint64_t h = 1469598103934665603ULL; long nok = 0, nerr = 0;
  long total = k == 0 ? 1 : k == 1 ? 256 : 65536;
  FILE* dn = fopen("/dev/null", "w");
  for (long v = 0; v < total; v++) {
    size_t n = pn + (size_t)k;
    unsigned char tmp[66]; memcpy(tmp, pre, pn);
    if (k == 1) tmp[pn] = (unsigned char)v; else if (k == 2) { tmp[pn] = (unsigned char)(v >> 8); tmp[pn + 1] = (unsigned char)v; }
    struct xbuf in = exact_copy(tmp, n);
    struct cbor_load_result res; memset(&res, 0xAB, sizeof res);
    long live0 = h_alloc_live();
    cbor_item_t* item = cbor_load(in.p, in.n, &res);
    memset(in.base, 0xDD, in.n ? in.n : 1);
    free_exact(in);
    struct sb s = {0};
    if (!item) {
      if (res.error.code == CBOR_ERR_NODATA) sb_printf(&s, "NODATA"); else sb_printf(&s, "ERR %s %zu", err_name(res.error.code), res.error.position);
      nerr++;
    } else {
      sb_printf(&s, "OK "); print_item(&s, item, NULL, 0); sb_printf(&s, " %zu", res.read); nok++;
      size_t sz = cbor_serialized_size(item);
      if (sz > 0 && sz < 4096) {
        unsigned char* ob = malloc(sz); size_t w = cbor_serialize(item, ob, sz);
        if (w != sz) { printf("\nHARNESS-ABORT serialize returned %zu for size %zu\n", w, sz); fflush(stdout); abort(); }
        free(ob);
        unsigned char* ob2 = malloc(sz > 1 ? sz - 1 : 1);
        if (cbor_serialize(item, ob2, sz - 1) != 0) { printf("\nHARNESS-ABORT short serialize succeeded\n"); fflush(stdout); abort(); }
        free(ob2);
      }
#if CBOR_PRETTY_PRINTER
      if (dn) cbor_describe(item, dn);
#endif
      cbor_item_t* cp = cbor_copy(item);
      if (cp) {
        if (!meta_eq(item, cp, 0)) { printf("\nHARNESS-ABORT copy of the decoded tree differs from it (metadata) for input "); print_hex(tmp, n); printf("\n"); fflush(stdout); abort(); }
        cbor_decref(&cp);
      }
      cbor_decref(&item);
    }
    if (h_alloc_live() != live0) { printf("\nHARNESS-ABORT %ld block(s) left after input ", h_alloc_live() - live0); print_hex(tmp, n); printf("\n"); fflush(stdout); abort(); }
    for (size_t i = 0; i < s.len; i++) h = (h ^ (unsigned char)s.p[i]) * 1099511628211ULL;
    h = (h ^ 10) * 1099511628211ULL;
    free(s.p);
  }
  if (dn) fclose(dn);
  printf("%016" PRIx64 " ok=%ld err=%ld\n", h, nok, nerr);
}

/* SER <tree> <n>  ->  <ret> <buffer hex (n bytes, 0xEE prefill)> size=<cbor_serialized_size> */
static void op_ser(const char* tree, size_t n) {
  cbor_item_t* it = parse_tree(tree);
  if (!it) { printf("bad-tree\n"); return; }
  struct sb s = {0}; print_item(&s, it, NULL, 0);
  unsigned char* base = malloc(n ? n : 1); unsigned char* b = n ? base : base + 1;
  memset(base, 0xEE, n ? n : 1);
  long r0 = h_alloc_requests();
  size_t sz = cbor_serialized_size(it);
  size_t w = cbor_serialize(it, b, n);
  /* the type-specific entry point of the public API (cbor_serialize_uint ... cbor_serialize_float_ctrl) on the same item and buffer size: same return value,
     same bytes, again no allocator request */
  unsigned char* base2 = malloc(n ? n : 1); unsigned char* b2 = n ? base2 : base2 + 1; memset(base2, 0xEE, n ? n : 1);
  size_t w2 = 0;
  switch (cbor_typeof(it)) {
    case CBOR_TYPE_UINT: w2 = cbor_serialize_uint(it, b2, n); break;
    case CBOR_TYPE_NEGINT: w2 = cbor_serialize_negint(it, b2, n); break;
    case CBOR_TYPE_BYTESTRING: w2 = cbor_serialize_bytestring(it, b2, n); break;
    case CBOR_TYPE_STRING: w2 = cbor_serialize_string(it, b2, n); break;
    case CBOR_TYPE_ARRAY: w2 = cbor_serialize_array(it, b2, n); break;
    case CBOR_TYPE_MAP: w2 = cbor_serialize_map(it, b2, n); break;
    case CBOR_TYPE_TAG: w2 = cbor_serialize_tag(it, b2, n); break;
    case CBOR_TYPE_FLOAT_CTRL: w2 = cbor_serialize_float_ctrl(it, b2, n); break;
  }
  long r1 = h_alloc_requests();
  struct sb s2 = {0}; print_item(&s2, it, NULL, 0);
  printf("%zu ", w); print_hex(b, n); printf(" size=%zu noalloc=%d unchanged=%d", sz, r1 == r0, strcmp(s.p, s2.p) == 0);
  if (w2 != w || (w && memcmp(b, b2, w) != 0)) { printf(" TYPE-SPECIFIC-SERIALIZER-DIFFERS ret=%zu ", w2); print_hex(b2, n); }
  printf("\n");
  free(base2);
  free(base); free(s.p); free(s2.p);
  cbor_decref(&it);
}

/* SERA <tree> <mode> <k>  ->  <ret> <buffer_size> <hex> reqs=<n> live=<delta> */
static void op_sera(const char* tree, int mode, long k) {
  cbor_item_t* it = parse_tree(tree);
  if (!it) { printf("bad-tree\n"); return; }
  unsigned char* buf = (unsigned char*)0x1; size_t bs = 12345;
  long live0 = h_alloc_live();
  h_alloc_reset_counters(); h_alloc_schedule(mode, k, NULL);
  size_t w = cbor_serialize_alloc(it, &buf, &bs);
  long reqs = h_alloc_requests(); size_t lastsz = h_alloc_last_request_size();
  h_alloc_schedule(0, 0, NULL);
  printf("%zu %zu ", w, bs);
  if (buf) print_hex(buf, w); else printf("null");
  printf(" reqs=%ld reqsize=%zu live=%ld\n", reqs, reqs ? lastsz : 0, h_alloc_live() - live0);
  if (buf) { /* release through the installed allocator's free */ extern _cbor_free_t _cbor_free; _cbor_free(buf); }
  cbor_decref(&it);
}

/* every predicate and getter that hands out no new reference, recursively; returns a checksum so nothing is optimised away */
static uint64_t ro_walk(const cbor_item_t* it, int depth) {
  uint64_t h = 1469598103934665603ULL;
#define MIX(v) (h = (h ^ (uint64_t)(v)) * 1099511628211ULL)
  if (!it || depth > 3000) return h;
  MIX(cbor_typeof(it)); MIX(cbor_refcount(it));
  MIX(cbor_isa_uint(it)); MIX(cbor_isa_negint(it)); MIX(cbor_isa_bytestring(it)); MIX(cbor_isa_string(it)); MIX(cbor_isa_array(it));
  MIX(cbor_isa_map(it)); MIX(cbor_isa_tag(it)); MIX(cbor_isa_float_ctrl(it)); MIX(cbor_is_int(it)); MIX(cbor_is_float(it));
  MIX(cbor_is_bool(it)); MIX(cbor_is_null(it)); MIX(cbor_is_undef(it));
  switch (cbor_typeof(it)) {
    case CBOR_TYPE_UINT: case CBOR_TYPE_NEGINT:
      MIX(cbor_int_get_width(it)); MIX(cbor_get_int(it));
      switch (cbor_int_get_width(it)) {
        case CBOR_INT_8: MIX(cbor_get_uint8(it)); break; case CBOR_INT_16: MIX(cbor_get_uint16(it)); break;
        case CBOR_INT_32: MIX(cbor_get_uint32(it)); break; case CBOR_INT_64: MIX(cbor_get_uint64(it)); break;
      }
      break;
    case CBOR_TYPE_BYTESTRING:
      MIX(cbor_bytestring_is_definite(it)); MIX(cbor_bytestring_is_indefinite(it));
      if (cbor_bytestring_is_definite(it)) { MIX(cbor_bytestring_length(it)); const unsigned char* d = cbor_bytestring_handle(it); for (size_t i = 0; i < cbor_bytestring_length(it); i++) MIX(d[i]); }
      else { MIX(cbor_bytestring_length(it)); MIX((uintptr_t)cbor_bytestring_handle(it) != 0);   /* total-length / handle getters only assert the major type */
             MIX(cbor_bytestring_chunk_count(it)); cbor_item_t** c = cbor_bytestring_chunks_handle(it); for (size_t i = 0; i < cbor_bytestring_chunk_count(it); i++) MIX(ro_walk(c[i], depth + 1)); }
      break;
    case CBOR_TYPE_STRING:
      MIX(cbor_string_is_definite(it)); MIX(cbor_string_is_indefinite(it));
      if (cbor_string_is_definite(it)) { MIX(cbor_string_length(it)); MIX(cbor_string_codepoint_count(it)); const unsigned char* d = cbor_string_handle(it); for (size_t i = 0; i < cbor_string_length(it); i++) MIX(d[i]); }
      else { MIX(cbor_string_length(it)); MIX(cbor_string_codepoint_count(it)); MIX((uintptr_t)cbor_string_handle(it) != 0);
             MIX(cbor_string_codepoint_count(it));   /* twice: a getter that caches on first use writes on the first call only */
             MIX(cbor_string_chunk_count(it)); cbor_item_t** c = cbor_string_chunks_handle(it); for (size_t i = 0; i < cbor_string_chunk_count(it); i++) MIX(ro_walk(c[i], depth + 1)); }
      break;
    case CBOR_TYPE_ARRAY:
      MIX(cbor_array_size(it)); MIX(cbor_array_allocated(it)); MIX(cbor_array_is_definite(it)); MIX(cbor_array_is_indefinite(it));
      for (size_t i = 0; i < cbor_array_size(it); i++) MIX(ro_walk(cbor_array_handle(it)[i], depth + 1));
      break;
    case CBOR_TYPE_MAP:
      MIX(cbor_map_size(it)); MIX(cbor_map_allocated(it)); MIX(cbor_map_is_definite(it)); MIX(cbor_map_is_indefinite(it));
      for (size_t i = 0; i < cbor_map_size(it); i++) { MIX(ro_walk(cbor_map_handle(it)[i].key, depth + 1)); MIX(ro_walk(cbor_map_handle(it)[i].value, depth + 1)); }
      break;
    case CBOR_TYPE_TAG:
      MIX(cbor_tag_value(it)); MIX(ro_walk(it->metadata.tag_metadata.tagged_item, depth + 1));
      break;
    case CBOR_TYPE_FLOAT_CTRL:
      MIX(cbor_float_get_width(it)); MIX(cbor_float_ctrl_is_ctrl(it));
      if (cbor_float_ctrl_is_ctrl(it)) { MIX(cbor_ctrl_value(it)); if (cbor_is_bool(it)) MIX(cbor_get_bool(it)); }
      else {
        double d = cbor_float_get_float(it); uint64_t u; memcpy(&u, &d, 8); if (d == d) MIX(u);
        if (cbor_float_get_width(it) == CBOR_FLOAT_16) { float f = cbor_float_get_float2(it); if (f == f) MIX(fbits(f)); }
        if (cbor_float_get_width(it) == CBOR_FLOAT_32) { float f = cbor_float_get_float4(it); if (f == f) MIX(fbits(f)); }
        if (cbor_float_get_width(it) == CBOR_FLOAT_64) { double g = cbor_float_get_float8(it); if (g == g) MIX(dbits(g)); }
      }
      break;
  }
  return h;
#undef MIX
}

/* RO <tree>: build the tree, write-protect it (HALLOC=arena; otherwise only the before/after comparison applies), run every read-only
   operation on it, unprotect, compare  ->  <size> <hex> intact=<0|1> */
static void op_ro(const char* tree) {
  cbor_item_t* it = parse_tree(tree);
  if (!it) { printf("bad-tree\n"); return; }
  struct sb s = {0}; print_item(&s, it, NULL, 0);
  h_arena_protect(1);
  size_t sz = cbor_serialized_size(it);
  unsigned char* b = malloc(sz ? sz : 1);
  size_t w = cbor_serialize(it, b, sz);
  volatile uint64_t sink = ro_walk(it, 0); (void)sink;
  unsigned char* ab = NULL; size_t abs_ = 0;
  size_t w2 = cbor_serialize_alloc(it, &ab, &abs_);
  int same = (w2 == w) && ab && memcmp(ab, b, w) == 0;
  { extern _cbor_free_t _cbor_free; if (ab) _cbor_free(ab); }
  size_t sz2 = cbor_serialized_size(it);
  h_arena_protect(0);
  struct sb s2 = {0}; print_item(&s2, it, NULL, 0);
  printf("%zu ", sz); print_hex(b, w);
  printf(" intact=%d\n", strcmp(s.p, s2.p) == 0 && same && sz2 == sz);
  free(b); free(s.p); free(s2.p);
  cbor_decref(&it);
}

/* ROUND <tree>: serialize, reload, compare tree text, reserialize  ->  <hex> reload=<tree|ERR..> read=<n> again=<=|hex> */
static void op_round(const char* tree) {
  cbor_item_t* it = parse_tree(tree);
  if (!it) { printf("bad-tree\n"); return; }
  size_t sz = cbor_serialized_size(it);
  if (sz == 0 || sz > (1u << 24)) { printf("size=%zu\n", sz); cbor_decref(&it); return; }
  unsigned char* b = malloc(sz);
  size_t w = cbor_serialize(it, b, sz);
  print_hex(b, w);
  struct cbor_load_result res;
  cbor_item_t* back = cbor_load(b, w, &res);
  if (!back) printf(" reload=ERR:%s:%zu", err_name(res.error.code), res.error.position);
  else {
    struct sb s = {0}; print_item(&s, back, NULL, 0);
    printf(" reload=%s read=%zu", s.p, res.read);
    unsigned char* b2 = malloc(sz); size_t w2 = cbor_serialize(back, b2, sz);
    if (w2 == w && memcmp(b, b2, w) == 0) printf(" again=="); else { printf(" again="); print_hex(b2, w2); }
    free(b2); free(s.p); cbor_decref(&back);
  }
  printf("\n");
  free(b); cbor_decref(&it);
}


/* GROWAT <kind a|m|b|s> <capacity>: an indefinite array / map / byte string / text string whose size and capacity are
   set to <capacity> (as the library's own overflow tests do), then one more entry is added while the allocator refuses
   and records every request.  Prints: result, number of allocator requests, size of the last request. */
static int op_growat(const char* kind, unsigned long long cap) {
  cbor_item_t* c = NULL; cbor_item_t* x = NULL; bool r = false;
  switch (kind[0]) {
    case 'a': c = cbor_new_indefinite_array(); x = cbor_build_uint8(1); break;
    case 'm': c = cbor_new_indefinite_map(); x = cbor_build_uint8(1); break;
    case 'b': c = cbor_new_indefinite_bytestring(); x = cbor_build_bytestring((cbor_data)"ab", 2); break;
    case 's': c = cbor_new_indefinite_string(); x = cbor_build_stringn("ab", 2); break;
    default: return 0;
  }
  if (!c || !x) { printf("setup-failed\n"); return 1; }
  if (kind[0] == 'a') { c->metadata.array_metadata.allocated = cap; c->metadata.array_metadata.end_ptr = cap; }
  else if (kind[0] == 'm') { c->metadata.map_metadata.allocated = cap; c->metadata.map_metadata.end_ptr = cap; }
  else { struct cbor_indefinite_string_data* d = (struct cbor_indefinite_string_data*)c->data; d->chunk_count = cap; d->chunk_capacity = cap; }
  long before = h_alloc_requests();
  h_alloc_schedule(2, before, NULL);
  if (kind[0] == 'a') r = cbor_array_push(c, x);
  else if (kind[0] == 'm') r = cbor_map_add(c, (struct cbor_pair){.key = x, .value = x});
  else if (kind[0] == 'b') r = cbor_bytestring_add_chunk(c, x);
  else r = cbor_string_add_chunk(c, x);
  long reqs = h_alloc_requests() - before;
  size_t last = h_alloc_last_request_size();
  h_alloc_schedule(0, 0, NULL);
  size_t rc_after = cbor_refcount(x);
  /* back to an empty container so that the release is well defined */
  if (kind[0] == 'a') { c->metadata.array_metadata.allocated = 0; c->metadata.array_metadata.end_ptr = 0; }
  else if (kind[0] == 'm') { c->metadata.map_metadata.allocated = 0; c->metadata.map_metadata.end_ptr = 0; }
  else { struct cbor_indefinite_string_data* d = (struct cbor_indefinite_string_data*)c->data; d->chunk_count = 0; d->chunk_capacity = 0; }
  cbor_decref(&c); cbor_decref(&x);
  if (reqs > 0) printf("%s reqs=%ld last=%zu rc=%zu\n", r ? "true" : "false", reqs, last, rc_after);
  else printf("%s reqs=0 last=- rc=%zu\n", r ? "true" : "false", rc_after);
  return 1;
}


/* LOADSEQ <hex>: decode a CBOR sequence in ONE process by repeated cbor_load at the offset advanced by bytes-read (each call on an
   exactly-sized copy of the remainder); prints the number of items, an FNV digest of the read lengths and the final offset, or the
   index / offset / error of the first failure.  */
static int op_loadseq(const char* hex) {
  struct xbuf all = hex_to_exact(hex);
  size_t off = 0, n = 0; uint64_t h = 1469598103934665603ULL;
  long live0 = h_alloc_live();
  while (off < all.n) {
    struct xbuf win = exact_copy(all.p + off, all.n - off);
    struct cbor_load_result res;
    cbor_item_t* it = cbor_load(win.p, win.n, &res);
    free_exact(win);
    if (!it) { printf("FAIL item=%zu off=%zu code=%s pos=%zu live=%ld\n", n, off, err_name(res.error.code), res.error.position, h_alloc_live() - live0); free_exact(all); return 1; }
    cbor_decref(&it);
    if (res.read == 0) { printf("FAIL item=%zu off=%zu read=0\n", n, off); free_exact(all); return 1; }
    h = (h ^ (uint64_t)res.read) * 1099511628211ULL;
    off += res.read; n++;
  }
  printf("OK items=%zu end=%zu digest=%016" PRIx64 " live=%ld\n", n, off, h, h_alloc_live() - live0);
  free_exact(all);
  return 1;
}


/* GROWRUN <kind a|m|b|s> <n>: n insertions into one fresh indefinite array / map / byte string / text string; prints the final size and
   capacity, the number of allocator requests the insertions caused, and a digest of the capacity after every insertion */
static int op_growrun(const char* kind, unsigned long long n) {
  cbor_item_t* c = NULL; cbor_item_t* x = NULL;
  switch (kind[0]) {
    case 'a': c = cbor_new_indefinite_array(); x = cbor_build_uint8(1); break;
    case 'm': c = cbor_new_indefinite_map(); x = cbor_build_uint8(1); break;
    case 'b': c = cbor_new_indefinite_bytestring(); x = cbor_build_bytestring((cbor_data)"ab", 2); break;
    case 's': c = cbor_new_indefinite_string(); x = cbor_build_stringn("ab", 2); break;
    default: return 0;
  }
  if (!c || !x) { printf("setup-failed\n"); return 1; }
  long before = h_alloc_requests(); uint64_t h = 1469598103934665603ULL; size_t cap = 0, size = 0; int ok = 1;
  for (unsigned long long i = 0; i < n && ok; i++) {
    if (kind[0] == 'a') { ok = cbor_array_push(c, x); cap = cbor_array_allocated(c); size = cbor_array_size(c); }
    else if (kind[0] == 'm') { ok = cbor_map_add(c, (struct cbor_pair){.key = x, .value = x}); cap = cbor_map_allocated(c); size = cbor_map_size(c); }
    else {
      ok = kind[0] == 'b' ? cbor_bytestring_add_chunk(c, x) : cbor_string_add_chunk(c, x);
      struct cbor_indefinite_string_data* d = (struct cbor_indefinite_string_data*)c->data; cap = d->chunk_capacity; size = d->chunk_count;
    }
    h = (h ^ (uint64_t)cap) * 1099511628211ULL;
  }
  long reqs = h_alloc_requests() - before;
  printf("%s size=%zu cap=%zu reqs=%ld digest=%016" PRIx64 "\n", ok ? "ok" : "refused", size, cap, reqs, h);
  cbor_decref(&c); cbor_decref(&x);
  return 1;
}


/* FLTGET <tree-leaf>: a float item (h(..) / s(..) / d(..), built through cbor_build_* or, with '!', cbor_new_* + cbor_set_*): the value read back through the
   width-specific getter and through cbor_float_get_float, as bit patterns:  <width> <bits at its width> <bits of the double returned by cbor_float_get_float> ser=<its serialization> */
static int op_fltget(const char* tree) {
  cbor_item_t* it = parse_tree(tree);
  if (!it || !cbor_isa_float_ctrl(it) || !cbor_is_float(it)) { printf("bad-tree\n"); if (it) cbor_decref(&it); return 1; }
  double g = cbor_float_get_float(it); uint64_t gb; memcpy(&gb, &g, 8);
  switch (cbor_float_get_width(it)) {
    case CBOR_FLOAT_16: { float f = cbor_float_get_float2(it); uint32_t b; memcpy(&b, &f, 4); printf("16 %u %" PRIu64, b, gb); break; }
    case CBOR_FLOAT_32: { float f = cbor_float_get_float4(it); uint32_t b; memcpy(&b, &f, 4); printf("32 %u %" PRIu64, b, gb); break; }
    case CBOR_FLOAT_64: { double f = cbor_float_get_float8(it); uint64_t b; memcpy(&b, &f, 8); printf("64 %" PRIu64 " %" PRIu64, b, gb); break; }
    default: printf("0 0 %" PRIu64, gb);
  }
  { unsigned char ob[16]; size_t w = cbor_serialize(it, ob, sizeof ob); printf(" ser="); print_hex(ob, w); printf("\n"); }
  cbor_decref(&it);
  return 1;
}

/* MAPKV <definite 0|1> <pattern of k / v>: a map assembled with the two halves of cbor_map_add used separately (_cbor_map_add_key, _cbor_map_add_value; maps.h),
   so that pairs anywhere in the map may have no value yet; keys are 1-byte integers, values 2-block text strings; the client releases its own references at once
   and the map at the end.   ->  size=<pairs> novalue=<pairs without value> before=<live blocks> after=<live blocks once the map is released> */
static int op_mapkv(int definite, const char* pat) {
  long live0 = h_alloc_live();
  size_t nk = 0; for (const char* q = pat; *q; q++) if (*q == 'k') nk++;
  cbor_item_t* m = definite ? cbor_new_definite_map(nk) : cbor_new_indefinite_map();
  if (!m) { printf("setup-failed\n"); return 1; }
  unsigned i = 0;
  for (const char* q = pat; *q; q++, i++) {
    if (*q == 'k') { cbor_item_t* k = cbor_build_uint8((uint8_t)i); bool ok = _cbor_map_add_key(m, k); cbor_decref(&k); if (!ok) { printf("add-key-refused "); break; } }
    else if (*q == 'v' && cbor_map_size(m) > 0) { char t[8]; snprintf(t, sizeof t, "v%u", i); cbor_item_t* v = cbor_build_string(t); (void)_cbor_map_add_value(m, v); cbor_decref(&v); }
  }
  size_t nov = 0; for (size_t j = 0; j < cbor_map_size(m); j++) if (cbor_map_handle(m)[j].value == NULL) nov++;
  printf("size=%zu novalue=%zu before=%ld", cbor_map_size(m), nov, h_alloc_live() - live0);
  cbor_decref(&m);
  printf(" after=%ld\n", h_alloc_live() - live0);
  return 1;
}

/* DESC <hex> <marker-hex>: load, cbor_describe into memory -> "described bytes=<n> marker=<0|1>" (whether the marker bytes - the content of a text leaf of the
   input - occur in what was printed; independent of the layout of the description) | "ERR" */
static int op_desc(const char* hex, const char* markhex) {
#if CBOR_PRETTY_PRINTER
  struct xbuf in = hex_to_exact(hex);
  unsigned char mk[64]; size_t mn = hex_decode(markhex, mk, sizeof mk);
  struct cbor_load_result res; cbor_item_t* item = cbor_load(in.p, in.n, &res);
  free_exact(in);
  if (!item) { printf("ERR\n"); return 1; }
  char* dbuf = NULL; size_t dlen = 0; FILE* dn = open_memstream(&dbuf, &dlen);
  int has = 0;
  if (dn) {
    cbor_describe(item, dn); fclose(dn);
    for (size_t i = 0; mn && i + mn <= dlen && !has; i++) if (memcmp(dbuf + i, mk, mn) == 0) has = 1;
    /* a description that prints text as hex digits is as complete as one that prints it verbatim */
    for (int up = 0; up < 2 && !has; up++) {
      char hx[130]; for (size_t j = 0; j < mn; j++) snprintf(hx + 2 * j, 3, up ? "%02X" : "%02x", mk[j]);
      for (size_t i = 0; mn && i + 2 * mn <= dlen && !has; i++) if (memcmp(dbuf + i, hx, 2 * mn) == 0) has = 1;
    }
    printf("described bytes=%zu marker=%d\n", dlen, has); free(dbuf);
  } else printf("no-memstream\n");
  cbor_decref(&item);
#else
  (void)hex; (void)markhex; printf("no-pretty-printer\n");
#endif
  return 1;
}

/* LOADBIG <hex> <total>: the item at the front of a window of <total> bytes (anonymous zero pages, never touched beyond the item: what follows it are
   encodings of the integer 0)  ->  "OK <tree> read=<n>" | "ERR <code> pos=<p>" | "no-map" */
#include <sys/mman.h>
static int op_loadbig(const char* hex, unsigned long long total) {
  unsigned char tmp[4096]; size_t n = hex[0] == '-' ? 0 : hex_decode(hex, tmp, sizeof tmp);
  if (total < n) total = n;
  unsigned char* w = mmap(NULL, total ? total : 1, PROT_READ | PROT_WRITE, MAP_PRIVATE | MAP_ANONYMOUS | MAP_NORESERVE, -1, 0);
  if (w == MAP_FAILED) { printf("no-map\n"); return 1; }
  memcpy(w, tmp, n);
  struct cbor_load_result res; memset(&res, 0xAB, sizeof res);
  cbor_item_t* it = cbor_load(w, total, &res);
  if (!it) printf("ERR %s pos=%zu\n", err_name(res.error.code), res.error.position);
  else { struct sb s = {0}; print_item(&s, it, NULL, 0); printf("OK %s read=%zu\n", s.p, res.read); free(s.p); cbor_decref(&it); }
  munmap(w, total ? total : 1);
  return 1;
}

int hist_op(int argc, char** w);

int tree_op(int argc, char** w) {
  if (!strcmp(w[0], "LOAD") && argc >= 2) {
    op_load(w[1], argc > 2 ? atoi(w[2]) : 0, argc > 3 ? atol(w[3]) : 0, argc > 4 ? strtoull(w[4], 0, 10) : 0);
    return 1;
  }
  if (!strcmp(w[0], "SER") && argc == 3) { op_ser(w[1], strtoull(w[2], 0, 10)); return 1; }
  if (!strcmp(w[0], "SERA") && argc >= 2) { op_sera(w[1], argc > 2 ? atoi(w[2]) : 0, argc > 3 ? atol(w[3]) : 0); return 1; }
  if (!strcmp(w[0], "ROUND") && argc == 2) { op_round(w[1]); return 1; }
  if (!strcmp(w[0], "RO") && argc == 2) { op_ro(w[1]); return 1; }
  if (!strcmp(w[0], "LN") && argc == 3) { op_ln(w[1], atoi(w[2])); return 1; }
  if (!strcmp(w[0], "SIZES") && argc == 2) {   /* cbor_serialized_size of a skeleton (strings with recorded lengths only) */
    cbor_item_t* it = parse_tree(w[1]);
    if (!it) { printf("bad-tree\n"); return 1; }
    printf("%zu\n", cbor_serialized_size(it)); cbor_decref(&it); return 1;
  }
  if (argc == 2 && !strcmp(w[0], "UTF8ITEM")) { extern void op_utf8item(const char*); op_utf8item(w[1]); return 1; }
  if (argc == 3 && !strcmp(w[0], "GROWAT")) return op_growat(w[1], strtoull(w[2], 0, 10));
  if (argc == 2 && !strcmp(w[0], "LOADSEQ")) return op_loadseq(w[1]);
  if (argc == 3 && !strcmp(w[0], "GROWRUN")) return op_growrun(w[1], strtoull(w[2], 0, 10));
  if (argc == 2 && !strcmp(w[0], "FLTGET")) return op_fltget(w[1]);
  if (argc == 3 && !strcmp(w[0], "MAPKV")) return op_mapkv(atoi(w[1]), w[2]);
  if (argc == 3 && !strcmp(w[0], "DESC")) return op_desc(w[1], w[2]);
  if (argc == 3 && !strcmp(w[0], "LOADBIG")) return op_loadbig(w[1], strtoull(w[2], 0, 10));
  return hist_op(argc, w);
}

#include "hcommon.h"
int hist_op(int argc, char** w) { (void)argc; (void)w; return 0; }

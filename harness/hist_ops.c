#include "hcommon.h"
/* History operations: a client with 16 slots, each holding one reference it owns.  After every operation:
   <result> | s<i>=<refcount>[:<size>/<capacity>] ... | live=<allocator blocks> reqs=<allocator requests>          */

#define NSLOT 16
static cbor_item_t* slot[NSLOT];
static long live_base = 0, req_off = 0;

void hist_print_item(const cbor_item_t* it, char** out);   /* tree_ops.c */

static void summary(void) {
  printf(" |");
  for (int i = 0; i < NSLOT; i++) {
    cbor_item_t* it = slot[i];
    if (!it) continue;
    printf(" s%d=%zu", i, cbor_refcount(it));
    if (cbor_isa_array(it)) printf(":%zu/%zu", cbor_array_size(it), cbor_array_allocated(it));
    else if (cbor_isa_map(it)) printf(":%zu/%zu", cbor_map_size(it), cbor_map_allocated(it));
    else if ((cbor_isa_bytestring(it) && cbor_bytestring_is_indefinite(it)) || (cbor_isa_string(it) && cbor_string_is_indefinite(it))) {
      struct cbor_indefinite_string_data* d = (struct cbor_indefinite_string_data*)it->data;
      printf(":%zu/%zu", d->chunk_count, d->chunk_capacity);
    }
  }
  printf(" | live=%ld reqs=%ld\n", h_alloc_live() - live_base, req_off + h_alloc_requests());
}

/* ---- address sets, for "the new tree shares nothing with anything that existed before" ---- */
struct aset { const void** p; size_t n, cap; };
static void aset_add(struct aset* s, const void* a) {
  if (!a) return;
  if (s->n == s->cap) { s->cap = s->cap ? 2 * s->cap : 64; s->p = realloc(s->p, s->cap * sizeof(void*)); }
  s->p[s->n++] = a;
}
static int aset_has(const struct aset* s, const void* a) { for (size_t i = 0; i < s->n; i++) if (s->p[i] == a) return 1; return 0; }
static void collect(const cbor_item_t* it, struct aset* s, int* all_rc1, int depth) {
  if (!it || depth > 4000) return;
  aset_add(s, it);
  if (all_rc1 && cbor_refcount(it) != 1) *all_rc1 = 0;
  switch (cbor_typeof(it)) {
    case CBOR_TYPE_BYTESTRING: case CBOR_TYPE_STRING: {
      int definite = cbor_typeof(it) == CBOR_TYPE_BYTESTRING ? cbor_bytestring_is_definite(it) : cbor_string_is_definite(it);
      if (definite) aset_add(s, it->data);
      else {
        struct cbor_indefinite_string_data* d = (struct cbor_indefinite_string_data*)it->data;
        aset_add(s, d); aset_add(s, d->chunks);
        for (size_t i = 0; i < d->chunk_count; i++) collect(d->chunks[i], s, all_rc1, depth + 1);
      }
      break;
    }
    case CBOR_TYPE_ARRAY:
      aset_add(s, it->data);
      for (size_t i = 0; i < cbor_array_size(it); i++) collect(cbor_array_handle(it)[i], s, all_rc1, depth + 1);
      break;
    case CBOR_TYPE_MAP:
      aset_add(s, it->data);
      for (size_t i = 0; i < cbor_map_size(it); i++) { collect(cbor_map_handle(it)[i].key, s, all_rc1, depth + 1); collect(cbor_map_handle(it)[i].value, s, all_rc1, depth + 1); }
      break;
    case CBOR_TYPE_TAG: collect(it->metadata.tag_metadata.tagged_item, s, all_rc1, depth + 1); break;
    default: break;
  }
}
/* 1 iff every node of the tree in slot s has refcount 1 and no node / buffer of it is reachable from another slot */
static int fresh(int s) {
  struct aset mine = {0}, others = {0}; int rc1 = 1;
  collect(slot[s], &mine, &rc1, 0);
  for (int i = 0; i < NSLOT; i++) if (i != s && slot[i] && slot[i] != slot[s]) collect(slot[i], &others, NULL, 0);
  int ok = rc1;
  for (size_t i = 0; i < mine.n && ok; i++) if (aset_has(&others, mine.p[i])) ok = 0;
  /* and no node appears twice inside the new tree (shared sub-items must come out unshared) */
  for (size_t i = 0; i < mine.n && ok; i++) for (size_t j = i + 1; j < mine.n; j++) if (mine.p[i] == mine.p[j]) { ok = 0; break; }
  free(mine.p); free(others.p);
  return ok;
}

static int S(const char* w) { int v = atoi(w); return (v >= 0 && v < NSLOT) ? v : 0; }
static void put_new(int s, cbor_item_t* it, int with_fresh) {
  if (slot[s]) { printf("slot-occupied"); summary(); if (it) cbor_decref(&it); return; }
  slot[s] = it;
  printf(it ? "item" : "NULL");
  if (it && with_fresh) printf(" fresh=%d", fresh(s));
  summary();
}

static const char* err_name2(cbor_error_code c) {
  switch (c) {
    case CBOR_ERR_NONE: return "NONE"; case CBOR_ERR_NOTENOUGHDATA: return "NOTENOUGHDATA"; case CBOR_ERR_NODATA: return "NODATA";
    case CBOR_ERR_MALFORMATED: return "MALFORMATED"; case CBOR_ERR_MEMERROR: return "MEMERROR"; case CBOR_ERR_SYNTAXERROR: return "SYNTAXERROR";
  }
  return "?";
}

int hist_op(int argc, char** w) {
  if (argc == 1 && !strcmp(w[0], "HRESET")) {
    h_alloc_schedule(0, 0, NULL);
    for (int i = 0; i < NSLOT; i++) slot[i] = NULL;        /* whatever a previous history left is forgotten, not released */
    live_base = h_alloc_live(); h_alloc_reset_counters(); req_off = 0;
    printf("reset\n"); return 1;
  }
  if (argc == 3 && !strcmp(w[0], "HFAULT")) {
    req_off += h_alloc_requests(); h_alloc_reset_counters();
    h_alloc_schedule(atoi(w[1]), atol(w[2]), NULL);
    printf("fault-schedule\n"); return 1;
  }
  if (argc < 2 || strcmp(w[0], "H")) return 0;
  const char* op = w[1]; char** a = w + 2; int n = argc - 2;
  if (!strcmp(op, "dump") && n == 1) {
    if (!slot[S(a[0])]) { printf("EMPTY\n"); return 1; }
    char* t = NULL; hist_print_item(slot[S(a[0])], &t); printf("%s\n", t); free(t); return 1;
  }
  if (!strcmp(op, "ser") && n == 1) {
    cbor_item_t* it = slot[S(a[0])];
    if (!it) { printf("EMPTY\n"); return 1; }
    size_t sz = cbor_serialized_size(it);
    unsigned char* b = malloc(sz ? sz : 1);
    size_t wr = cbor_serialize(it, b, sz);
    printf("%zu ", sz); print_hex(b, wr); printf("\n"); free(b); return 1;
  }
  if (!strcmp(op, "int") && n == 4) {
    int neg = atoi(a[1]), wd = atoi(a[2]); uint64_t v = strtoull(a[3], 0, 10); cbor_item_t* it = NULL;
    switch (wd) {
      case 8: it = neg ? cbor_build_negint8((uint8_t)v) : cbor_build_uint8((uint8_t)v); break;
      case 16: it = neg ? cbor_build_negint16((uint16_t)v) : cbor_build_uint16((uint16_t)v); break;
      case 32: it = neg ? cbor_build_negint32((uint32_t)v) : cbor_build_uint32((uint32_t)v); break;
      default: it = neg ? cbor_build_negint64(v) : cbor_build_uint64(v); break;
    }
    put_new(S(a[0]), it, 0); return 1;
  }
  if (!strcmp(op, "str") && n == 3) {
    unsigned char* d = malloc(strlen(a[2]) / 2 + 1); size_t len = a[2][0] == '-' ? 0 : hex_decode(a[2], d, strlen(a[2]) / 2 + 1);
    cbor_item_t* it = atoi(a[1]) ? cbor_build_stringn((const char*)d, len) : cbor_build_bytestring(d, len);
    free(d); put_new(S(a[0]), it, 0); return 1;
  }
  if (!strcmp(op, "stri") && n == 2) { put_new(S(a[0]), atoi(a[1]) ? cbor_new_indefinite_string() : cbor_new_indefinite_bytestring(), 0); return 1; }
  if (!strcmp(op, "arr") && n == 3) { put_new(S(a[0]), atoi(a[1]) ? cbor_new_definite_array(strtoull(a[2], 0, 10)) : cbor_new_indefinite_array(), 0); return 1; }
  if (!strcmp(op, "map") && n == 3) { put_new(S(a[0]), atoi(a[1]) ? cbor_new_definite_map(strtoull(a[2], 0, 10)) : cbor_new_indefinite_map(), 0); return 1; }
  if (!strcmp(op, "tag") && n == 2) { put_new(S(a[0]), cbor_new_tag(strtoull(a[1], 0, 10)), 0); return 1; }
  if (!strcmp(op, "btag") && n == 3) { put_new(S(a[0]), cbor_build_tag(strtoull(a[1], 0, 10), slot[S(a[2])]), 0); return 1; }
  if (!strcmp(op, "ctrl") && n == 2) { put_new(S(a[0]), cbor_build_ctrl((uint8_t)atoi(a[1])), 0); return 1; }
  if ((!strcmp(op, "f2") || !strcmp(op, "f4")) && n == 2) {
    uint32_t b = (uint32_t)strtoul(a[1], 0, 10); float f; memcpy(&f, &b, 4);
    put_new(S(a[0]), op[1] == '2' ? cbor_build_float2(f) : cbor_build_float4(f), 0); return 1;
  }
  if (!strcmp(op, "f8") && n == 2) { uint64_t b = strtoull(a[1], 0, 10); double f; memcpy(&f, &b, 8); put_new(S(a[0]), cbor_build_float8(f), 0); return 1; }
  if (!strcmp(op, "push") && n == 2) { printf(cbor_array_push(slot[S(a[0])], slot[S(a[1])]) ? "true" : "false"); summary(); return 1; }
  if (!strcmp(op, "pushm") && n == 2) {
    cbor_item_t* x = slot[S(a[1])];
    bool ok = cbor_array_push(slot[S(a[0])], cbor_move(x));
    if (ok) slot[S(a[1])] = NULL; else cbor_incref(x);
    printf(ok ? "true" : "false"); summary(); return 1;
  }
  if (!strcmp(op, "set") && n == 3) { printf(cbor_array_set(slot[S(a[0])], strtoull(a[1], 0, 10), slot[S(a[2])]) ? "true" : "false"); summary(); return 1; }
  if (!strcmp(op, "replace") && n == 3) { printf(cbor_array_replace(slot[S(a[0])], strtoull(a[1], 0, 10), slot[S(a[2])]) ? "true" : "false"); summary(); return 1; }
  if (!strcmp(op, "get") && n == 3) { put_new(S(a[0]), cbor_array_get(slot[S(a[1])], strtoull(a[2], 0, 10)), 0); return 1; }
  if (!strcmp(op, "madd") && n == 3) {
    printf(cbor_map_add(slot[S(a[0])], (struct cbor_pair){.key = slot[S(a[1])], .value = slot[S(a[2])]}) ? "true" : "false"); summary(); return 1;
  }
  if (!strcmp(op, "chunk") && n == 2) {
    cbor_item_t* s = slot[S(a[0])];
    bool ok = cbor_isa_bytestring(s) ? cbor_bytestring_add_chunk(s, slot[S(a[1])]) : cbor_string_add_chunk(s, slot[S(a[1])]);
    printf(ok ? "true" : "false"); summary(); return 1;
  }
  if (!strcmp(op, "tagset") && n == 3) {
    /* documented: a previously tagged item keeps the reference the tag held; the client takes it over (slot a[2]) */
    cbor_item_t* t = slot[S(a[0])];
    cbor_item_t* old = t->metadata.tag_metadata.tagged_item ? cbor_move(cbor_tag_item(t)) : NULL;
    cbor_tag_set_item(t, slot[S(a[1])]);
    if (old) { if (slot[S(a[2])]) printf("slot-occupied "); else slot[S(a[2])] = old; }
    printf("done"); summary(); return 1;
  }
  if (!strcmp(op, "tagget") && n == 2) { put_new(S(a[0]), cbor_tag_item(slot[S(a[1])]), 0); return 1; }
  if (!strcmp(op, "copy") && n == 2) {
    extern int meta_eq(const cbor_item_t*, const cbor_item_t*, int);   /* tree_ops.c: what the dump does not show (code point counts of text strings) */
    cbor_item_t* c = cbor_copy(slot[S(a[1])]);
    if (c && !slot[S(a[0])] && !meta_eq(slot[S(a[1])], c, 0)) printf("COPY-METADATA-DIFFERS ");
    put_new(S(a[0]), c, 1); return 1;
  }
  if (!strcmp(op, "incref") && n == 2) {   /* one more reference, taken the long way round: two cbor_incref, one cbor_intermediate_decref */
    cbor_item_t* x = slot[S(a[1])]; cbor_item_t* r = cbor_incref(x);
    if (x) { (void)cbor_incref(x); cbor_intermediate_decref(x); }
    put_new(S(a[0]), r, 0); return 1;
  }
  if (!strcmp(op, "decref") && n == 1) { cbor_decref(&slot[S(a[0])]); slot[S(a[0])] = NULL; printf("done"); summary(); return 1; }
  if (!strcmp(op, "drop") && n == 1) {   /* release the slot's reference if it holds one */
    if (slot[S(a[0])]) { cbor_decref(&slot[S(a[0])]); slot[S(a[0])] = NULL; printf("done"); } else printf("empty");
    summary(); return 1;
  }
  if (!strcmp(op, "load") && n == 2) {
    struct xbuf in = hex_to_exact(a[1]);
    struct cbor_load_result res; memset(&res, 0x5a, sizeof res);
    cbor_item_t* it = cbor_load(in.p, in.n, &res);
    free_exact(in);
    int s = S(a[0]);
    if (slot[s]) { printf("slot-occupied"); summary(); return 1; }
    slot[s] = it;
    if (it) printf("item code=%s read=%zu fresh=%d", err_name2(res.error.code), res.read, fresh(s));
    else printf("NULL code=%s pos=%zu", err_name2(res.error.code), res.error.position);
    summary(); return 1;
  }
  return 0;
}

/* C17: N threads, each running an independent deterministic workload over the whole API on thread-private items.
   usage: x_threads <nthreads> <seed> <iterations>   prints one line per thread: "<tid> <digest>", then "single <tid> <digest>" from a
   sequential re-run of the same workloads; ThreadSanitizer reports any race on the observed schedule. */
#include <pthread.h>
#include <stdio.h>
#include <stdlib.h>
#include <string.h>
#include <stdint.h>
#include <math.h>
#include "cbor.h"

struct rng { uint64_t s; };
static uint64_t nxt(struct rng* r) { r->s ^= r->s << 13; r->s ^= r->s >> 7; r->s ^= r->s << 17; return r->s; }
static uint64_t below(struct rng* r, uint64_t n) { return nxt(r) % n; }

static cbor_item_t* gen(struct rng* r, int depth) {
  static const uint64_t B[] = {0, 1, 23, 24, 255, 256, 65535, 65536, 4294967295ULL, 4294967296ULL, UINT64_MAX};
  int k = (int)below(r, depth <= 0 ? 7 : 13);
  uint64_t v = B[below(r, 11)];
  switch (k) {
    case 0: return cbor_build_uint8((uint8_t)v);
    case 1: return cbor_build_uint64(v);
    case 2: return cbor_build_negint32((uint32_t)v);
    case 3: {   /* text: ASCII, valid multi-byte sequences, and - one time in four - bytes that are not valid UTF-8 at a random offset */
      unsigned char buf[64]; size_t n = 0, want = below(r, 30);
      static const unsigned char mb[4][4] = {{0xc3, 0xa9, 0, 0}, {0xe2, 0x82, 0xac, 0}, {0xf0, 0x9f, 0x98, 0x80}, {0xf4, 0x8f, 0xbf, 0xbf}};
      while (n < want) {
        uint64_t c = below(r, 8);
        if (c < 5) buf[n++] = (unsigned char)('a' + below(r, 26));
        else { const unsigned char* q = mb[below(r, 4)]; for (int i = 0; i < 4 && q[i]; i++) buf[n++] = q[i]; }
      }
      if (n && below(r, 4) == 0) { static const unsigned char bad[6] = {0x80, 0xc3, 0xff, 0xed, 0xe2, 0xf0}; buf[below(r, n)] = bad[below(r, 6)]; }
      return cbor_build_stringn((const char*)buf, n);
    }
    case 4: { unsigned char buf[40]; size_t n = below(r, 30); for (size_t i = 0; i < n; i++) buf[i] = (unsigned char)nxt(r); return cbor_build_bytestring(buf, n); }
    case 5: {   /* doubles and singles of every class: zero, subnormal, normal, infinite, NaN */
      uint64_t cls = below(r, 6);
      if (below(r, 2)) {
        uint64_t bits = cls == 0 ? 0 : cls == 1 ? (nxt(r) & 0xfffffffffffffULL) | 1 : cls == 2 ? 0x7ff0000000000000ULL : cls == 3 ? 0x7ff8000000000001ULL : (nxt(r) & 0x7fefffffffffffffULL) | 0x0010000000000000ULL;
        if (below(r, 2)) bits |= 1ULL << 63;
        double d; memcpy(&d, &bits, 8); return cbor_build_float8(d);
      } else {
        uint32_t bits = cls == 0 ? 0 : cls == 1 ? ((uint32_t)nxt(r) & 0x7fffffu) | 1 : cls == 2 ? 0x7f800000u : cls == 3 ? 0x7fc00001u : ((uint32_t)nxt(r) & 0x7f7fffffu) | 0x00800000u;
        if (below(r, 2)) bits |= 1u << 31;
        float f; memcpy(&f, &bits, 4); return cbor_build_float4(f);
      }
    }
    case 6: {   /* booleans / null / undef / simple values, and half-width floats incl. values the half encoder has to round, flush or treat as subnormal */
      uint64_t c = below(r, 8);
      if (c == 0) return cbor_build_bool(below(r, 2));
      if (c == 1) return below(r, 2) ? cbor_new_null() : cbor_new_undef();
      if (c == 2) return cbor_build_ctrl((uint8_t)(32 + below(r, 200)));
      float f;
      if (c == 3) f = ldexpf((float)(1 + below(r, 1023)), -24);                         /* subnormal halves */
      else if (c == 4) f = ldexpf(1.0f + (float)below(r, 1 << 20) / (float)(1 << 20), -25 - (int)below(r, 3));   /* just below the smallest subnormal half */
      else if (c == 5) f = ldexpf(1.0f + (float)below(r, 1024) / 1024.0f, (int)below(r, 30) - 14);              /* normal halves */
      else if (c == 6) { uint32_t b = below(r, 2) ? 0x7f800000u : 0x7fc00000u; if (below(r, 2)) b |= 1u << 31; memcpy(&f, &b, 4); }
      else f = ldexpf(1.0f + (float)below(r, 1 << 23) / (float)(1 << 23), (int)below(r, 40) - 20);             /* not half-representable: rounded */
      if (below(r, 2)) f = -f;
      return cbor_build_float2(f);
    }
    case 7: case 8: {
      size_t n = below(r, 5); cbor_item_t* a = k == 7 ? cbor_new_definite_array(n) : cbor_new_indefinite_array();
      for (size_t i = 0; i < n; i++) { cbor_item_t* x = gen(r, depth - 1); (void)cbor_array_push(a, x); cbor_decref(&x); }
      return a;
    }
    case 9: case 10: {
      size_t n = below(r, 4); cbor_item_t* m = k == 9 ? cbor_new_definite_map(n) : cbor_new_indefinite_map();
      for (size_t i = 0; i < n; i++) { cbor_item_t* kk = gen(r, 0); cbor_item_t* vv = gen(r, depth - 1); (void)cbor_map_add(m, (struct cbor_pair){.key = kk, .value = vv}); cbor_decref(&kk); cbor_decref(&vv); }
      return m;
    }
    case 11: { cbor_item_t* x = gen(r, depth - 1); cbor_item_t* t = cbor_build_tag(v, x); cbor_decref(&x); return t; }
    default: {
      cbor_item_t* s = cbor_new_indefinite_bytestring(); size_t n = below(r, 4);
      for (size_t i = 0; i < n; i++) { unsigned char b[3] = {1, 2, 3}; cbor_item_t* c = cbor_build_bytestring(b, below(r, 4)); (void)cbor_bytestring_add_chunk(s, c); cbor_decref(&c); }
      return s;
    }
  }
}

struct job { int tid; uint64_t seed; int iters; uint64_t digest; cbor_item_t* given; };

/* process-global, non-reentrant libc state: the library has no business touching it from a worker.  The program's own definition takes
   precedence over libc's, so a call from library code lands here and is counted. */
#include <locale.h>
#include <stdatomic.h>
static _Atomic long setlocale_calls;
char* setlocale(int category, const char* locale) { (void)category; if (locale) atomic_fetch_add(&setlocale_calls, 1); return (char*)"C"; }

/* a tree with zero-length strings in every position, handed over to a thread before it starts (the original to one thread, a cbor_copy of it to another:
   the two share no item, so each thread may read, re-reference and release its own) */
static cbor_item_t* handover_tree(struct rng* r) {
  cbor_item_t* a = cbor_new_indefinite_array();
  cbor_item_t* parts[8]; int n = 0;
  parts[n++] = cbor_build_bytestring((cbor_data)"", 0);
  parts[n++] = cbor_build_stringn("", 0);
  { cbor_item_t* e = cbor_build_bytestring((cbor_data)"", 0); parts[n++] = cbor_build_tag(1, e); cbor_decref(&e); }
  { cbor_item_t* m = cbor_new_definite_map(1); cbor_item_t* k = cbor_build_stringn("", 0); cbor_item_t* v = cbor_build_bytestring((cbor_data)"", 0);
    (void)cbor_map_add(m, (struct cbor_pair){.key = k, .value = v}); cbor_decref(&k); cbor_decref(&v); parts[n++] = m; }
  { cbor_item_t* s = cbor_new_indefinite_string(); cbor_item_t* c = cbor_build_stringn("", 0); (void)cbor_string_add_chunk(s, c); cbor_decref(&c); parts[n++] = s; }
  parts[n++] = cbor_build_uint8(0); parts[n++] = cbor_build_bool(false); parts[n++] = gen(r, 2);
  for (int i = 0; i < n; i++) { (void)cbor_array_push(a, parts[i]); cbor_decref(&parts[i]); }
  return a;
}
static uint64_t mix(uint64_t h, const unsigned char* p, size_t n);
static uint64_t use_given(cbor_item_t* t, uint64_t h) {
  for (int round = 0; round < 50; round++) {
    unsigned char* buf = NULL; size_t bs = 0; size_t n = cbor_serialize_alloc(t, &buf, &bs);
    h = mix(h, buf, n); free(buf);
    for (size_t i = 0; i < cbor_array_size(t); i++) { cbor_item_t* x = cbor_array_get(t, i); h = mix(h, (unsigned char*)&x->type, sizeof x->type); cbor_decref(&x); }
    cbor_item_t* c = cbor_copy(t); if (c) cbor_decref(&c);
  }
  return h;
}
static uint64_t mix(uint64_t h, const unsigned char* p, size_t n) { for (size_t i = 0; i < n; i++) h = (h ^ p[i]) * 1099511628211ULL; return h; }

static void* work(void* arg) {
  struct job* j = arg; struct rng r = {j->seed * 2654435761ULL + 88172645463325252ULL};
  uint64_t h = 1469598103934665603ULL;
  FILE* nul = fopen("/dev/null", "w");
  if (j->given) { h = use_given(j->given, h); cbor_decref(&j->given); }
  for (int it = 0; it < j->iters; it++) {
    cbor_item_t* t = gen(&r, 3);
    unsigned char* buf = NULL; size_t bs = 0;
    size_t n = cbor_serialize_alloc(t, &buf, &bs);
    h = mix(h, buf, n); h = mix(h, (unsigned char*)&n, sizeof n);
    size_t sz = cbor_serialized_size(t); h = mix(h, (unsigned char*)&sz, sizeof sz);
    { unsigned char* bn = NULL; size_t nn = cbor_serialize_alloc(t, &bn, NULL);   /* the size out-parameter is optional */
      h = mix(h, (unsigned char*)&nn, sizeof nn); if (bn) { h = mix(h, bn, nn); free(bn); } }
    struct cbor_load_result res;
    cbor_item_t* back = cbor_load(buf, n, &res);
    h = mix(h, (unsigned char*)&res.read, sizeof res.read);
    cbor_item_t* cp = cbor_copy(t);
    unsigned char* b2 = malloc(n ? n : 1); size_t n2 = cbor_serialize(cp, b2, n);
    h = mix(h, b2, n2);
    if (back) { size_t n3 = cbor_serialize(back, b2, n); h = mix(h, b2, n3); cbor_decref(&back); }
    if (nul) cbor_describe(t, nul);
    /* a truncated load and a streaming pass */
    if (n > 1) { cbor_item_t* tr = cbor_load(buf, n - 1, &res); h = mix(h, (unsigned char*)&res.error.code, sizeof res.error.code); if (tr) cbor_decref(&tr); }
    struct cbor_callbacks cbs = cbor_empty_callbacks; size_t off = 0;
    while (off < n) { struct cbor_decoder_result d = cbor_stream_decode(buf + off, n - off, &cbs, NULL); if (d.status != CBOR_DECODER_FINISHED) break; off += d.read; h = mix(h, (unsigned char*)&d.read, sizeof d.read); }
    free(b2); free(buf); cbor_decref(&cp); cbor_decref(&t);
  }
  if (nul) fclose(nul);
  j->digest = h;
  return NULL;
}

int main(int argc, char** argv) {
  int n = argc > 1 ? atoi(argv[1]) : 4; uint64_t seed = argc > 2 ? strtoull(argv[2], 0, 10) : 1; int iters = argc > 3 ? atoi(argv[3]) : 200;
  cbor_set_allocs(malloc, realloc, free);   /* configured once, before any thread exists */
  pthread_t th[64]; struct job jobs[64], solo[64];
  if (n > 64) n = 64;
  for (int pass = 0; pass < 2; pass++) {
    struct job* js = pass == 0 ? jobs : solo;
    for (int i = 0; i < n; i++) js[i] = (struct job){i, seed * 1000 + (uint64_t)i, iters, 0, NULL};
    for (int i = 0; i + 1 < n; i += 2) {   /* thread i gets a tree, thread i+1 a copy of it */
      struct rng r = {seed * 7919 + (uint64_t)i + 1};
      js[i].given = handover_tree(&r); js[i + 1].given = cbor_copy(js[i].given);
    }
    if (pass == 0) {
      for (int i = 0; i < n; i++) pthread_create(&th[i], NULL, work, &jobs[i]);
      for (int i = 0; i < n; i++) pthread_join(th[i], NULL);
      for (int i = 0; i < n; i++) printf("%d %016llx\n", i, (unsigned long long)jobs[i].digest);
    } else {
      for (int i = 0; i < n; i++) { work(&solo[i]); printf("single %d %016llx\n", i, (unsigned long long)solo[i].digest); }
    }
  }
  if (atomic_load(&setlocale_calls) > 0) printf("NONREENTRANT setlocale called %ld time(s) by library code\n", atomic_load(&setlocale_calls));
  return 0;
}

#include "hcommon.h"
/* cborharness: reads operations from stdin (one per line), prints one result line each. */
int main(void) {
  static char line[1 << 22];
  char* w[64];
  h_alloc_install();
  setvbuf(stdout, NULL, _IOFBF, 1 << 16);
  while (fgets(line, sizeof line, stdin)) {
    int argc = 0;
    for (char* t = strtok(line, " \t\r\n"); t && argc < 64; t = strtok(NULL, " \t\r\n")) w[argc++] = t;
    if (argc == 0) { printf("bad-op\n"); continue; }
    /* the streaming decoder, encoders, UTF-8 counter and arithmetic helpers must not allocate: any request is fatal here */
    h_alloc_forbid(1);
    int handled = gen_op(argc, w);
    h_alloc_forbid(0);
    if (handled) continue;
    if (tree_op(argc, w)) continue;
    printf("bad-op\n");
  }
  fflush(stdout);
  return 0;
}

#ifndef HCOMMON_H
#define HCOMMON_H
#include <inttypes.h>
#include <stdarg.h>
#include <stdbool.h>
#include <stdint.h>
#include <stdio.h>
#include <stdlib.h>
#include <string.h>

#include "cbor.h"

/* hex / exact-sized blocks (hutil.c) */
/* exactly-sized heap block: p points at n usable bytes followed directly by the ASan red zone
   (n == 0: p is the one-past pointer of a 1-byte block, so any access is an overflow) */
struct xbuf { unsigned char* base; unsigned char* p; size_t n; };
struct xbuf hex_to_exact(const char* hex);
struct xbuf exact_copy(const unsigned char* src, size_t n);
void free_exact(struct xbuf b);
void print_hex(const unsigned char* p, size_t n);
size_t hex_decode(const char* hex, unsigned char* out, size_t cap);

/* instrumenting allocator (halloc.c) */
void h_alloc_install(void);
long h_alloc_requests(void);     /* malloc+realloc requests seen so far */
long h_alloc_live(void);         /* live blocks */
long h_alloc_live_bytes(void);
long h_alloc_frees(void);
long h_alloc_mallocs(void);
long h_alloc_reallocs(void);
void h_alloc_reset_counters(void);
/* fault schedule: mode 0 none; 1 = refuse request k only; 2 = refuse request k and all later; 3 = bit string */
void h_alloc_schedule(int mode, long k, const char* bits);
void h_alloc_set_cap(size_t cap); /* requests larger than cap are refused (0 = no cap) */
long h_alloc_refused(void);
/* size log of granted/refused requests since last reset (for C20 end-to-end) */
size_t h_alloc_last_request_size(void);
bool h_alloc_is_live(const void* p);
void h_arena_protect(int on);   /* HALLOC=arena: write-protect everything allocated so far; further requests come from a second arena */
int h_arena_mode(void);
void h_alloc_forbid(int on);    /* any allocator request while on is fatal */

int gen_op(int argc, char** w);
int tree_op(int argc, char** w);
cbor_item_t* parse_tree(const char* text);
#endif

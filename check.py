#!/usr/bin/env python3
"""Entry point:  python3 check.py C07 --tier quick|thorough   |   python3 check.py C07 --replay <file>"""
import argparse, importlib, json, os, sys
sys.path.insert(0, os.path.dirname(os.path.abspath(__file__)))
from vlib import flow


def main():
    ap = argparse.ArgumentParser()
    ap.add_argument('prop')
    ap.add_argument('--tier', default=os.environ.get('VERIF_TIER', 'quick'), choices=['quick', 'thorough'])
    ap.add_argument('--replay')
    a = ap.parse_args()
    try:
        mod = importlib.import_module('checks.' + a.prop)
    except ImportError as ex:
        print('VIOLATION property=%s replay=/dev/null no-failing-input-found (no check module: %s)' % (a.prop, ex))
        return 1
    replay = json.load(open(a.replay)) if a.replay else None
    if replay is not None and replay.get('kind') != 'failing-input':
        print('replay file names a broken theorem / correspondence, not an input; re-running the full check')
        replay = None
    try:
        return flow.run_check(mod.PROP, a.tier, replay)
    except Exception:
        import traceback
        traceback.print_exc()
        print('VIOLATION property=%s replay=/dev/null no-failing-input-found (check machinery failed)' % a.prop)
        return 1


if __name__ == '__main__':
    sys.exit(main())
